"""C09 — priority schedulers honour task priorities (ap, ip, spq) — clause level.

The ordering itself is the sorted, stable insertion of class/list.h (decided by C31/R31.a:
non-increasing priority, ties in arrival order, head = highest).  Decided here is that each scheduler
is wired to it the right way round:

R09.a  ap: schedule = one chain_sorted of the whole ring with the task-priority comparator (the distance
       is ignored), select = pop_front (highest first).  ip: a fresh ring (distance 0) is chain_sorted
       with the same comparator, select = pop_back (lowest first).  The local-counter wrappers forward
       list, ring and comparator unchanged and pop from the end their name says.
R09.b  spq: the list of per-distance queues is kept in increasing distance: the scan stops at the
       queue of that distance or at the first larger one, a new queue is inserted before that position
       with prio = distance; the ring is chain_sorted into that queue with the priority comparator;
       select walks the queues from the first and pops the front of the first non-empty one; both run
       under the lock of the outer list.
"""
from sa.facts import AnalysisBroken, lockset_analysis, cond_atom
from sa.tables import BASE_LOCKS
from rules import gencommon as gc

CMP = 'parsec_execution_context_priority_comparator'
SORTED = 'parsec_mca_sched_list_local_counter_chain_sorted'
BACK = 'parsec_mca_sched_list_local_counter_chain_back'
POPF = 'parsec_mca_sched_list_local_counter_pop_front'
POPB = 'parsec_mca_sched_list_local_counter_pop_back'
QUEUE_OPS = {SORTED, BACK, POPF, POPB, 'parsec_mca_sched_list_local_counter_chain_front', 'parsec_list_chain_sorted', 'parsec_list_chain_back',
             'parsec_list_chain_front', 'parsec_list_push_back', 'parsec_list_push_front', 'parsec_list_push_sorted', 'parsec_list_pop_front', 'parsec_list_pop_back',
             'parsec_list_nolock_add_before', 'parsec_list_nolock_add_after', 'parsec_list_nolock_push_back', 'parsec_list_nolock_push_front'}


def is_cmp(f, e):
    return CMP in gc.macro_names(f, e) and e.cv is not None


def module_slots(u, gname):
    g = u.glob(gname)
    if g is None:
        raise AnalysisBroken('%s not found' % gname)
    e = g.init()
    refs = [r.n for r in e.walk() if r.k == 'ref']
    return refs


def run(ctx):
    ctx.explanation = ('Clause level: each of the three priority schedulers feeds the sorted, stable list insertion (decided by C31/R31.a) with the task-priority '
                       'comparator and pops from the end that gives its advertised order; spq keeps its per-distance queues in increasing distance and serves the '
                       'first non-empty one. Decides the wiring, not the order of a history.')
    ctx.not_decided = 'the order of arbitrary schedule/select histories (needs the list contents); concurrent use.'
    ra = ctx.rule('R09.a', 'ap / ip: sorted insertion with the priority comparator; pop from the advertised end; wrappers transparent', floor=9)
    rb = ctx.rule('R09.b', 'spq: queues in increasing distance; ring sorted into the queue of its distance; first non-empty queue served; under the list lock', floor=7)
    rc9 = ctx.rule('R09.c', 'the sorted insertion the schedulers rely on puts every element of the ring through the sorted scan (rings handed to schedule() need not be sorted)', floor=1)
    from rules.C31 import chain_sorted_all_through_scan
    chain_sorted_all_through_scan(ctx, ctx.extract('parsec/mca/sched/ap/sched_ap_module.c'), rc9)

    # ---------------------------------------------------------------- ap / ip
    for mod, popfn in (('ap', POPF), ('ip', POPB)):
        u = ctx.extract('parsec/mca/sched/%s/sched_%s_module.c' % (mod, mod))
        slots = module_slots(u, 'parsec_sched_%s_module' % mod)
        sch = u.func('sched_%s_schedule' % mod); sel = u.func('sched_%s_select' % mod)
        if sch is None or sel is None:
            raise AnalysisBroken('sched_%s_schedule / _select not found' % mod)
        ctx.functions_analysed.update([sch.name, sel.name])
        ra.expect(sch.name in slots and sel.name in slots, '%s:module-table' % mod, u.glob('parsec_sched_%s_module' % mod).file,
                  'the %s module table must install sched_%s_schedule and sched_%s_select' % (mod, mod, mod), note='%s: module table installs schedule/select' % mod)
        ring = sch.params[1]['n']; dist = sch.params[2]['n']
        ops = [e for e in sch.events() if e.kind == 'call' and e.fn in QUEUE_OPS]
        srt = [e for e in ops if e.fn == SORTED]
        okc = len(srt) == 1 and srt[0].args[1].s == ring and is_cmp(sch, srt[0].args[2])
        ra.expect(okc, '%s:schedule-sorted' % mod, srt[0].loc if srt else sch.where(),
                  'sched_%s_schedule must insert the whole ring with chain_sorted and the task-priority comparator' % mod, note='%s: ring chain_sorted by task priority' % mod)
        if mod == 'ap':
            ra.expect(len(ops) == 1 and okc and sch.postdominates(srt[0].point, (sch.entry, 0)), 'ap:schedule-only-sorted', sch.where(),
                      'ap must not queue tasks by any other route than the sorted insertion (found %s)' % [e.fn for e in ops], note='ap: sorted insertion on every path, nothing else')
        else:
            bk = [e for e in ops if e.fn == BACK]
            def g0(e, want):
                for a, t, _ in sch.guards(e.point):
                    s_ = a.s.replace(' ', '')
                    if s_ in ('0==%s' % dist, '%s==0' % dist):
                        return t is want
                    if s_ == dist:
                        return t is (not want)
                return False
            ra.expect(len(ops) == 2 and len(bk) == 1 and okc and g0(srt[0], True) and g0(bk[0], False) and bk[0].args[1].s == ring, 'ip:schedule-distance', sch.where(),
                      'ip must sort a fresh ring (distance 0) into the list and append a rescheduled ring at the back', note='ip: distance 0 sorted, otherwise chained at the back')
        pops = [e for e in sel.events() if e.kind == 'call' and e.fn in QUEUE_OPS]
        rets = sel.returns()
        okp = len(pops) == 1 and pops[0].fn == popfn and len(rets) == 1
        if okp:
            st = [e for e in sel.events() if e.kind == 'store' and e.rhs is not None and any(x.nid == pops[0].e.nid for x in e.rhs.walk())]
            okp = bool(st) and rets[0].e is not None and rets[0].e.s == st[0].lhs.s
        ra.expect(okp, '%s:select-end' % mod, pops[0].loc if pops else sel.where(),
                  'sched_%s_select must return the task popped from the %s of the sorted list (%s first)' % (mod, 'front' if popfn == POPF else 'back', 'highest' if popfn == POPF else 'lowest'),
                  note='%s: select = %s' % (mod, 'pop_front (highest)' if popfn == POPF else 'pop_back (lowest)'))
        # wrappers (same unit: static inline in sched_local_queues_utils.h)
        for w, inner, nargs in ((SORTED, 'parsec_list_chain_sorted', 3), (popfn, 'parsec_list_pop_front' if popfn == POPF else 'parsec_list_pop_back', 1)):
            wf = u.func(w)
            if wf is None:
                raise AnalysisBroken('%s not found in the %s unit' % (w, mod))
            ctx.functions_analysed.add(w)
            ic = [e for e in wf.events() if e.kind == 'call' and e.fn in QUEUE_OPS]
            okw = len(ic) == 1 and ic[0].fn == inner and wf.postdominates(ic[0].point, (wf.entry, 0))
            if okw and nargs == 3:
                okw = ic[0].args[1].s in ('&%s->super' % wf.params[1]['n'], '%s' % wf.params[1]['n']) and ic[0].args[2].s == wf.params[2]['n'] \
                    and ic[0].args[0].s in (wf.params[0]['n'], '%s->list' % wf.params[0]['n'])
            if okw and nargs == 1:
                r = wf.returns()
                okw = len(r) == 1 and ic[0].args[0].s in (wf.params[0]['n'], '%s->list' % wf.params[0]['n'])
            ra.expect(okw, '%s:wrapper:%s' % (mod, w), wf.where(), '%s must forward to %s with the same list, ring and comparator' % (w, inner), note='%s -> %s' % (w, inner))

    # ---------------------------------------------------------------- spq
    u = ctx.extract('parsec/mca/sched/spq/sched_spq_module.c')
    sch = u.func('sched_spq_schedule'); sel = u.func('sched_spq_select')
    if sch is None or sel is None:
        raise AnalysisBroken('sched_spq_schedule / _select not found')
    ctx.functions_analysed.update([sch.name, sel.name])
    slots = module_slots(u, 'parsec_sched_spq_module')
    rb.expect(sch.name in slots and sel.name in slots, 'spq:module-table', sch.where(), 'the spq module table must install sched_spq_schedule and sched_spq_select', note='spq: module table')
    ring = sch.params[1]['n']; dist = sch.params[2]['n']
    # scan: stop on == (reuse) and on > (insert before); nothing else leaves the loop early
    conds = []
    for b in sch.blocks:
        c = sch.cond(b)
        if c is None:
            continue
        a, pol = cond_atom(c)
        if a.k == 'bin' and a.op in ('==', '>', '<', '>=', '<=', '!=') and 'prio' in a.s and dist in a.s:
            l, r = a.ch
            if dist in l.s and 'prio' in r.s:
                flip = {'>': '<', '<': '>', '>=': '<=', '<=': '>=', '==': '==', '!=': '!='}
                a_op = flip[a.op]
            else:
                a_op = a.op
            conds.append((a_op, pol, b))
    ops_ = sorted((o if p else {'==': '!=', '>': '<=', '<': '>=', '>=': '<', '<=': '>', '!=': '=='}[o]) for o, p, _ in conds)
    rb.expect(ops_ == ['==', '>'], 'spq:scan-stops', sch.where(),
              'the scan of the per-distance queues must stop at the queue whose prio equals the distance, or at the first one whose prio is larger (found tests %s): '
              'stopping elsewhere breaks the increasing order and a larger distance can be served first' % ops_, note='spq: scan stops at prio == distance or first prio > distance')
    adds = [e for e in sch.events() if e.kind == 'call' and e.fn in ('parsec_list_nolock_add_before', 'parsec_list_nolock_add_after', 'parsec_list_nolock_push_back', 'parsec_list_nolock_push_front',
                                                                     'parsec_list_push_back', 'parsec_list_push_front')]
    itv = None
    for b in sch.blocks:
        pass
    oka = len(adds) == 1 and adds[0].fn == 'parsec_list_nolock_add_before'
    newq = None
    if oka:
        newq = adds[0].args[2].s
        pos = adds[0].args[1].s
        adv = [s_ for s_ in sch.stores(pos) if s_.rhs is not None and s_.rhs.k == 'mem' and s_.rhs.n == 'list_next']
        first = [s_ for s_ in sch.stores(pos) if s_.rhs is not None and s_.rhs.s.endswith('ghost_element.list_next')]
        oka = bool(adv) and bool(first)
    rb.expect(oka, 'spq:insert-before', adds[0].loc if adds else sch.where(), 'a new per-distance queue must be linked before the position where the forward scan stopped',
              note='spq: new queue inserted before the first larger distance')
    pst = [s_ for s_ in sch.events() if s_.kind == 'store' and s_.lhs.k == 'mem' and s_.lhs.n == 'prio']
    rb.expect(len(pst) == 1 and pst[0].rhs.s == dist and (not adds or sch.precedes(pst[0], adds[0])), 'spq:new-queue-prio', pst[0].loc if pst else sch.where(),
              'the new queue must be labelled with the distance of the ring before it is linked', note='spq: new queue prio = distance')
    srt = [e for e in sch.events() if e.kind == 'call' and e.fn in ('parsec_list_chain_sorted', 'parsec_list_nolock_chain_sorted')]
    oks = len(srt) == 1 and srt[0].args[1].s == ring and is_cmp(sch, srt[0].args[2]) and srt[0].args[0].s.endswith('->tasks') and sch.postdominates(srt[0].point, (sch.entry, 0))
    rb.expect(oks, 'spq:ring-sorted', srt[0].loc if srt else sch.where(), 'the ring must be chain_sorted by task priority into the tasks list of the selected queue, on every path',
              note='spq: ring chain_sorted by task priority into its distance queue')
    spq_lock_consistency(ctx, rb, sch, sel)
    # select: forward walk from the first queue, pop_front of the first non-empty, distance reported
    pops = [e for e in sel.events() if e.kind == 'call' and e.fn in ('parsec_list_pop_front', 'parsec_list_pop_back', 'parsec_list_nolock_pop_front', 'parsec_list_nolock_pop_back')]
    okp = len(pops) == 1 and pops[0].fn in ('parsec_list_pop_front', 'parsec_list_nolock_pop_front') and pops[0].args[0].s.endswith('->tasks')
    li = None
    if okp:
        adv = [s_ for s_ in sel.events() if s_.kind == 'store' and s_.lhs.k == 'ref' and s_.rhs is not None and s_.rhs.k == 'mem' and s_.rhs.n in ('list_next', 'list_prev') and s_.rhs.ch[0].s == s_.lhs.s]
        first = [s_ for s_ in sel.events() if s_.kind == 'store' and s_.lhs.k == 'ref' and s_.rhs is not None and s_.rhs.s.endswith('ghost_element.list_next')]
        okp = len(adv) == 1 and adv[0].rhs.n == 'list_next' and len(first) == 1 and first[0].lhs.s == adv[0].lhs.s
    rb.expect(okp, 'spq:select-first-nonempty', pops[0].loc if pops else sel.where(),
              'select must walk the queues from the first (smallest distance) forward and pop the front (highest priority) of the first non-empty one',
              note='spq: select = front of the first non-empty queue, smallest distance first')
    ds = [s_ for s_ in sel.events() if s_.kind == 'store' and s_.lhs.s == '*%s' % sel.params[1]['n']]
    rb.expect(len(ds) == 1 and ds[0].rhs.s.endswith('->prio'), 'spq:select-distance', ds[0].loc if ds else sel.where(),
              'select must report the distance of the queue the task came from', note='spq: distance of the served queue reported')



LOCKED_LIST_OPS = {'parsec_list_chain_sorted', 'parsec_list_pop_front', 'parsec_list_pop_back', 'parsec_list_push_sorted', 'parsec_list_chain_back', 'parsec_list_chain_front',
                   'parsec_list_push_back', 'parsec_list_push_front'}
NOLOCK_LIST_OPS = {'parsec_list_nolock_chain_sorted', 'parsec_list_nolock_pop_front', 'parsec_list_nolock_pop_back', 'parsec_list_nolock_push_sorted', 'parsec_list_nolock_chain_back',
                   'parsec_list_nolock_chain_front', 'parsec_list_nolock_push_back', 'parsec_list_nolock_push_front', 'parsec_list_nolock_add_before', 'parsec_list_nolock_add_after',
                   'parsec_list_nolock_remove'}


def spq_lock_consistency(ctx, rule, sch, sel):
    """Lockset consistency: every access of schedule/select to a per-distance task list holds a common lock
    (the lock of the outer list, or the list's own lock taken by a locked list operation); accesses to the
    outer list are made under its lock; every lock is released on every exit."""
    common = None
    n = 0
    for f in (sch, sel):
        ls = lockset_analysis(f, BASE_LOCKS)
        for e in f.events():
            if e.kind != 'call' or e.fn not in (LOCKED_LIST_OPS | NOLOCK_LIST_OPS) or not e.args:
                continue
            tgt = e.args[0].s
            held = set()
            for l in (ls.must_before(e) or ()):
                if 'task_list' in l:
                    held.add('outer')
            if tgt.endswith('->tasks'):
                if e.fn in LOCKED_LIST_OPS:
                    held.add('inner')
                n += 1
                common = held if common is None else (common & held)
                rule.expect(bool(held), 'spq:%s:%s-unprotected' % (f.name, e.fn), e.loc, '%s touches a per-distance task list with %s while holding no lock' % (f.name, e.fn),
                            note='%s: %s on a distance queue holds %s' % (f.name, e.fn, '+'.join(sorted(held))))
            else:
                rule.expect('outer' in held or e.fn in LOCKED_LIST_OPS, 'spq:%s:%s-outer-unlocked' % (f.name, e.fn), e.loc,
                            '%s changes the list of per-distance queues with %s outside the lock of that list' % (f.name, e.fn),
                            note='%s: %s on the list of queues under its lock' % (f.name, e.fn))
        rule.expect(all(not may for _, must, may, _ in ls.exits()), 'spq:%s-exit-locked' % f.name, f.where(), '%s can return holding a lock' % f.name, note='%s: all locks released on every exit' % f.name)
    rule.expect(n >= 2 and bool(common), 'spq:distance-queue-common-lock', sch.where(),
                'sched_spq_schedule and sched_spq_select do not hold a common lock when they touch a per-distance task list: a pop can run concurrently with a sorted insertion and lose or duplicate a task',
                note='all accesses to a distance queue hold a common lock (%s)' % '+'.join(sorted(common or ())))
