"""R25.e — generated code: every data_repo_lookup_entry_and_create (which retains the entry) is
matched by a data_repo_entry_addto_usage_limit on the same repository and entry (which releases the
creator's hold): at once in data_lookup_of_<T>, after the successor iteration in release_deps_of_<T>.
An entry created without it is never reclaimed; a limit added without the create releases a hold
nobody took (premature reclamation)."""
import re
from sa import gen as sagen
from rules import gencommon as gc

CREATE = ('data_repo_lookup_entry_and_create', '__data_repo_lookup_entry_and_create')
ADDTO = ('data_repo_entry_addto_usage_limit', '__data_repo_entry_addto_usage_limit')


def q_R25e(u, prog):
    rec = gc.Rec()
    for fname, f in u.funcs().items():
        evs = f.events()
        cr = [e for e in evs if e.kind == 'call' and e.fn in CREATE]
        ad = [e for e in evs if e.kind == 'call' and e.fn in ADDTO]
        if not cr and not ad:
            continue
        loc = gc.ploc(prog, fname)
        for c in cr:
            st = [e for e in evs if e.kind == 'store' and e.rhs is not None and any(x.nid == c.e.nid for x in e.rhs.walk())]
            ent = st[0].lhs.s if st else None
            repo = c.args[1].s
            if ent == 'arg.output_entry':
                best = None
                for e in evs:
                    if e.kind == 'store' and e.lhs.s == 'arg.output_repo' and f.dominates(e.point, c.point):
                        if best is None or f.dominates(best.point, e.point):
                            best = e
                repo = best.rhs.s if best is not None else repo
            m = [a for a in ad if a.args[0].s == repo and ent is not None and a.args[1].s == '%s->ht_item.key' % ent and f.reaches(c.point, a.point)]
            if fname.startswith('data_lookup_of_'):
                ok = bool(m) and any(a.block == c.block or f.dominates(c.point, a.point) for a in m)
                msg = 'the entry created for the task in %s is not followed by addto_usage_limit on the same repository/entry: it is retained for ever' % fname
            else:
                ok = bool(m)
                msg = 'the output entry created in %s never gets its usage limit: its creator hold is never released' % fname
            rec.expect(ok, 'R25.e', '%s:%s:create-unmatched' % (prog.name, fname), loc + ':%d' % f.line_of(c.nid), msg,
                       note='%s: create matched by addto_usage_limit on %s / %s' % (fname, repo, ent))
        for a in ad:
            # every addto must be reachable from a create of the same entry (or act on this_task->repo_entry created in data_lookup)
            ent = a.args[1].s.replace('->ht_item.key', '')
            ok = any(f.reaches(c.point, a.point) for c in cr) or ent == 'this_task->repo_entry'
            rec.expect(ok, 'R25.e', '%s:%s:addto-unmatched' % (prog.name, fname), loc + ':%d' % f.line_of(a.nid),
                       'addto_usage_limit in %s releases a creator hold that this function did not take' % fname,
                       note='%s: addto_usage_limit follows a create' % fname)
    return rec


def check_R25e(ctx):
    g = sagen.Gen(ctx)
    r = ctx.rule('R25.e', 'generated code: lookup_entry_and_create matched by addto_usage_limit on the same repository/entry', 400)
    progs = [p for p in g.programs(ctx.tier) if not p.expect_fail]
    res = g.scan(progs, q_R25e)
    gc.apply_records(ctx, {'R25.e': r}, res)
    gc.raise_pending(ctx)
