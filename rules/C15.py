"""C15 — composed taskpools run strictly one after another (parsec/compound.c)."""
from sa import aff, tables, pathq
from sa.facts import cond_atom, AnalysisBroken

UNIT = 'parsec/compound.c'
ADD = 'parsec_context_add_taskpool'


def run(ctx):
    ctx.explanation = ('Static clauses on compound.c: (a) startup enqueues exactly one member, taskpool_array[0], outside any loop; (b) the completion callback advances the completed counter once, '
                       'enqueues only the member whose index is (counter value before the increment) + 1, and only when the runtime-action count returned by the decrement is still positive; '
                       '(c) startup installs the callback on every member 0..nb_taskpools-1 and sets the runtime-action count to nb_taskpools; (d) compose keeps composition order in the array and NULL-terminates it; '
                       '(e) nothing else in the unit enqueues members or installs the callback.')
    ctx.not_decided = 'that no task of member k+1 starts before the last task of member k completed — rests on C10/C06 (callback runs after the last task).'
    u = ctx.extract(UNIT)
    ra = ctx.rule('R15.a', 'startup enqueues taskpool_array[0] once, outside loops', floor=1)
    rb = ctx.rule('R15.b', 'callback enqueues member (old counter)+1 only while remaining > 0', floor=4)
    rc = ctx.rule('R15.c', 'callback installed on every member; runtime actions = nb_taskpools', floor=3)
    rd = ctx.rule('R15.d', 'compose preserves order and NULL-terminates', floor=4)
    re_ = ctx.rule('R15.e', 'no other enqueue of members / callback installation in the unit', floor=1)

    f = u.func('parsec_compound_taskpool_startup'); ctx.functions_analysed.add(f.name)
    adds = f.calls(ADD)
    ok = len(adds) == 1 and not f.in_loop(adds[0].block) and adds[0].args[1].k == 'idx' and adds[0].args[1].ch[1].cv == 0 \
        and adds[0].args[1].ch[0].s.endswith('taskpool_array') and f.postdominates(adds[0].point, (f.entry, 0))
    ra.expect(ok, 'startup:first', adds[0].loc if adds else f.where(), 'startup must enqueue exactly taskpool_array[0], once, on every path (found %s)' % [a.e.s for a in adds],
              note='startup: add_taskpool(ctx, taskpool_array[0]) once')
    # (c)
    fors = f.stmts_of_kind('for')
    okc = False; why = 'no for loop'
    sets = [s for s in f.stores() if s.lhs.k == 'mem' and s.lhs.n == 'on_complete']
    for fr in fors:
        n = f.nodes[fr]
        init = f.expr(n.get('init')) if 'init' in n and f.nodes[n['init']]['k'] != 'decl' else None
        iv = None; start = None
        if 'init' in n and f.nodes[n['init']]['k'] == 'decl':
            v = f.nodes[n['init']]['vars'][0]; iv = v['n']; start = f.expr(v['init']) if 'init' in v else None
        elif init is not None and init.k == 'asg':
            iv = init.ch[0].s; start = init.ch[1]
        cond = f.expr(n['cond']) if 'cond' in n else None
        inc = f.expr(n['inc']) if 'inc' in n else None
        if iv is None or cond is None or inc is None:
            continue
        good = start is not None and start.cv == 0 and cond.k == 'bin' and cond.op == '<' and cond.ch[0].s == iv and cond.ch[1].s.endswith('nb_taskpools') \
            and inc.k == 'un' and inc.op in ('post++', 'pre++') and inc.ch[0].s == iv
        body_nodes = set(f.ast_walk(n['body']))
        for s in sets:
            if s.nid in body_nodes and good and s.rhs.s == 'parsec_composed_taskpool_cb':
                # the object must be taskpool_array[iv]
                base = s.lhs.ch[0]
                defs = [d for d in f.stores(base.s) if d.nid in body_nodes or f.nodes[d.nid]['k'] == 'decl']
                tgt = defs[-1].rhs if defs else base
                if tgt.k == 'idx' and tgt.ch[1].s == iv and tgt.ch[0].s.endswith('taskpool_array'):
                    okc = True
        why = 'loop %s; stores %s' % ((cond.s if cond is not None else '?'), [s.e.s for s in sets if s.e is not None])
    rc.expect(okc, 'startup:install-all', f.where(), 'completion callback not installed on every member 0..nb_taskpools-1 (%s)' % why, note='for i in [0, nb_taskpools): taskpool_array[i]->on_complete = cb')
    data = [s for s in f.stores() if s.lhs.k == 'mem' and s.lhs.n == 'on_complete_data' and s.rhs.s == f.expr(f.nodes[f.d['body']]['ch'][0]).s or False] if False else \
        [s for s in f.stores() if s.lhs.k == 'mem' and s.lhs.n == 'on_complete_data']
    rc.expect(len(data) >= 1 and all(any(s.block == d.block for d in data) for s in sets), 'startup:cbdata', (data or sets or [None])[0].loc if (data or sets) else f.where(),
              'on_complete_data must be set together with on_complete', note='on_complete_data = compound alongside')
    sra = [e for e in f.calls() if e.fn is None and e.callee is not None and e.callee.k == 'mem' and e.callee.n == 'taskpool_set_runtime_actions']
    rc.expect(len(sra) == 1 and sra[0].args[1].s.endswith('nb_taskpools') and f.precedes(sra[0], adds[0]) if adds else False, 'startup:actions', sra[0].loc if sra else f.where(),
              'runtime actions must be set to nb_taskpools before the first member is enqueued', note='set_runtime_actions(nb_taskpools) before first enqueue')

    # (b)
    f = u.func('parsec_composed_taskpool_cb'); ctx.functions_analysed.add(f.name)
    npaths = 0
    for pi in pathq.all_paths(f):
        npaths += 1
        cnt = 0; old_atom = None; upd = None
        for e, v in pi.events('store'):
            if e.lhs.k == 'mem' and e.lhs.n == 'completed_taskpools':
                cnt += 1; upd = e
                ctr = e.lhs.subst(v)
                if e.op == '++':
                    old_atom = ctr            # value before the increment = the counter as read here
                elif e.op == '=' and e.rhs is not None and aff.norm(e.rhs.subst(v)) == aff.norm(ctr) + aff.Poly.const(1):
                    old_atom = ctr
                elif e.op == '+=' and e.rhs is not None and e.rhs.cv == 1:
                    old_atom = ctr
        late = [e for e, v in pi.events('load') if e.e.k == 'mem' and e.e.n == 'completed_taskpools' and upd is not None and pi.index(e) > pi.index(upd)]
        if late:
            rb.bad('cb:counter-reread', late[0].loc, 'completed counter re-read after it was advanced (index computed from the new value)')
        rev, rexp = pi.ret()
        rb.expect(cnt == 1 and old_atom is not None, 'cb:counter', rev.loc if rev else f.where(),
                  'completed counter must be advanced by exactly one, once per callback (found %d updates)' % cnt, note='completed_taskpools advanced by 1 once per callback')
        adds = pi.calls(ADD)
        decs = [(e, v) for e, v in pi.calls() if e.fn is None and e.callee is not None and e.callee.k == 'mem' and e.callee.n == 'taskpool_addto_runtime_actions']
        okdec = len(decs) == 1 and decs[0][0].args[1].cv == -1
        rb.expect(okdec, 'cb:decrement', decs[0][0].loc if decs else f.where(), 'callback must decrement the compound runtime actions by exactly 1 once', note='addto_runtime_actions(compound, -1) once')
        if not okdec:
            continue
        rem = aff.norm(decs[0][0].e.subst(decs[0][1]))
        pos = pathq.assumed(pi, '<', aff.Poly.const(0), rem)
        if pos is None:
            pos = pathq.assumed(pi, '>', rem, aff.Poly.const(0))
        if adds:
            e, v = adds[0]
            arg = e.args[1].subst(v)
            okidx = old_atom is not None and arg.k == 'idx' and arg.ch[0].s.endswith('taskpool_array') and \
                (aff.norm(arg.ch[1]) == aff.norm(old_atom) + aff.Poly.const(1) or
                 (arg.ch[1].k == 'bin' and arg.ch[1].op == '+' and arg.ch[1].ch[1].cv == 1 and arg.ch[1].ch[0].k == 'un' and arg.ch[1].ch[0].op == 'post++' and arg.ch[1].ch[0].ch[0].s == old_atom.s))
            # the counter must be advanced BEFORE the next member is handed to the scheduler: once it is
            # enqueued its own completion callback may run concurrently and must already see the new index
            okorder = upd is not None and pi.index(upd) < pi.index(e)
            rb.expect(okorder, 'cb:counter-after-enqueue', upd.loc if upd is not None else e.loc,
                      'completed counter advanced after the next member was enqueued (its callback may run first and re-enable the same member)', note='counter advanced before enqueueing the next member')
            rb.expect(len(adds) == 1 and okidx and pos is True, 'cb:next', e.loc,
                      'callback enqueues %s; must be exactly member (counter before increment)+1 and only when remaining > 0 (assumed: %s)' % (arg.s, pos),
                      note='enqueue taskpool_array[old+1] iff remaining > 0')
        else:
            rb.expect(pos is False, 'cb:skip', rev.loc if rev else f.where(), 'callback does not enqueue the next member although remaining > 0 is not excluded', note='no enqueue when remaining <= 0')
    if npaths == 0:
        raise AnalysisBroken('no feasible path in parsec_composed_taskpool_cb')

    # (d)
    f = u.func('parsec_compose'); ctx.functions_analysed.add(f.name)
    st = [s for s in f.stores() if s.lhs.k == 'idx' and s.lhs.ch[0].s.endswith('taskpool_array')]
    p0, p1 = f.params[0]['n'], f.params[1]['n']
    new0 = [s for s in st if s.lhs.ch[1].cv == 0 and s.rhs.s == p0]
    new1 = [s for s in st if s.lhs.ch[1].cv == 1 and s.rhs.s == p1]
    new2 = [s for s in st if s.lhs.ch[1].cv == 2 and s.rhs.cv == 0]
    rd.expect(len(new0) == 1 and len(new1) == 1 and len(new2) == 1 and new0[0].block == new1[0].block, 'compose:new', (new0 or st or [None])[0].loc if (new0 or st) else f.where(),
              'a new compound must hold [start, next, NULL] in that order', note='new compound: [0]=start [1]=next [2]=NULL')
    nb = [s for s in f.stores() if s.lhs.k == 'mem' and s.lhs.n == 'nb_taskpools' and s.rhs is not None and s.rhs.cv == 2]
    rd.expect(len(nb) == 1 and new0 and nb[0].block == new0[0].block, 'compose:new-count', nb[0].loc if nb else f.where(), 'new compound must record nb_taskpools = 2', note='new compound: nb_taskpools = 2')
    app = [s for s in st if s.rhs.s == p1 and s.lhs.ch[1].k == 'un' and s.lhs.ch[1].op == 'post++' and s.lhs.ch[1].ch[0].s.endswith('nb_taskpools')]
    rd.expect(len(app) == 1, 'compose:append', app[0].loc if app else f.where(), 'appending must store next at index nb_taskpools++', note='append: taskpool_array[nb_taskpools++] = next')
    term = [s for s in st if s.rhs.cv == 0 and s.lhs.ch[1].s.endswith('nb_taskpools')]
    rd.expect(len(term) == 1 and app and f.precedes(app[0], term[0]), 'compose:terminate', term[0].loc if term else f.where(), 'array must be NULL-terminated at nb_taskpools after appending', note='append: taskpool_array[nb_taskpools] = NULL')

    # growth of the member array: the byte size is a whole number of pointers, with room for the terminator written right after
    grow = [s_ for s_ in f.stores() if s_.lhs.k == 'mem' and s_.lhs.n == 'taskpool_array' and s_.rhs is not None and any(x.k == 'call' and x.n == 'realloc' for x in s_.rhs.walk())]
    okg = len(grow) == 1
    if okg:
        rc_ = [x for x in grow[0].rhs.walk() if x.k == 'call' and x.n == 'realloc'][0]
        size = aff.norm(rc_.ch[1])
        nbt = [k for k in size.t if len(k) == 1 and k[0].endswith('nb_taskpools')]
        okg = rc_.ch[0].s == grow[0].lhs.s and len(nbt) == 1 and size.t[nbt[0]] == 8 and set(size.t) <= {nbt[0], ()} and size.t.get((), 0) >= 8 and size.t.get((), 0) % 8 == 0 \
            and bool(term) and f.ordered(grow[0], term[0])
    rd.expect(okg, 'compose:growth-size', grow[0].loc if grow else f.where(),
              'the member array must grow to (nb_taskpools + k) pointers, k >= 1, in bytes (got %s): the terminator is stored at index nb_taskpools right after' % (grow[0].rhs.s if grow else 'no realloc'),
              note='append: realloc to (nb_taskpools + k) * sizeof(pointer), k >= 1, before the terminator is stored')

    # (f) the compound must not be declared ready (and hence terminated: its pending-action count is 0 until the
    #     startup hook runs) by parsec_context_add_taskpool: it installs its own detector when it is created and
    #     declares itself ready in the startup hook, after the members were counted and before the first is enqueued.
    rf = ctx.rule('R15.f', 'compound owns its termination detector; ready only after members are counted', floor=2)
    us = ctx.extract('parsec/scheduling.c')
    fa = us.func('parsec_context_add_taskpool')
    auto = [e for e in fa.calls() if e.fn is None and e.callee is not None and e.callee.k == 'mem' and e.callee.n == 'taskpool_ready']
    hook = [e for e in fa.calls() if e.fn is None and e.callee is not None and e.callee.k == 'mem' and e.callee.n == 'startup_hook']
    if not auto or not hook:
        raise AnalysisBroken('add_taskpool: auto-ready / startup_hook anchors missing')
    auto_before_hook = all(fa.ordered(a, hook[0]) for a in auto) and all(fa.guarded_by(a.point, lambda x, t: x.s.endswith('tdm.module') and not t) for a in auto)
    mons = []
    for g in u.funcs().values():
        if g.file.endswith('compound.c'):
            for e in g.calls():
                if e.fn is None and e.callee is not None and e.callee.k == 'mem' and e.callee.n == 'monitor_taskpool' and e.args and e.args[0].s.endswith('->super') and e.args[0].s.startswith('&'):
                    if g.postdominates(e.point, (g.entry, 0)) or g.name == 'parsec_compose':
                        mons.append((g, e))
    cons = None
    for gl in u.globals().values():
        pass
    creators = {'__parsec_compound_taskpool_constructor', 'parsec_compose'}
    own = [(g, e) for g, e in mons if g.name in creators and e.args[1].s == 'parsec_taskpool_termination_detected']
    if auto_before_hook:
        rf.expect(bool(own), 'compound:early-ready', (own[0][1].loc if own else u.func('__parsec_compound_taskpool_constructor').where()),
                  'parsec_context_add_taskpool declares a taskpool without detector ready BEFORE its startup hook; the compound sets its pending actions only in its startup hook, so it must install its own '
                  'termination detector when it is created (otherwise it is terminated as soon as it is enqueued)', note='compound installs its own detector at creation (monitor_taskpool(&compound->super, termination_detected))')
    else:
        rf.ok(fa.where(), 'add_taskpool no longer declares detector-less taskpools ready before their startup hook')
    f = u.func('parsec_compound_taskpool_startup')
    rdy = [e for e in f.calls() if e.fn is None and e.callee is not None and e.callee.k == 'mem' and e.callee.n == 'taskpool_ready']
    sra = [e for e in f.calls() if e.fn is None and e.callee is not None and e.callee.k == 'mem' and e.callee.n == 'taskpool_set_runtime_actions']
    adds = f.calls(ADD)
    if own or not auto_before_hook:
        ok = len(rdy) == 1 and sra and adds and f.precedes(sra[0], rdy[0]) and f.precedes(rdy[0], adds[0]) and rdy[0].args[0].s.endswith('->super')
        rf.expect(ok, 'compound:ready-order', rdy[0].loc if rdy else f.where(), 'the compound must declare itself ready exactly once, after set_runtime_actions(nb_taskpools) and before enqueuing its first member',
                  note='startup: set_runtime_actions(nb) -> taskpool_ready -> enqueue first member')

    # (e)
    bad = []
    for g in u.funcs().values():
        if not g.file.endswith('compound.c'):
            continue
        for e in g.calls(ADD):
            if g.name not in ('parsec_compound_taskpool_startup', 'parsec_composed_taskpool_cb'):
                bad.append(e)
        for s in g.stores():
            if s.lhs.k == 'mem' and s.lhs.n == 'on_complete' and g.name != 'parsec_compound_taskpool_startup':
                bad.append(s)
    re_.expect(not bad, 'unit:other-enqueue', bad[0].loc if bad else u.func('parsec_compose').where(), 'member enqueued / callback installed outside startup and the completion callback', note='only startup and cb enqueue members')
