"""Cross-cutting thorough-tier rule: no decision on a re-read after an atomic read-modify-write.

An atomic read-modify-write returns the value it replaced (or installed); that value is the only one that is
consistent with the update.  A function that throws the result away and then branches on a plain read of the same
location decides on a value another thread may have changed in between: two threads can both see "I was the
last", or none.  Every property whose behaviour rests on such a decision (last reference, last setter, last
dependency, count crossing zero) is broken by that shape; the rule is run for each claimed property over the
property's own anchor files (properties.jsonl) and reports under that property.  Zero instances are expected
on a correct tree; controls/reread_control.c must be flagged on every run."""
import json, os
from sa import tables
from sa.facts import AnalysisBroken
from sa.driver import VERIF, REPO


def q_reread(unit):
    out = []
    for f in unit.funcs().values():
        conds = [(b, f.cond(b)) for b in f.blocks if f.cond(b) is not None]
        users = []
        for s_ in f.stores():
            if s_.rhs is not None:
                users.append(s_.rhs)
        for r in f.returns():
            if r.e is not None:
                users.append(r.e)
        for _, c in conds:
            users.append(c)
        calls = f.calls()
        for e in calls:
            if not (e.fn and tables.is_rmw(e.fn)) or not e.args:
                continue
            a0 = e.args[0]
            if not (a0.k == 'un' and a0.op == '&'):
                continue
            loc = a0.ch[0].s
            nid = e.e.nid
            used = any(x.k == 'call' and x.nid == nid for u_ in users for x in u_.walk())
            if not used:
                used = any(x.k == 'call' and x.nid == nid for c2 in calls if c2 is not e for a in (c2.args or ()) for x in a.walk())
            if used:
                out.append((f.file, f.name, e.loc, e.e.s[:100], None, None))
                continue
            hit = None
            for b, c in conds:
                if not ((b == e.block) or f.reaches(e.point, (b, 0))):
                    continue        # the branch is decided at the end of its block: same block counts
                # a plain read of the location: the same lvalue, not as the operand of another atomic call
                inside_atomic = set()
                for x in c.walk():
                    if x.k == 'call' and x.n and tables.is_rmw(x.n):
                        for y in x.walk():
                            inside_atomic.add(id(y))
                if any(x.s == loc and x.k in ('mem', 'ref', 'idx', 'un') and id(x) not in inside_atomic for x in c.walk()):
                    # not when the location was (re)assigned by this function in between (then it reads its own value)
                    hit = (c.s[:100], f.loc(f.blocks[b]['cond']) if f.blocks[b].get('cond') is not None else f.where())
                    break
            out.append((f.file, f.name, e.loc, e.e.s[:100], hit[0] if hit else None, hit[1] if hit else None))
    return out


def anchor_files(prop):
    for l in open(os.path.join(VERIF, 'properties.jsonl')):
        p = json.loads(l)
        if p['id'] == prop:
            return [os.path.join(REPO, f) for f in p.get('anchors', {}).get('files', [])]
    raise AnalysisBroken('property %s not in properties.jsonl' % prop)


def thorough(ctx, prop):
    if ctx.tier != 'thorough':
        return
    rule = ctx.rule('R%s.z' % prop[1:], 'no decision on a plain re-read of a location after an atomic read-modify-write of it whose result was discarded (anchor files of the property)', floor=1)
    # positive control
    cwd, flags = ctx.flags_for(os.path.join(REPO, 'parsec/class/parsec_object.c'))
    cu = ctx.extract(os.path.join(VERIF, 'controls', 'reread_control.c'), flags=flags, cwd=cwd)
    got = {(fn, cond is not None) for file, fn, loc, rmw, cond, cloc in q_reread(cu) if fn.startswith('reread_control')}
    if ('reread_control_decides_on_reread', True) not in got or ('reread_control_decides_on_result', False) not in got:
        raise AnalysisBroken('reread positive control not recognised: %s' % sorted(got))
    rule.ok('/verif/controls/reread_control.c', 'control: decision on a re-read flagged, decision on the result accepted')
    files = anchor_files(prop)
    db = ctx.compdb()
    units = [f for f in files if f in db]
    hdrs = [f for f in files if f.endswith('.h')]
    if hdrs and not units:
        units = [os.path.join(REPO, 'parsec/parsec.c')]
    seen = set()
    for file, fn, loc, rmw, cond, cloc in ctx.scan(units, q_reread, main_only=False):
        if file not in files or (fn, loc) in seen:
            continue
        seen.add((fn, loc))
        rule.expect(cond is None, 'reread:%s:%s' % (fn, rmw.split('(')[0]), loc,
                    '%s discards the result of %s and then decides on a plain read of the same location (%s at %s): the value may have been changed by another thread since the update'
                    % (fn, rmw, cond, cloc), note='%s: %s - %s' % (fn, rmw.split('(')[0], 'result used' if cond is None else 'DECIDES ON RE-READ'))
