"""C36 — the red-black tree keeps order and balance (class/parsec_rbtree.c) — clause level."""
from sa import mirror, aff, pathq
from sa.facts import AnalysisBroken, cond_atom

U = 'parsec/class/parsec_rbtree.c'
SWAP = {'left_node': 'right_node', 'right_node': 'left_node',
        'parsec_rbtree_left_rotate': 'parsec_rbtree_right_rotate', 'parsec_rbtree_right_rotate': 'parsec_rbtree_left_rotate'}


def is_child(e, which):
    """e == *left_node(x) / *right_node(x) -> x"""
    if e.k == 'un' and e.op == '*' and e.ch[0].k == 'call' and e.ch[0].n == which + '_node':
        return e.ch[0].ch[0]
    return None


def replace_child_pattern(canon, f, n):
    """if (a == LEFT(p)) LEFT(p) = v; else RIGHT(p) = v;   (or with LEFT/RIGHT exchanged) is orientation-free:
    it replaces the child a of p by v.  Canonicalised to the same tuple in both spellings."""
    if 'else' not in n:
        return None
    c = f.expr(n['cond'])
    if not (c.k == 'bin' and c.op == '=='):
        return None
    for a, side in ((c.ch[0], c.ch[1]), (c.ch[1], c.ch[0])):
        for w, o in (('left', 'right'), ('right', 'left')):
            p = is_child(side, w)
            if p is None:
                continue
            t = _single(f, n['then']); e = _single(f, n['else'])
            if t is None or e is None:
                continue
            te = f.expr(t); ee = f.expr(e)
            if te.k == 'asg' and ee.k == 'asg' and te.op == '=' and ee.op == '=' and is_child(te.ch[0], w) is not None and is_child(ee.ch[0], o) is not None \
                    and is_child(te.ch[0], w).s == p.s and is_child(ee.ch[0], o).s == p.s and te.ch[1].s == ee.ch[1].s:
                return ('replace_child', canon.expr(p), canon.expr(a), canon.expr(te.ch[1]))
    return None


def key_of(e):
    """COMPARISON_VAL(x, off) = *(int*)((uintptr_t)x + off) -> x rendering"""
    if e.k == 'un' and e.op == '*' and e.ch[0].k == 'bin' and e.ch[0].op == '+':
        return e.ch[0].ch[0].s
    return None


def _run(ctx):
    ctx.explanation = ('Static clauses: (a) mirror equivalence (canonical AST modulo local renaming, left<->right swapped, &&-operands as sets): left_rotate == mirror(right_rotate); in insert_fixup and delete_fixup the '
                       '"x is a left child" branch == mirror of the other branch; (b) insert, find and find_or_larger agree on orientation (strictly smaller key goes / is searched LEFT, equal keys are inserted RIGHT and '
                       'returned by the finders) and find_or_larger records the candidate exactly when it steps left; (c) update_node changes the key in place only when pred < new < succ strictly, reports '
                       'EXISTS on equality, and otherwise removes, re-keys and re-inserts in that order after a duplicate check; (d) a new node is RED with nil children and the root is blackened after fix-up.')
    ctx.not_decided = 'the red-black invariants over histories (a symmetric wrong edit applied to both mirror halves is not caught).'
    u = ctx.extract(U)
    ra = ctx.rule('R36.a', 'mirror equivalence of rotations and fix-up branches', floor=3)
    rb = ctx.rule('R36.b', 'insert / find / find_or_larger orientation agreement', floor=5)
    rc = ctx.rule('R36.c', 'update_node: in place only strictly between neighbours', floor=5)
    rd = ctx.rule('R36.d', 'new nodes RED with nil children; root blackened', floor=3)
    re_ = ctx.rule('R36.e', 'remove: x->parent assigned on every path to delete_fixup; colour of the spliced node gates the fix-up', floor=5)
    check_remove(ctx, u, re_)
    rf = ctx.rule('R36.f', 'fix-ups: a colour that is copied is read before it is overwritten (recolouring order within a case)', floor=2)
    check_copy_order(ctx, u, rf)

    fl = u.func('parsec_rbtree_left_rotate'); fr = u.func('parsec_rbtree_right_rotate')
    ctx.functions_analysed.update([fl.name, fr.name])
    a = mirror.canon_stmt(fl, fl.d['body'], None, [p['n'] for p in fl.params], [replace_child_pattern])
    b = mirror.canon_stmt(fr, fr.d['body'], SWAP, [p['n'] for p in fr.params], [replace_child_pattern])
    ra.expect(a == b, 'mirror:rotate', fl.where(), 'left_rotate is not the mirror image of right_rotate: %s' % mirror.first_diff(a, b), note='left_rotate == mirror(right_rotate)')
    for name in ('parsec_rbtree_insert_fixup', 'parsec_rbtree_delete_fixup'):
        f = u.func(name); ctx.functions_analysed.add(name)
        found = False
        for nid in f.stmts_of_kind('if'):
            n = f.nodes[nid]
            c = f.expr(n['cond'])
            if c.k == 'bin' and c.op == '==' and 'else' in n and any(is_child(x, 'left') is not None for x in c.ch):
                seeds = [p['n'] for p in f.params]
                a = mirror.canon_stmt(f, n['then'], None, seeds)
                b = mirror.canon_stmt(f, n['else'], SWAP, seeds)
                found = True
                ra.expect(a == b, 'mirror:%s' % name, f.loc(nid), '%s: the left-child branch is not the mirror image of the right-child branch: %s' % (name, mirror.first_diff(a, b)),
                          note='%s: then-branch == mirror(else-branch)' % name)
                break
        if not found:
            raise AnalysisBroken('%s: left/right case split not found' % name)

    # (b)
    f = u.func('parsec_rbtree_insert'); ctx.functions_analysed.add(f.name)
    ok_loop = ok_link = False
    for nid in f.stmts_of_kind('if'):
        n = f.nodes[nid]
        c = f.expr(n['cond'])
        if not (c.k == 'bin' and c.op == '<' and 'else' in n):
            continue
        kz, kx = key_of(c.ch[0]), key_of(c.ch[1])
        th = f.expr(_single(f, n['then'])); el = f.expr(_single(f, n['else']))
        if th is None or el is None or th.k != 'asg' or el.k != 'asg':
            continue
        # descending: x = LEFT(x) / RIGHT(x)
        if is_child(th.ch[1], 'left') is not None and is_child(el.ch[1], 'right') is not None and th.ch[0].s == kx and is_child(th.ch[1], 'left').s == kx:
            ok_loop = (kz is not None and kz != kx)
            zname = kz
        # linking: LEFT(y) = z / RIGHT(y) = z
        if is_child(th.ch[0], 'left') is not None and is_child(el.ch[0], 'right') is not None:
            ok_link = is_child(th.ch[0], 'left').s == kx and th.ch[1].s == kz and el.ch[1].s == kz
    rb.expect(ok_loop, 'insert:descent', f.where(), 'insert must descend LEFT exactly when key(new) < key(current), RIGHT otherwise', note='insert: new < cur -> LEFT else RIGHT')
    rb.expect(ok_link, 'insert:link', f.where(), 'insert must link the new node LEFT of its parent exactly when key(new) < key(parent)', note='insert: link side uses the same comparison')
    for name in ('parsec_rbtree_find', 'parsec_rbtree_find_or_larger'):
        f = u.func(name); ctx.functions_analysed.add(name)
        data = f.params[1]['n']
        cur = None
        for s_ in f.stores():
            if s_.rhs is not None and s_.rhs.s.endswith('->root') and s_.lhs.k == 'ref':
                cur = s_.lhs.s
        cv = None
        for s_ in f.stores():
            if s_.rhs is not None and key_of(s_.rhs) == cur:
                cv = s_.lhs.s
        if cur is None or cv is None:
            raise AnalysisBroken('%s: walker / key variables not found' % name)
        steps_r = [s_ for s_ in f.stores(cur) if s_.rhs is not None and is_child(s_.rhs, 'right') is not None]
        steps_l = [s_ for s_ in f.stores(cur) if s_.rhs is not None and is_child(s_.rhs, 'left') is not None]
        ok = len(steps_r) == 1 and len(steps_l) == 1
        if ok:
            def lt(a, t):
                r = pathq.rel(a)
                return r is not None and ((r[0] == '<' and t and repr(r[1]) == cv and repr(r[2]) == data))
            def not_lt_not_eq(a, t):
                return True
            gr = f.guards(steps_r[0].point); gl = f.guards(steps_l[0].point)
            ok = any(lt(a, t) for a, t, _ in gr) and any((pathq.rel(a) is not None and pathq.rel(a)[0] == '<' and not t and repr(pathq.rel(a)[1]) == cv) for a, t, _ in gl) \
                and any((pathq.rel(a) is not None and pathq.rel(a)[0] == '==' and not t) for a, t, _ in gl) and any((pathq.rel(a) is not None and pathq.rel(a)[0] == '==' and not t) for a, t, _ in gr)
        rb.expect(ok, '%s:orientation' % name, f.where(), '%s must go RIGHT exactly when key(current) < wanted, LEFT when greater, and stop on equality' % name, note='%s: cur < wanted -> RIGHT; cur > wanted -> LEFT' % name)
        eqret = [r for r in f.returns() if r.e is not None and r.e.s == cur]
        rb.expect(len(eqret) == 1 and f.guarded_by(eqret[0].point, lambda a, t: t and pathq.rel(a) is not None and pathq.rel(a)[0] == '==' and cv in a.s and data in a.s), '%s:equal' % name,
                  eqret[0].loc if eqret else f.where(), '%s must return the node whose key equals the wanted key' % name, note='%s: equal key returned' % name)
        if name.endswith('larger'):
            lg = None
            cand = [s_ for s_ in f.stores() if s_.lhs.k == 'ref' and s_.rhs is not None and s_.rhs.s == cur and f.in_loop(s_.block)]
            ok = len(cand) == 1 and cand[0].block == steps_l[0].block and f.precedes(cand[0], steps_l[0])
            rb.expect(ok, 'find_or_larger:candidate', cand[0].loc if cand else f.where(), 'find_or_larger must remember the current node exactly when it steps LEFT (current key > wanted)', note='candidate recorded on the LEFT step')
            if cand:
                lv = cand[0].lhs.s
                rets = [r for r in f.returns() if r.e is not None and r.e.s == lv]
                nulls = [r for r in f.returns() if r.e is not None and r.e.cv == 0]
                rb.expect(len(rets) == 1 and not f.in_loop(rets[0].block) and nulls and all(f.guarded_by(r.point, lambda a, t: t and a.k == 'bin' and a.op == '==' and lv in a.s and 'nil' in a.s) for r in nulls),
                          'find_or_larger:result', rets[0].loc if rets else f.where(), 'find_or_larger must return the recorded candidate, or NULL when none was recorded', note='returns candidate, NULL iff none')

    # (c)
    f = u.func('parsec_rbtree_update_node'); ctx.functions_analysed.add(f.name)
    node = f.params[1]['n']; new = f.params[2]['n']
    keyst = [s_ for s_ in f.stores() if key_of(s_.lhs) == node and s_.rhs is not None and s_.rhs.s == new]
    flag = None
    for s_ in f.stores():
        if s_.lhs.k == 'ref' and s_.rhs is not None and s_.rhs.cv == 1 and s_.lhs.ty in ('bool', '_Bool'):
            flag = s_.lhs.s
    if len(keyst) != 2 or flag is None:
        raise AnalysisBroken('update_node: key stores (%d) / reinsert flag not found' % len(keyst))
    inplace = [s_ for s_ in keyst if f.guarded_by(s_.point, lambda a, t: a.s == flag and not t)]
    moved = [s_ for s_ in keyst if f.guarded_by(s_.point, lambda a, t: a.s == flag and t)]
    rc.expect(len(inplace) == 1 and len(moved) == 1, 'update:branches', f.where(), 'update_node must re-key in place only when no re-insertion is needed', note='in-place store guarded by !needs_reinsert')
    sets = [s_ for s_ in f.stores(flag) if s_.rhs is not None and s_.rhs.cv == 1 and f.guards(s_.point)]
    conds = []
    for s_ in sets:
        for a, t, b in f.guards(s_.point):
            r = pathq.rel(a)
            if r is not None and r[0] == '<' and t and new in (repr(r[1]), repr(r[2])):
                conds.append('new<nb' if repr(r[1]) == new else 'nb<new')
    rc.expect(sorted(conds) == ['nb<new', 'new<nb'], 'update:neighbours', sets[0].loc if sets else f.where(),
              'needs_reinsert must be raised exactly when pred > new or succ < new (found %s)' % sorted(conds), note='reinsert iff pred > new or succ < new')
    exists = [r for r in f.returns() if r.e is not None and r.e.s == 'PARSEC_ERR_EXISTS']
    eqs = [r for r in exists if f.guarded_by(r.point, lambda a, t: t and pathq.rel(a) is not None and pathq.rel(a)[0] == '==' and new in a.s)]
    rc.expect(len(eqs) == 2, 'update:exists', exists[0].loc if exists else f.where(), 'a new key equal to the predecessor or successor key must be refused (EXISTS)', note='pred == new or succ == new -> EXISTS')
    dup = [r for r in exists if f.guarded_by(r.point, lambda a, t: t and a.k == 'call' and a.n == 'parsec_rbtree_find' and a.ch[1].s == new)]
    rm = f.calls('parsec_rbtree_remove'); ins = f.calls('parsec_rbtree_insert')
    rc.expect(len(dup) == 1 and len(rm) == 1 and len(ins) == 1 and moved and f.precedes(rm[0], moved[0]) and f.precedes(moved[0], ins[0]), 'update:reinsert-order', rm[0].loc if rm else f.where(),
              're-insertion must check for a duplicate, then remove, re-key, insert in that order', note='dup check -> remove -> re-key -> insert')
    # predecessor / successor searches are mirror images
    a_ = b_ = None
    for nid in f.stmts_of_kind('if'):
        n = f.nodes[nid]
        c = f.expr(n['cond'])
        if c.k == 'bin' and c.op == '!=' and 'else' in n and is_child(c.ch[0], 'left') is not None and a_ is None:
            a_ = (nid, n)
        if c.k == 'bin' and c.op == '!=' and 'else' in n and is_child(c.ch[0], 'right') is not None and b_ is None:
            b_ = (nid, n)
    if a_ and b_:
        ca = mirror.canon_stmt(f, a_[0], None, [p['n'] for p in f.params])
        cb = mirror.canon_stmt(f, b_[0], SWAP, [p['n'] for p in f.params])
        rc.expect(ca == cb, 'update:pred-succ-mirror', f.loc(a_[0]), 'the predecessor search is not the mirror image of the successor search: %s' % mirror.first_diff(ca, cb), note='pred search == mirror(succ search)')

    # (d)
    f = u.func('parsec_rbtree_insert'); node = f.params[1]['n']
    red = [s_ for s_ in f.stores() if s_.lhs.k == 'mem' and s_.lhs.n == 'color' and s_.rhs.s == 'PARSEC_RBTREE_RED']
    fix = f.calls('parsec_rbtree_insert_fixup')
    kids = [s_ for s_ in f.stores() if (is_child(s_.lhs, 'left') is not None or is_child(s_.lhs, 'right') is not None) and s_.rhs.s.endswith('->nil') and f.postdominates(s_.point, (f.entry, 0))]
    other = [s_ for s_ in f.stores() if s_.lhs.k == 'mem' and s_.lhs.n == 'color' and s_.rhs.s != 'PARSEC_RBTREE_RED']
    rd.expect(red and not other and len(fix) == 1 and all(f.precedes(r, fix[0]) for r in red) and f.postdominates(fix[0].point, (f.entry, 0)), 'insert:red', red[0].loc if red else f.where(),
              'a new node must be coloured RED before the fix-up, which must always run', note='new node RED, then insert_fixup')
    rd.expect(len(kids) == 2 and all(f.precedes(k, fix[0]) for k in kids) if fix else False, 'insert:nil-children', kids[0].loc if kids else f.where(), 'a new node must get nil children', note='LEFT(z) = RIGHT(z) = nil')
    g = u.func('parsec_rbtree_insert_fixup')
    blk = [s_ for s_ in g.stores() if s_.lhs.s.endswith('->root->color') and s_.rhs.s == 'PARSEC_RBTREE_BLACK']
    rd.expect(len(blk) == 1 and not g.in_loop(blk[0].block) and g.postdominates(blk[0].point, (g.entry, 0)), 'fixup:root-black', blk[0].loc if blk else g.where(), 'the root must be blackened at the end of insert_fixup', note='root blackened')
    g = u.func('parsec_rbtree_delete_fixup')
    blk = [s_ for s_ in g.stores() if s_.lhs.k == 'mem' and s_.lhs.n == 'color' and s_.rhs.s == 'PARSEC_RBTREE_BLACK' and not g.in_loop(s_.block)]
    rd.expect(len(blk) == 1 and g.postdominates(blk[0].point, (g.entry, 0)), 'delete-fixup:black', blk[0].loc if blk else g.where(), 'delete_fixup must blacken x at the end', note='x blackened after delete fix-up')


def _single(f, nid):
    """the single expression statement of a (possibly compound) branch"""
    n = f.nodes[nid]
    if n['k'] == 'compound':
        ch = [c for c in n.get('ch', []) if c >= 0]
        if len(ch) != 1:
            return None
        return ch[0]
    return nid


# ---------------------------------------------------------------------------------------
# R36.e  parsec_rbtree_remove: the node handed to delete_fixup may be the shared nil sentinel,
#        whose parent field is whatever the previous removal left there; delete_fixup starts
#        from x->parent.  On every path to the fix-up call, x->parent is assigned after x got
#        its value: by a direct store, or by transplant(tree, u, <same node as x>) - and
#        transplant assigns v->parent on all of its paths.
# ---------------------------------------------------------------------------------------
def check_copy_order(ctx, u, rf):
    """In the fix-up cases the sibling inherits the parent's colour and the parent is then blackened: the copy
    `A->color = B->color` must read B->color before the case stores a constant into it.  The mirror rule cannot
    see this when both halves are edited alike; the order is visible inside the basic block."""
    for name in ('parsec_rbtree_delete_fixup', 'parsec_rbtree_insert_fixup', 'parsec_rbtree_remove'):
        f = u.func(name); ctx.functions_analysed.add(name)
        for b in f.blocks:
            evs = [e for e in f.block_events(b) if e.kind in ('store', 'call')]
            for i, e in enumerate(evs):
                if e.kind != 'store' or e.rhs is None or e.rhs.k != 'mem' or e.rhs.n != 'color' or e.lhs.k != 'mem' or e.lhs.n != 'color':
                    continue
                src = e.rhs.s
                clobber = None
                for p_ in evs[:i]:
                    if p_.kind == 'store' and p_.lhs.s == src:
                        clobber = p_
                    elif p_.kind == 'store' and clobber is not None and p_.lhs.k == 'ref' and p_.lhs.s in [x.s for x in e.rhs.walk() if x.k == 'ref']:
                        clobber = None      # the base pointer was redefined: another node
                    elif p_.kind == 'call' and clobber is not None:
                        clobber = None      # a rotation in between changes who is whose parent
                rf.expect(clobber is None, 'copy-order:%s:%s' % (name, e.lhs.s), e.loc,
                          '%s: %s is copied from %s after %s was overwritten at %s - the copy always yields that constant' % (name, e.lhs.s, src, src, clobber.loc if clobber else ''),
                          note='%s: %s = %s reads the colour before it is overwritten' % (name, e.lhs.s, src))


def check_remove(ctx, u, re_):
    tr = u.func('parsec_rbtree_transplant')
    f = u.func('parsec_rbtree_remove')
    if tr is None or f is None:
        raise AnalysisBroken('parsec_rbtree_remove / parsec_rbtree_transplant not found')
    ctx.functions_analysed.update([tr.name, f.name])
    v = tr.params[2]['n']; un = tr.params[1]['n']
    sets = [s_ for s_ in tr.stores() if s_.lhs.s == '%s->parent' % v and s_.rhs.s == '%s->parent' % un]
    tr_ok = re_.expect(len(sets) == 1 and tr.postdominates(sets[0].point, (tr.entry, 0)), 'transplant:sets-parent', sets[0].loc if sets else tr.where(),
                       'transplant(tree, u, v) must set v->parent = u->parent on every path (v may be the nil sentinel)', note='transplant always links v to the parent of u')
    fix = f.calls('parsec_rbtree_delete_fixup')
    if not re_.expect(len(fix) == 1, 'remove:fixup-call', f.where(), 'remove must call delete_fixup at exactly one site (found %d)' % len(fix), note='one delete_fixup site'):
        return
    xarg = fix[0].args[1].s
    npaths = 0; bad = []
    for path in f.paths():
        evs = f.path_events(path)
        if not any(e is fix[0] or (e.kind == 'call' and e.nid == fix[0].nid) for e in evs):
            continue
        npaths += 1
        xdef = None; linked = False
        for e in evs:
            if e.kind == 'store' and e.lhs.s == xarg and e.op == '=':
                xdef = e.rhs.s if e.rhs is not None else None; linked = False
            elif e.kind == 'store' and e.lhs.s == '%s->parent' % xarg:
                linked = True
            elif e.kind == 'store' and xdef is not None and e.lhs.s == xdef:
                xdef = None          # the expression x was read from now names another node
            elif e.kind == 'call' and e.fn == 'parsec_rbtree_transplant' and tr_ok and len(e.args) == 3 and e.args[2].s in (xarg, xdef):
                linked = True
            elif e.kind == 'call' and e.nid == fix[0].nid:
                if not linked:
                    bad.append(path)
                break
    from sa.facts import render_path
    re_.expect(npaths >= 3, 'remove:paths', f.where(), 'expected at least 3 paths of remove reaching delete_fixup (found %d)' % npaths, note='%d paths to the fix-up' % npaths)
    re_.expect(not bad, 'remove:fixup-parent-unset', fix[0].loc,
               'delete_fixup(%s) is reached on a path where %s->parent was not assigned after %s got its value: when %s is the nil sentinel the fix-up climbs from a stale parent (%d of %d paths%s)'
               % (xarg, xarg, xarg, xarg, len(bad), npaths, (', e.g. ' + str(render_path(f, bad[0]))) if bad else ''),
               note='on all %d paths x->parent is (re)assigned before the fix-up' % npaths)
    # y_original_color gates the fix-up and is re-read when y changes
    col = [s_ for s_ in f.stores() if s_.lhs.k == 'ref' and s_.rhs is not None and s_.rhs.s.endswith('->color')]
    ys = [s_ for s_ in f.stores() if s_.lhs.s == 'y' and s_.rhs is not None and s_.rhs.k == 'call']
    if ys and col:
        cv = col[0].lhs.s
        re_.expect(any(c.lhs.s == cv and f.precedes(ys[0], c) for c in col), 'remove:color-of-successor', ys[0].loc,
                   'when y becomes the successor of z its colour must be re-read into %s' % cv, note='colour of the spliced node decides the fix-up')
        re_.expect(any(a.s == '%s == PARSEC_RBTREE_BLACK' % cv and t is True for a, t, _ in f.guards(fix[0].point)), 'remove:fixup-guard', fix[0].loc,
                   'delete_fixup must run exactly when the spliced node was BLACK', note='fix-up only when a black node was removed')



def run(ctx):
    _run(ctx)
    from rules import whowrites
    whowrites.thorough(ctx, 'C36')
