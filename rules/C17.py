"""C17 — DTD data flush returns the last written value to the owner (clause level, weak)."""
from sa.facts import AnalysisBroken
from rules import dtdcommon as D

U = 'parsec/interfaces/dtd/parsec_dtd_data_flush.c'


def run(ctx):
    ctx.explanation = ('Static clauses on parsec_dtd_data_flush.c: the flush task takes the place of both last_writer and last_user of the tile inside one tile-lock critical section together with the snapshot of the '
                       'previous writer/user (so it is ordered after the last inserted writer and every later access is ordered after it); it is linked as descendant of the previous user / writer after the unlock; '
                       'the flush pair reads the last writer under the lock and inserts the receive task on the owner rank after the send task on the writer rank; flush_all visits every tile of the collection\'s table.')
    ctx.not_decided = 'the owner-side value itself (data movement) and the requirement that the user waits before reusing the data.'
    u = ctx.extract(U)
    ra = ctx.rule('R17.a', 'flush task becomes last_writer and last_user in the snapshot critical section', floor=3)
    rb = ctx.rule('R17.b', 'flush pair: writer read under lock, send on writer rank before receive on owner rank; flush_all visits all tiles', floor=3)
    f = u.func('parsec_insert_dtd_flush_task'); ctx.functions_analysed.add(f.name)
    this_task = f.params[0]['n']
    n = D.check_snapshot_update_atomic(f, ra, this_task)
    if n < 2:
        raise AnalysisBroken('flush insertion: expected last_writer and last_user updates (found %d)' % n)
    acc = D.tile_user_accesses(f)
    upd = {which for ev, lv, tile, which in acc if ev.kind == 'store' and lv.n == 'task' and ev.rhs.s == this_task and f.postdominates(ev.point, (f.entry, 0))}
    ra.expect(upd == {'last_writer', 'last_user'}, 'flush:both', f.where(), 'the flush task must become both last_writer and last_user on every path (found %s)' % sorted(upd), note='flush task = last_writer and last_user on every path')
    ls, _ = D.check_guarded(f, ra)
    sp = f.calls('parsec_dtd_set_parent'); sd = f.calls('parsec_dtd_set_descendant')
    ok = bool(sp) and bool(sd) and all(c.args[0].s.startswith('last_writer.') for c in sp) and all(not any(l.startswith('lu:') for l in (ls.may_before(c) or ())) for c in sp + sd)
    ra.expect(ok, 'flush:link', (sp or sd or [None])[0].loc if (sp or sd) else f.where(), 'flush task must be linked to the snapshot writer/user after the unlock', note='parent = snapshot last_writer; linked outside the lock')
    f = u.func('parsec_dtd_insert_flush_task_pair'); ctx.functions_analysed.add(f.name)
    ls, n = D.check_guarded(f, rb)
    ins = f.calls('parsec_dtd_insert_flush_task')
    ok = len(ins) == 2 and ins[0].args[2].s.endswith('last_writer.task->rank') and ins[1].args[2].s.endswith('tile->rank') or False
    if len(ins) == 2:
        first, second = (ins[0], ins[1]) if f.reaches(ins[0].point, ins[1].point) else (ins[1], ins[0])
        ok = first.args[2].s == 'last_writer.task->rank' and second.args[2].s.endswith('->rank') and 'last_writer' not in second.args[2].s \
            and f.postdominates(second.point, first.point) and f.guarded_by(second.point, lambda a, t: 'last_writer.task' in a.s and t)
    rb.expect(ok, 'pair:order', ins[0].loc if ins else f.where(), 'flush pair must insert the send task on the last writer\'s rank and then, always, the receive task on the owner rank',
              note='send on writer rank (if different) then receive on owner rank')
    f = u.func('parsec_dtd_data_flush_all'); ctx.functions_analysed.add(f.name)
    fa = f.calls('parsec_hash_table_for_all')
    ok = len(fa) == 1 and fa[0].args[1].s == 'parsec_internal_dtd_data_flush' and fa[0].args[0].s in ('hash_table', 'dc->tile_h_table') and f.postdominates(fa[0].point, (f.entry, 0))
    rb.expect(ok, 'flush_all:for_all', fa[0].loc if fa else f.where(), 'flush_all must apply the flush to every tile of the collection\'s tile table', note='for_all(tile table, internal flush)')
    g = u.func('parsec_internal_dtd_data_flush'); ctx.functions_analysed.add(g.name)
    pair = g.calls('parsec_dtd_insert_flush_task_pair'); rm = g.calls('parsec_dtd_tile_remove')
    rb.expect(len(pair) == 1 and len(rm) == 1 and g.precedes(pair[0], rm[0]), 'flush:remove-order', (pair or rm or [None])[0].loc if (pair or rm) else g.where(),
              'the tile must be flushed before it is removed from the tile table', note='insert flush pair, then remove the tile from the table')
    # (c) the copy-back of a flushed value to the owner's tile is a deferred command of the communication
    #     thread, protected by one pending action of the taskpool (taken when the command is queued);
    #     that pending action is the only thing that keeps parsec_taskpool_wait from returning, so it
    #     must be released after the copy, never before.
    rc = ctx.rule('R17.c', 'deferred local copy: the pending action of the taskpool is released only after the copy was made', floor=3)
    um = ctx.extract('parsec/remote_dep_mpi.c')
    h = um.func('remote_dep_nothread_memcpy')
    if h is None:
        raise AnalysisBroken('remote_dep_nothread_memcpy not found')
    ctx.functions_analysed.add(h.name)
    cp = [e for e in h.events() if e.kind == 'call' and e.fn is None and e.callee is not None and e.callee.s.endswith('.reshape')]
    dec = h.calls('remote_dep_dec_flying_messages')
    rc.expect(len(cp) == 1 and len(dec) == 1 and h.precedes(cp[0], dec[0]) and h.postdominates(dec[0].point, (h.entry, 0)), 'memcpy:release-after-copy', dec[0].loc if dec else h.where(),
              'remote_dep_nothread_memcpy must copy (parsec_ce.reshape) before it releases the pending action of the taskpool (remote_dep_dec_flying_messages): released first, parsec_taskpool_wait can return while the flushed value is still being written',
              note='copy, then release of the pending action, on every path')
    def names_cmd_taskpool(e):
        if e.s.endswith('memcpy.taskpool'):
            return True
        if e.k == 'ref':      # a local copy of it
            st = h.stores(e.s)
            return len(st) == 1 and st[0].rhs is not None and st[0].rhs.s.endswith('memcpy.taskpool')
        return False
    rc.expect(bool(dec) and names_cmd_taskpool(dec[0].args[0]), 'memcpy:release-own-taskpool', dec[0].loc if dec else h.where(),
              'the pending action released must be the one of the taskpool recorded in the command', note='releases the taskpool of the command')
    # the command is queued together with the pending action (inc before the command becomes visible to the communication thread)
    hit = 0
    for name, g2 in um.funcs().items():
        if not g2.file.endswith('remote_dep_mpi.c'):
            continue
        st = [s_ for s_ in g2.stores() if s_.lhs.s.endswith('cmd.memcpy.taskpool')]
        if not st:
            continue
        inc = g2.calls('remote_dep_inc_flying_messages'); snd = [e for e in g2.events() if e.kind == 'call' and e.fn in ('parsec_dequeue_push_back', 'parsec_dequeue_push_front', 'parsec_list_push_back')]
        hit += 1
        ctx.functions_analysed.add(name)
        rc.expect(len(inc) == 1 and bool(snd) and all(g2.precedes(inc[0], s_) for s_ in snd) and inc[0].args[0].s == st[0].rhs.s, 'memcpy:take-before-queue:%s' % name, inc[0].loc if inc else g2.where(),
                  '%s must take the pending action of the taskpool before the copy command becomes visible to the communication thread' % name,
                  note='%s: pending action taken before the command is queued' % name)
    if hit == 0:
        raise AnalysisBroken('no function queues a memcpy command (cmd.memcpy.taskpool never stored)')
    check_completed_parent_release(ctx)


def check_completed_parent_release(ctx):
    """When a task is linked behind a predecessor that has already completed, nobody else will release that dependency: the
    inserting thread must call release_deps on the predecessor itself whenever the predecessor OR the new task is local
    (local predecessor, remote task: the data has to be sent; remote predecessor, local task: the receive has to be posted).
    The flush insertion and the generic insertion carry the same code; both must guard it with the disjunction."""
    rd = ctx.rule('R17.d', 'completed predecessor: release_deps is called when the predecessor or the inserted task is local (flush insertion and generic insertion agree)', floor=2)
    sites = (('parsec/interfaces/dtd/parsec_dtd_data_flush.c', 'parsec_insert_dtd_flush_task'), ('parsec/interfaces/dtd/insert_function.c', 'parsec_insert_dtd_task'))
    for un, fname in sites:
        f = ctx.extract(un).func(fname); ctx.functions_analysed.add(fname)
        rel = [e for e in f.calls() if e.fn is None and e.callee is not None and e.callee.k == 'mem' and e.callee.n == 'release_deps' and len(e.args) >= 2 and 'parent' in e.args[1].s]
        if len(rel) != 1:
            raise AnalysisBroken('%s: expected one release_deps call on the predecessor (PARENT_OF), found %d' % (fname, len(rel)))
        call = rel[0]
        # innermost if statement enclosing the call whose condition tests task locality
        best = None
        for nid in f.stmts_of_kind('if'):
            n_ = f.nodes[nid]
            if 'then' not in n_ or call.nid not in set(f.ast_walk(n_['then'])):
                continue
            c = f.expr(n_['cond'])
            tests = [x for x in c.walk() if x.k == 'call' and x.n == 'parsec_dtd_task_is_local']
            if tests and (best is None or len(set(f.ast_walk(n_['then']))) < best[2]):
                best = (nid, c, len(set(f.ast_walk(n_['then']))))
        ok = best is not None
        detail = 'no locality test around the call'
        if ok:
            c = best[1]
            def disj(e):
                return disj(e.ch[0]) + disj(e.ch[1]) if e.k == 'bin' and e.op == '||' else [e]
            parts = disj(c)
            args = sorted(x.ch[0].s for p_ in parts for x in [p_] if x.k == 'call' and x.n == 'parsec_dtd_task_is_local')
            parent = [a for a in args if 'parent' in a]
            ok = len(parts) == 2 and len(args) == 2 and len(parent) == 1
            detail = c.s
        rd.expect(ok, 'completed-parent:%s' % fname, call.loc,
                  '%s must release the completed predecessor when the predecessor OR the inserted task is local; found the guard: %s' % (fname, detail),
                  note='%s: release_deps(predecessor) under is_local(predecessor) || is_local(task)' % fname)
