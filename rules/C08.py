"""C08 — schedulers never lose or duplicate a ready task.
Units: the 11 sched_*_module.c, sched_local_queues_utils.h (through them), hbbuffer.c, scheduling.c."""
from sa import aff, tables, pathq, lin
from sa.facts import cond_atom, AnalysisBroken, init_fields

SCHEDS = ['ap', 'gd', 'ip', 'lfq', 'lhq', 'll', 'llp', 'ltq', 'pbq', 'rnd', 'spq']
REQUIRED_SLOTS = ['install', 'flow_init', 'schedule', 'select', 'remove']
POPS = {'parsec_list_pop_front', 'parsec_list_pop_back', 'parsec_list_try_pop_front', 'parsec_list_try_pop_back',
        'parsec_list_nolock_pop_front', 'parsec_list_nolock_pop_back',
        'parsec_dequeue_pop_front', 'parsec_dequeue_pop_back', 'parsec_dequeue_try_pop_front', 'parsec_dequeue_try_pop_back',
        'parsec_lifo_pop', 'parsec_lifo_try_pop', 'parsec_hbbuffer_pop_best',
        'heap_remove', 'heap_split_and_steal'}      # the last two return a task taken out of a popped heap (ltq)


def unit_of(s):
    return 'parsec/mca/sched/%s/sched_%s_module.c' % (s, s)


def pop_wrappers(unit):
    """functions of the unit that return the result of a pop on every non-NULL path."""
    pops = set(POPS)
    for _ in range(2):
        for f in unit.funcs().values():
            if f.name in pops or f.ret is None or '*' not in f.ret:
                continue
            ok = True; n = 0
            try:
                for pi in pathq.all_paths(f, max_paths=200):
                    rev, rexp = pi.ret()
                    if rexp is None:
                        ok = False; break
                    n += 1
                    if rexp.cv == 0:
                        continue
                    if not (rexp.k == 'call' and rexp.n in pops):
                        ok = False; break
            except AnalysisBroken:
                ok = False
            if ok and n:
                pops.add(f.name)
    return pops


def check_schedule(ctx, rb, s, u, f):
    if s == 'ltq':
        return check_ltq_schedule(ctx, rb, u, f)
    sinks = lin.wrapper_sinks(u)
    ok, probs, n = lin.consumes_param(f, 1, sinks)
    if n == 0:
        raise AnalysisBroken('%s: no feasible path' % f.name)
    if ok:
        used = sorted({e.fn for e in f.calls() if e.fn in sinks})
        rb.ok(f.where(), '%s: ring handed to exactly one of %s on each of %d paths' % (f.name, used, n))
    for kind, loc, text in probs:
        rb.bad('%s:%s' % (f.name, kind), loc, '%s: %s' % (f.name, text))


def check_ltq_schedule(ctx, rb, u, f):
    ring = f.params[1]['n']
    ins = f.calls('heap_insert')
    push = f.calls('parsec_hbbuffer_push_all')
    if not ins or not push:
        raise AnalysisBroken('ltq schedule: heap_insert / push_all anchors missing')
    # every element visited by the walk is inserted: the insert is in the loop and dominates every loop exit
    loops = f.in_loop(ins[0].block)
    brk = [b for b in f.blocks if f.in_loop(b) and any(not f.in_loop(t) for t, _ in f.succs(b))]
    ok = bool(loops) and all(f.dominates(ins[0].point, (b, len(f.blocks[b]['elems']))) for b in brk) and ins[0].args[1].s != ring
    # cur starts at the ring head and advances by list_next
    cur = ins[0].args[1].s
    inits = [s_ for s_ in f.stores(cur) if s_.rhs is not None]
    adv_ok = any(s_.rhs.s == ring for s_ in inits) and any(s_.rhs.k == 'ref' for s_ in inits if s_.rhs.s != ring)
    nxt = [s_ for s_ in f.stores() if s_.lhs.k == 'ref' and s_.rhs is not None and s_.rhs.s.endswith('list_next') and cur in s_.rhs.s]
    rb.expect(ok and adv_ok and nxt and f.precedes(nxt[0], ins[0]), 'sched_ltq_schedule:walk', ins[0].loc,
              'ltq schedule: every ring element must be heap_insert-ed (insert in the walk loop, before any exit, successor read before insertion)',
              note='ltq: each visited element inserted; next read before insert')
    heap_var = ins[0].args[0].s
    first = push[0].args[1].s
    fst = [s_ for s_ in f.stores(first)]
    ok2 = len(push) == 1 and not f.in_loop(push[0].block) and f.postdominates(push[0].point, (f.entry, 0)) and len(fst) == 1 and fst[0].rhs.s == heap_var
    rb.expect(ok2, 'sched_ltq_schedule:push', push[0].loc, 'ltq schedule: the heap ring (first heap created) must be pushed exactly once on every path',
              note='ltq: single push_all(first heap) on every path')
    # linking of a new heap into the ring of heaps
    creates = [s_ for s_ in f.stores() if s_.rhs is not None and s_.rhs.k == 'call' and s_.rhs.n == 'heap_create' and f.in_loop(s_.block)]
    if not creates:
        raise AnalysisBroken('ltq schedule: new heap creation not found')
    nh = creates[0].lhs.s
    blk = creates[0].block
    sts = {(s_.lhs.s, s_.rhs.s) for s_ in f.block_events(blk) if s_.kind == 'store' and s_.rhs is not None}
    want = {('%s->list_item.list_next->list_prev' % heap_var, nh), ('%s->list_item.list_prev' % nh, heap_var),
            ('%s->list_item.list_next' % nh, '%s->list_item.list_next' % heap_var), ('%s->list_item.list_next' % heap_var, nh), (heap_var, nh)}
    rb.expect(want <= sts, 'sched_ltq_schedule:link', creates[0].loc, 'ltq schedule: a new heap is not fully linked into the heap ring (missing %s)' % sorted(want - sts),
              note='ltq: new heap linked after current (4 pointer stores) and becomes current')


def check_select(ctx, rc, s, u, f):
    pops = pop_wrappers(u)
    dist = f.params[1]['n']
    n = 0
    for pi in pathq.all_paths(f, max_paths=6000):
        rev, rexp = pi.ret()
        if rexp is None:
            rc.bad('%s:no-value' % f.name, f.where(), '%s: path without return value' % f.name); continue
        n += 1
        # no popped task may be dropped: every pop result on the path is either the returned value or was observed NULL
        popcalls = [(e, v) for e, v in pi.calls() if e.fn in pops and (e.fn not in ('heap_remove', 'heap_split_and_steal', 'parsec_hbbuffer_pop_best', 'parsec_dequeue_pop_front') or s != 'ltq')]
        lost = []
        for e, v in popcalls:
            r = e.e.subst(v)
            if r.s == rexp.s and e is popcalls[-1][0]:
                continue
            isnull = any((a.s == r.s and t is False) for a, t, _ in pi.assumes())
            if not isnull:
                lost.append(e)
        if lost:
            rc.bad('%s:dropped-pop' % f.name, lost[0].loc, '%s: a task popped here may be non-NULL and is neither returned nor re-queued' % f.name); continue
        if rexp.cv == 0:
            continue
        # known NULL by an assumption on this path?
        known_null = False
        for atom, truth, aev in pi.assumes():
            if atom.s == rexp.s and truth is False:
                known_null = True
        root = rexp
        ok_src = root.k == 'call' and root.n in pops
        if not ok_src:
            rc.bad('%s:source' % f.name, rev.loc, '%s returns %s which is not the result of a container pop' % (f.name, rexp.s)); continue
        if known_null:
            continue
        d = [e for e, v in pi.events('store') if e.lhs.s == '*' + dist]
        rc.expect(bool(d), '%s:distance' % f.name, rev.loc, '%s returns a task without setting *%s on this path' % (f.name, dist),
                  note='%s: returned task comes from %s, *%s written' % (f.name, root.n, dist))
    if n == 0:
        raise AnalysisBroken('%s: no path' % f.name)
    if s == 'ltq':
        check_ltq_select_heaps(ctx, rc, u, f)


def check_ltq_select_heaps(ctx, rc, u, f):
    """a heap popped from a buffer and still non-NULL after stealing must be pushed back before
    the variable is reused or the function returns."""
    n = 0
    for pi in pathq.all_paths(f, max_paths=20000):
        live = {}     # var -> event that made it live
        for ev, env in pi.steps:
            if ev.kind == 'call' and ev.fn in ('heap_remove', 'heap_split_and_steal'):
                a0 = ev.args[0].s.lstrip('&')
                if a0 in live and live[a0] is not None:
                    rc.bad('sched_ltq_select:heap-lost', live[a0].loc, 'ltq select: heap %s overwritten while possibly non-empty' % a0)
                live[a0] = ev
                n += 1
            elif ev.kind == 'assume':
                atom, pol = cond_atom(ev.e)
                truth = ev.op if pol else (not ev.op)
                if atom.k == 'ref' and atom.s in live and truth is False:
                    live[atom.s] = None
            elif ev.kind == 'call' and ev.fn == 'parsec_hbbuffer_push_all':
                a = ev.args[1].s
                if a in live:
                    live[a] = None
            elif ev.kind == 'store' and ev.lhs.k == 'ref' and ev.lhs.s in live and live[ev.lhs.s] is not None and ev.rhs is not None and ev.rhs.k == 'call':
                rc.bad('sched_ltq_select:heap-lost', live[ev.lhs.s].loc, 'ltq select: heap %s re-assigned while possibly non-empty (not pushed back)' % ev.lhs.s)
                live[ev.lhs.s] = None
            elif ev.kind == 'ret':
                for v, e in live.items():
                    if e is not None:
                        rc.bad('sched_ltq_select:heap-lost', e.loc, 'ltq select: returns while heap %s may still hold tasks and was not pushed back' % v)
    if n:
        rc.ok(f.where(), 'sched_ltq_select: every heap left non-NULL after heap_remove/steal is pushed back before reuse/return')


def check_hbbuffer(ctx, rd, u):
    f = u.func('parsec_hbbuffer_push_all'); ctx.functions_analysed.add(f.name)
    elt = f.params[1]['n']
    parent = [e for e in f.calls() if e.fn is None and e.callee is not None and e.callee.k == 'mem' and e.callee.n == 'parent_push_fct']
    if len(parent) != 1:
        raise AnalysisBroken('hbbuffer_push_all: expected one parent_push_fct call, found %d' % len(parent))
    pc = parent[0]
    rd.expect(pc.args[1].s == elt, 'push_all:parent-arg', pc.loc, 'overflow handed to the parent is %s, expected the remaining ring %s' % (pc.args[1].s, elt), note='parent_push_fct(store, %s, distance-1)' % elt)
    # every path to the exit that does not go through the parent push has observed elt == NULL
    null_edges = []
    for bid in f.blocks:
        c = f.cond(bid)
        if c is None:
            continue
        atom, pol = cond_atom(c)
        if atom.s == elt and f.term_kind(bid) == 'if':
            null_edges.append((bid, (not pol)))      # edge on which elt is NULL
    # cut: parent-push block + elt==NULL return edges  => exit unreachable
    cut_blocks = {pc.block}
    reach = _reach_exit_avoiding(f, cut_blocks, null_edges)
    rd.expect(not reach, 'push_all:drop', f.where(), 'hbbuffer_push_all can return without pushing the remaining elements to the parent although %s != NULL' % elt,
              note='exit only via parent push or %s == NULL' % elt)
    # the un-placed element is re-joined with the rest before going upstream
    rp = f.calls('parsec_list_item_ring_push')
    nxt = None
    for s_ in f.stores():
        if s_.rhs is not None and s_.rhs.k == 'call' and s_.rhs.n == 'parsec_list_item_ring_chop' and s_.rhs.ch[0].s == elt:
            nxt = s_.lhs.s
    if nxt is None:
        raise AnalysisBroken('hbbuffer_push_all: chop anchor missing')
    ok = len(rp) == 1 and {rp[0].args[0].s, rp[0].args[1].s} == {nxt, elt} and f.guarded_by(rp[0].point, lambda a, t: a.s == nxt and t) and f.reaches(rp[0].point, pc.point)
    rd.expect(ok, 'push_all:rejoin', rp[0].loc if rp else f.where(), 'the element that found no room must be re-joined with the rest of the ring (%s) before the parent push' % nxt,
              note='ring_push(%s, %s) when %s != NULL, before parent push' % (nxt, elt, nxt))
    # advancing to the next element happens only after a successful placement
    adv = [s_ for s_ in f.stores(elt) if s_.rhs is not None and s_.rhs.s == nxt]
    def placed(a, t):
        # (i == b->size) false
        r = pathq.rel(a)
        return r is not None and r[0] == '==' and not t and 'size' in a.s
    rd.expect(len(adv) == 1 and f.guarded_by(adv[0].point, placed), 'push_all:advance', adv[0].loc if adv else f.where(),
              '%s = %s must happen only when a slot was found (i != size)' % (elt, nxt), note='advance only after successful CAS placement')
    casg = f.calls('parsec_atomic_cas_ptr')
    rd.expect(len(casg) == 1 and casg[0].args[1].cv == 0 and casg[0].args[2].s == elt, 'push_all:cas', casg[0].loc if casg else f.where(),
              'slot must be claimed by CAS(&items[i], NULL, %s)' % elt, note='slot claimed by CAS(NULL -> elt)')

    f = u.func('parsec_hbbuffer_push_all_by_priority'); ctx.functions_analysed.add(f.name)
    parent = [e for e in f.calls() if e.fn is None and e.callee is not None and e.callee.k == 'mem' and e.callee.n == 'parent_push_fct']
    if len(parent) != 1:
        raise AnalysisBroken('push_all_by_priority: expected one parent_push_fct call')
    pc = parent[0]
    ej = pc.args[1].s
    null_edges = []
    for bid in f.blocks:
        c = f.cond(bid)
        if c is None:
            continue
        atom, pol = cond_atom(c)
        if atom.s == ej and f.term_kind(bid) == 'if' and f.reaches((bid, 0), pc.point) and not f.in_loop(bid):
            null_edges.append((bid, (not pol)))
    reach = _reach_exit_avoiding(f, {pc.block}, null_edges)
    rd.expect(not reach and bool(null_edges), 'push_prio:drop', pc.loc, 'push_all_by_priority can return without handing a non-empty ejected ring to the parent',
              note='exit only via parent push or %s == NULL' % ej)
    lst = f.params[1]['n']
    # early upstream: ejected = list
    early = [s_ for s_ in f.stores(ej) if s_.rhs is not None and s_.rhs.s == lst and not f.in_loop(s_.block)]
    rd.expect(len(early) == 1, 'push_prio:early', early[0].loc if early else f.where(), 'distance != 0 shortcut must forward the whole list (%s = %s)' % (ej, lst), note='shortcut forwards the whole list')
    # full buffer branch: topush joins ejected, rest of the list merged
    top = None
    for s_ in f.stores():
        if s_.rhs is not None and s_.rhs.k == 'call' and s_.rhs.n == 'parsec_list_item_ring_chop' and s_.lhs.s == lst:
            top = s_.rhs.ch[0].s
    if top is None:
        raise AnalysisBroken('push_all_by_priority: chop anchor missing')
    def noroom(a, t):
        return a.k == 'bin' and a.op == '>' and 'best_index' in a.s and not t
    full = [s_ for s_ in f.stores(ej) if s_.rhs is not None and s_.rhs.s == top and f.guarded_by(s_.point, noroom)]
    merges = f.calls('parsec_list_item_ring_merge')
    m1 = [m for m in merges if {m.args[0].s, m.args[1].s} == {top, ej} and f.guarded_by(m.point, noroom) and f.guarded_by(m.point, lambda a, t: a.s == ej and t)]
    m2 = [m for m in merges if {m.args[0].s, m.args[1].s} == {ej, lst} and f.guarded_by(m.point, noroom) and f.guarded_by(m.point, lambda a, t: a.s == lst and t)]
    okfull = len(full) == 1 and len(m1) == 1 and len(m2) == 1 and f.ordered(m1[0], full[0]) and f.ordered(full[0], m2[0])
    rd.expect(okfull, 'push_prio:full', full[0].loc if full else f.where(),
              'full-buffer branch must merge previous ejected into %s, set %s = %s, then merge the rest of %s' % (top, ej, top, lst), note='full buffer: topush + old ejected + rest of list all go to ejected')
    # success branch with eviction
    def won(a, t):
        return t and ((a.k == 'call' and a.n == 'parsec_atomic_cas_ptr') or (a.k == 'bin' and a.op == '==' and any(c.k == 'call' and c.n == 'parsec_atomic_cas_ptr' for c in a.ch) and 1 in (a.ch[0].cv, a.ch[1].cv)))
    ev_st = [s_ for s_ in f.stores(ej) if s_.rhs is not None and 'best_context' in s_.rhs.s and f.guarded_by(s_.point, won)]
    m3 = [m for m in merges if 'best_context' in m.args[0].s and m.args[1].s == ej and f.guarded_by(m.point, won)]
    rd.expect(len(ev_st) == 1 and len(m3) == 1 and f.guarded_by(ev_st[0].point, lambda a, t: 'best_context' in a.s and a.k == 'ref' and t) and f.ordered(m3[0], ev_st[0]),
              'push_prio:evict', ev_st[0].loc if ev_st else f.where(), 'an evicted element must be kept in the ejected ring (merge old ejected, %s = evicted)' % ej, note='evicted element kept in ejected')
    # next element taken only after success
    nx = [s_ for s_ in f.stores(top) if s_.rhs is not None and s_.rhs.s == lst and f.in_loop(s_.block)]
    rd.expect(len(nx) == 1 and f.guarded_by(nx[0].point, won), 'push_prio:advance', nx[0].loc if nx else f.where(), 'next element may be taken only after a successful CAS', note='advance only after successful CAS')


def _reach_exit_avoiding(f, cut_blocks, cut_edges):
    from collections import deque
    cut_edges = set(cut_edges)
    seen = {f.entry}; dq = deque([f.entry])
    while dq:
        b = dq.popleft()
        if b == f.exit:
            return True
        if b in cut_blocks:
            continue
        for s_, l in f.succs(b):
            if (b, l) in cut_edges:
                continue
            if s_ not in seen:
                seen.add(s_); dq.append(s_)
    return False


def check_schedule_vp(ctx, re_, u):
    f = u.func('__parsec_schedule'); ctx.functions_analysed.add(f.name)
    ring = f.params[1]['n']
    calls = [e for e in f.calls() if e.fn is None and e.callee is not None and e.callee.k == 'mem' and e.callee.n == 'schedule']
    ok = len(calls) == 1 and calls[0].args[1].s == ring and f.postdominates(calls[0].point, (f.entry, 0)) and not f.in_loop(calls[0].block)
    re_.expect(ok, '__parsec_schedule:forward', calls[0].loc if calls else f.where(), '__parsec_schedule must hand the ring to module.schedule exactly once on every path', note='module.schedule(es, ring, distance) once')
    rets = f.returns()
    re_.expect(all(r.e is not None and r.e.k == 'ref' for r in rets) and any(s_.rhs is not None and s_.rhs.nid == calls[0].e.nid for s_ in f.stores(rets[0].e.s)) if calls and rets else False,
               '__parsec_schedule:ret', rets[0].loc if rets else f.where(), '__parsec_schedule must return the scheduler\'s status', note='returns module.schedule status')
    f = u.func('__parsec_schedule_vp'); ctx.functions_analysed.add(f.name)
    rings = f.params[1]['n']
    n = 0
    for pi in pathq.all_paths(f, max_paths=20000):
        # ring taken in this iteration
        took = [(e, v) for e, v in pi.events('store') if e.rhs is not None and e.rhs.k == 'idx' and e.rhs.ch[0].s == rings and e.lhs.k == 'ref']
        if not took:
            continue
        e0, v0 = took[0]
        slot = e0.rhs.subst(v0)
        isnull = any(a.s == slot.s and t is False for a, t, _ in pi.assumes())
        if isnull:
            continue
        n += 1
        sched = [(e, v) for e, v in pi.calls('__parsec_schedule')]
        keep = [(e, v) for e, v in pi.events('store') if e.lhs.k == 'mem' and e.lhs.n == 'next_task']
        clear = [(e, v) for e, v in pi.events('store') if e.lhs.k == 'idx' and e.lhs.ch[0].s == rings and e.rhs is not None and e.rhs.cv == 0]
        rev, rexp = pi.ret()
        key = '__parsec_schedule_vp'
        if keep:
            ke, kv = keep[0]
            ok = len(keep) == 1 and ke.rhs.subst(kv).s == slot.s and any(a.k == 'mem' and a.n == 'next_task' and t is False for a, t, _ in pi.assumes())
            re_.expect(ok, key + ':keep', ke.loc, 'next_task must receive the head of the ring only when it is empty', note='next_task = head when next_task == NULL')
            rest = 'parsec_list_item_ring_chop(&%s->super)' % slot.s
        else:
            rest = slot.s
        if sched:
            se, sv = sched[0]
            arg = se.args[1].subst(sv)
            ok = len(sched) == 1 and arg.s == rest
            re_.expect(ok, key + ':one-schedule', se.loc, 'ring slot scheduled %d times / with %s (expected once with %s)' % (len(sched), arg.s, rest), note='ring (or its remainder) scheduled exactly once')
            # slot cleared only after a zero return
            failed = any(pathq.asserted_zero(a, t) is None and ('__parsec_schedule' in a.s) and (a.k != 'bin' or True) and _nonzero(a, t) for a, t, _ in pi.assumes())
            if failed:
                re_.expect(not clear, key + ':clear-on-error', (clear or [(se, None)])[0][0].loc, 'slot cleared although scheduling reported an error', note='error return leaves the slot in place')
            else:
                re_.expect(len(clear) == 1 and pi.index(clear[0][0]) > pi.index(se), key + ':clear', se.loc, 'scheduled slot must be cleared (task_rings[vp] = NULL) after a successful schedule', note='slot cleared after successful schedule')
        else:
            # only legal when the single task was kept as next_task
            ok = bool(keep) and any(a.s == rest and t is False for a, t, _ in pi.assumes()) and len(clear) == 1
            re_.expect(ok, key + ':not-scheduled', e0.loc, 'a non-empty ring slot is neither scheduled nor fully retained as next_task', note='single task retained as next_task, slot cleared')
    if n == 0:
        raise AnalysisBroken('__parsec_schedule_vp: no iteration path analysed')


def _nonzero(a, t):
    z = None
    r = pathq.rel(a)
    if r is not None:
        op, l, rr = r
        if op in ('!=',) and t and (l == aff.Poly.const(0) or rr == aff.Poly.const(0)):
            return True
        if op == '==' and not t and (l == aff.Poly.const(0) or rr == aff.Poly.const(0)):
            return True
        return False
    return t


def implies_own_queue(e, thid):
    """does the truth of e imply that the queue belongs to a stream with th_id != 0 ?"""
    from sa.facts import cond_atom
    if e.k == 'bin' and e.op == '&&':
        return implies_own_queue(e.ch[0], thid) or implies_own_queue(e.ch[1], thid)
    if e.k == 'bin' and e.op == '||':
        return implies_own_queue(e.ch[0], thid) and implies_own_queue(e.ch[1], thid)
    if e.k == 'cond':
        return False
    a, pol = cond_atom(e)
    if a.s == thid:
        return pol                      # th_id  /  th_id != 0
    if a.k == 'bin' and a.op in ('>', '>=', '<', '<=') and pol:
        l, r = a.ch
        if l.s == thid and ((a.op == '>' and r.cv is not None and r.cv >= 0) or (a.op == '>=' and r.cv is not None and r.cv >= 1)):
            return True
        if r.s == thid and ((a.op == '<' and l.cv is not None and l.cv >= 0) or (a.op == '<=' and l.cv is not None and l.cv >= 1)):
            return True
    return False


def check_single_writer(ctx, rf, ul, us):
    """R08.f — the llp sorted merge has a fast path that publishes the merged list with a plain store; it is only
    correct for queues into which no other thread pushes.  Facts from scheduling.c: foreign threads (and the
    communication thread) deliver rings to execution stream 0 of a virtual process only.  Hence the fast path
    may be requested only under a condition that implies es->th_id != 0."""
    f = ul.func('sched_llp_schedule')
    es = f.params[0]['n']
    calls = f.calls('lifo_chain_sorted')
    if not calls:
        raise AnalysisBroken('sched_llp_schedule: lifo_chain_sorted call not found')
    g = ul.func('lifo_chain_sorted')
    widx = [i for i, p in enumerate(g.params) if p['n'] == 'single_writer']
    if not widx:
        raise AnalysisBroken('lifo_chain_sorted: single_writer parameter not found')
    n = 0
    for pi in pathq.all_paths(f):
        for e, v in pi.calls('lifo_chain_sorted'):
            n += 1
            arg = e.args[widx[0]].subst(v)
            rf.expect(implies_own_queue(arg, '%s->th_id' % es), 'llp:single-writer-arg', e.loc,
                      'lifo_chain_sorted is asked for the single-writer fast path under "%s", which does not imply es->th_id != 0: other threads deliver rings to stream 0 and a concurrent push would be overwritten' % arg.s,
                      note='single_writer = %s implies th_id != 0' % arg.s)
    if n == 0:
        raise AnalysisBroken('sched_llp_schedule: no call on any path')
    # the fact the rule relies on: who is targeted by foreign pushes
    for fn in us.funcs().values():
        if not fn.file.endswith('scheduling.c'):
            continue
        own = {p['n'] for p in fn.params}
        for e in fn.calls('__parsec_schedule'):
            tgt = e.args[0]
            defs = [s_ for s_ in fn.stores(tgt.s) if s_.rhs is not None] if tgt.k == 'ref' else []
            srcs = [tgt] if not defs else [d.rhs for d in defs]
            for sx in srcs:
                if sx.k == 'ref' and (sx.s in own or sx.dk == 'parm'):
                    rf.ok(e.loc, '%s: schedules on the stream it was given (%s)' % (fn.name, sx.s)); continue
                if sx.k == 'idx' and sx.ch[0].s.endswith('execution_streams'):
                    if sx.ch[1].cv == 0:
                        rf.ok(e.loc, '%s: foreign target is stream 0 (%s)' % (fn.name, sx.s)); continue
                    if fn.name == '__parsec_reschedule':
                        rf.ok(e.loc, '__parsec_reschedule targets execution_streams[start_eu] — named exception: only called by accelerator code that is not part of this build')
                        continue
                if sx.k == 'cond':
                    continue
                rf.bad('foreign-target:%s' % fn.name, e.loc, '%s schedules on %s: the llp single-writer rule assumes foreign pushes only target stream 0' % (fn.name, sx.s))


def run(ctx):
    ctx.explanation = ('Static clauses for all 11 scheduler modules: (a) module tables complete; (b) linear-resource typestate — in every sched_*_schedule the ring parameter is handed to exactly one container '
                       'sink on every path (wrapper summaries computed from the unit; ltq: each walked element heap-inserted, heap ring linked and pushed once); (c) every sched_*_select returns only values obtained '
                       'from a container pop, never drops an earlier non-NULL pop, writes *distance whenever it may return a task, and (ltq) pushes back every heap left non-empty; (d) hbbuffer push_all / '
                       'push_all_by_priority cannot exit with a non-empty remainder except through parent_push_fct, re-join / merge rules, advance only after a successful CAS; (e) __parsec_schedule forwards once, (f) the llp scheduler requests the plain-store single-writer publication only under a condition implying th_id != 0, given that foreign pushes target stream 0 only; '
                       '__parsec_schedule_vp schedules each non-NULL ring slot exactly once (or retains its single task as next_task) and clears the slot only after success.')
    ctx.not_decided = 'concurrent interleavings inside lifo/list/hbbuffer (C30-C32, C35); eventual selection (liveness).'
    ra = ctx.rule('R08.a', 'module tables: install/flow_init/schedule/select/remove non-NULL', floor=11)
    rb = ctx.rule('R08.b', 'schedule: ring handed to exactly one sink on every path', floor=11)
    rc = ctx.rule('R08.c', 'select: value from a pop, no dropped pop, *distance written', floor=11)
    rd = ctx.rule('R08.d', 'hbbuffer push_all[_by_priority]: overflow always reaches the parent', floor=9)
    re_ = ctx.rule('R08.e', '__parsec_schedule / __parsec_schedule_vp: each ring slot scheduled once', floor=4)
    for s in SCHEDS:
        u = ctx.extract(unit_of(s))
        g = u.glob('parsec_sched_%s_module' % s)
        top = g.fields()
        mod = init_fields(top.get('module'))
        if mod is None:
            raise AnalysisBroken('parsec_sched_%s_module: no module initialiser' % s)
        missing = [k for k in REQUIRED_SLOTS if k not in mod or mod[k].cv == 0 or mod[k].k != 'ref']
        ra.expect(not missing, 'table:%s' % s, '%s:%d' % (g.file, g.line), 'scheduler %s: slots %s are NULL' % (s, missing), note='%s: %s' % (s, {k: mod[k].s for k in REQUIRED_SLOTS if k in mod}))
        if missing:
            continue
        fs = u.func(mod['schedule'].s); fsel = u.func(mod['select'].s)
        ctx.functions_analysed.update([fs.name, fsel.name])
        check_schedule(ctx, rb, s, u, fs)
        check_select(ctx, rc, s, u, fsel)
    rf = ctx.rule('R08.f', 'llp: single-writer fast path only for queues nobody else pushes to', floor=4)
    check_single_writer(ctx, rf, ctx.extract(unit_of('llp')), ctx.extract('parsec/scheduling.c'))
    u = ctx.extract('parsec/hbbuffer.c')
    check_hbbuffer(ctx, rd, u)
    # (g) spq: schedule and select share the per-distance task lists; all their accesses must hold a common lock
    from rules import C09
    rg = ctx.rule('R08.g', 'spq: every access to a per-distance task list holds a common lock; locks released on all exits', floor=4)
    us = ctx.extract('parsec/mca/sched/spq/sched_spq_module.c')
    C09.spq_lock_consistency(ctx, rg, us.func('sched_spq_schedule'), us.func('sched_spq_select'))
    u = ctx.extract('parsec/scheduling.c')
    check_schedule_vp(ctx, re_, u)
