"""C14 — the communication engine delivers every message exactly once (parsec_mpi_funnelled.c) — clause level, weak.

R14.a  serve_cb, active-message branch: the persistent receive that completed is restarted (MPI_Start on
       the request the callback names) on every path, also when no callback function is registered;
       its slot leaves the tested window (flag cleared, request slot emptied).
R14.b  progress: every index reported by MPI_Testsome gets exactly one serve_cb, with the callback,
       status and position of that index; Testsome is given the arrays and the count the engine keeps.
R14.c  parallel arrays: whenever a request is moved or installed in array_of_requests[X], the callback
       moves with it to array_of_callbacks[X] and records X as its position, in the same block.
R14.d  every operation slot of parsec_comm_engine_t is installed by mpi_funnelled_init.
R14.e  next_tag: the returned tag is the start of a range reserved by CAS from the value that was read
       (multi-threaded mode), re-read on failure; ranges wrap to 0 before exceeding the maximum.
R14.f  put / get: one fresh tag per transfer is sent in the handshake, used by the local Isend / Irecv to
       the same peer and kept in the callback; the request is either installed in the active array
       (count advanced) or queued in the matching FIFO - exactly one of the two on every path.
R14.g  dynamic queue: a queued request is taken from the receive FIFO only below the receive limit,
       else from the send FIFO; it is installed exactly once and its queue cell is freed afterwards.
R14.h  delayed send: the fields of the queued callback that the consumer reads when it finally posts the
       MPI_Isend are set by every producer of such an item (cells are recycled, not cleared).
"""
from sa.facts import AnalysisBroken, cond_atom
from rules import gencommon as gc

U = 'parsec/parsec_mpi_funnelled.c'


def run(ctx):
    ctx.explanation = ('Clause level (weak): necessary bookkeeping conditions for exactly-once delivery in the funnelled MPI engine - persistent receives are always '
                       're-armed, every completion is served once, request and callback arrays stay parallel, every engine operation is installed, tags are '
                       'reserved atomically, one-sided transfers use one tag consistently and are never dropped between the array and the queues.')
    ctx.not_decided = 'byte integrity; the rotation arithmetic of the tested window; MPI semantics; behaviour for all request-window settings.'
    u = ctx.extract(U)
    ra = ctx.rule('R14.a', 'serve_cb (AM): persistent receive restarted on every path; slot leaves the tested window', floor=3)
    rb = ctx.rule('R14.b', 'progress: one serve_cb per completed index, with its own callback / status / position', floor=3)
    rc = ctx.rule('R14.c', 'request and callback arrays move together and record the new position', floor=3)
    rd = ctx.rule('R14.d', 'every operation of parsec_comm_engine_t installed by mpi_funnelled_init', floor=10)
    re_ = ctx.rule('R14.e', 'next_tag reserves its range by CAS from the value read; wraps before the maximum', floor=3)
    rf = ctx.rule('R14.f', 'put/get: one tag for handshake, transfer and callback; request installed xor queued', floor=8)
    rg = ctx.rule('R14.g', 'dynamic queue: receive FIFO below the limit, else send FIFO; installed once, cell freed after', floor=3)

    # ---------------------------------------------------------------- R14.a
    f = u.func('mpi_no_thread_serve_cb')
    if f is None:
        raise AnalysisBroken('mpi_no_thread_serve_cb not found')
    ctx.functions_analysed.add(f.name)
    cb = f.params[1]['n']
    def am(e):
        for a, t, _ in f.guards(e.point):
            if a.k == 'bin' and a.op == '==' and '%s->type' % cb in a.s and 'MPI_FUNNELLED_TYPE_AM' in (gc.macro_names(f, a) | {x.n for x in a.walk() if x.k == 'ref'}):
                return t
        return None
    st = [e for e in f.events() if e.kind == 'call' and e.fn == 'MPI_Start']
    oka = len(st) == 1 and am(st[0]) is True and st[0].args[0].s == '&%s->tag_reg->reqs[%s->storage2]' % (cb, cb)
    if oka:
        # only the AM test (and nothing about the callback function) guards it
        oka = all(('->type' in a.s) or a.k == 'int' for a, t, _ in f.guards(st[0].point))
    ra.expect(oka, 'serve:restart', st[0].loc if st else f.where(),
              'the completed persistent receive (reqs[storage2] of the tag) must be restarted on every path of the AM branch, registered callback or not: otherwise that receive is never posted again and later messages on the tag are lost',
              note='AM: MPI_Start(&tag_reg->reqs[storage2]) unconditionally')
    fl = [s_ for s_ in f.stores() if s_.lhs.s == '%s->tag_reg->reqs_in_testsome[%s->storage2]' % (cb, cb) and s_.rhs is not None and s_.rhs.cv == 0]
    sl = [s_ for s_ in f.stores() if s_.lhs.s == 'array_of_requests[%s->storage1]' % cb and 'MPI_REQUEST_NULL' in (gc.macro_names(f, s_.rhs) | {s_.rhs.s})]
    ra.expect(len(fl) == 1 and am(fl[0]) is True and bool(st) and f.precedes(st[0], fl[0]), 'serve:leaves-window', fl[0].loc if fl else f.where(),
              'the restarted receive must be marked as outside the tested window', note='AM: reqs_in_testsome[storage2] = false')
    ra.expect(len(sl) == 1 and am(sl[0]) is True, 'serve:slot-emptied', sl[0].loc if sl else f.where(),
              'the slot of the served request must be emptied so that the refill replaces it', note='AM: array_of_requests[storage1] = MPI_REQUEST_NULL')

    # the callback reads the buffer of the completed receive: restarting that receive hands the buffer back to MPI, which may
    # copy the next (unexpected-queue) message of the tag into it at once - the restart must follow the callback
    amcb = [e for e in f.events() if e.kind == 'call' and e.fn is None and e.callee is not None and e.callee.k == 'mem' and e.callee.n == 'fct' and am(e) is True]
    ra.expect(len(amcb) == 1 and bool(st) and f.ordered(amcb[0], st[0]), 'serve:restart-after-callback', st[0].loc if st else f.where(),
              'the persistent receive must be restarted only after the tag callback has consumed its buffer: restarted first, MPI may overwrite the message the callback is about to read (lost / duplicated / corrupted delivery)',
              note='AM: callback(buf) runs before MPI_Start of the same receive')

    # ---------------------------------------------------------------- R14.b
    f = u.func('mpi_no_thread_progress')
    if f is None:
        raise AnalysisBroken('mpi_no_thread_progress not found')
    ctx.functions_analysed.add(f.name)
    ts = [e for e in f.events() if e.kind == 'call' and e.fn == 'MPI_Testsome']
    okt = len(ts) == 1 and [a.s for a in ts[0].args] == ['mpi_funnelled_last_active_req', 'array_of_requests', '&outcount', 'array_of_indices', 'array_of_statuses']
    rb.expect(okt, 'progress:testsome', ts[0].loc if ts else f.where(), 'MPI_Testsome must scan the active prefix of array_of_requests into array_of_indices / array_of_statuses', note='Testsome over the active prefix')
    sc = [e for e in f.events() if e.kind == 'call' and e.fn == 'mpi_no_thread_serve_cb']
    par = gc.parent_map(f)
    oks = len(sc) == 1
    if oks:
        loops = [a for a in gc.ancestors(par, sc[0].nid) if f.nodes[a]['k'] == 'for']
        oks = bool(loops)
        if oks:
            n = f.nodes[loops[0]]
            init, cond, inc = f.expr(n['init']), f.expr(n['cond']), f.expr(n['inc'])
            oks = init.s == 'idx = 0' and cond.s == 'idx < outcount' and inc.k == 'un' and inc.ch[0].s == 'idx' and inc.op in ('post++', 'pre++')
            # unconditional in the loop body
            ifs = [a for a in gc.ancestors(par, sc[0].nid) if f.nodes[a]['k'] in ('if', 'switch') and a in set(f.ast_walk(n['body']))]
            oks = oks and not ifs
    rb.expect(oks, 'progress:serve-each', sc[0].loc if sc else f.where(), 'every index 0 .. outcount-1 must be served exactly once (one unconditional serve_cb per iteration)',
              note='one serve_cb per completed index')
    okv = False
    if oks:
        pos = [s_ for s_ in f.stores('pos') if s_.rhs is not None and s_.rhs.s == 'array_of_indices[idx]']
        cbv = [s_ for s_ in f.stores('cb') if s_.rhs is not None and s_.rhs.s == '&array_of_callbacks[pos]']
        stv = [s_ for s_ in f.stores('status') if s_.rhs is not None and s_.rhs.s == '&array_of_statuses[idx]']
        okv = len(pos) >= 1 and len(cbv) == 1 and len(stv) == 1 and sc[0].args[1].s == 'cb' and 'status->MPI_TAG' == sc[0].args[2].s and sc[0].args[3].s == 'status->MPI_SOURCE' \
            and all(f.precedes(x, sc[0]) for x in (cbv[0], stv[0]))
    rb.expect(okv, 'progress:own-slot', sc[0].loc if sc else f.where(), 'a completion must be served with the callback at its own position and its own status', note='callback = array_of_callbacks[indices[idx]], status = statuses[idx]')

    # ---------------------------------------------------------------- R14.c
    nmoves = 0
    for fname, g in u.funcs().items():
        if not g.file.endswith('parsec_mpi_funnelled.c'):
            continue
        for s_ in g.stores():
            l = s_.lhs
            if not (l.k == 'idx' and l.ch[0].s == 'array_of_requests' and s_.rhs is not None):
                continue
            x = l.ch[1].s
            r = s_.rhs
            if r.k == 'idx' and r.ch[0].s == 'array_of_requests':
                y = r.ch[1].s
                blk = [e for e in g.stores() if e.block == s_.block]
                ok = any(e.lhs.s == 'array_of_callbacks[%s]' % x and e.rhs is not None and e.rhs.s == 'array_of_callbacks[%s]' % y for e in blk) and \
                    any(e.lhs.s == 'array_of_callbacks[%s].storage1' % x and e.rhs is not None and e.rhs.s == x for e in blk)
                nmoves += 1
                ctx.functions_analysed.add(fname)
                rc.expect(ok, 'move:%s:%s<-%s' % (fname, x, y), s_.loc,
                          '%s moves the request of slot %s to slot %s without moving its callback and recording the new position: the completion would be served with another request\'s callback' % (fname, y, x),
                          note='%s: request, callback and position move together (%s <- %s)' % (fname, x, y))
            elif r.s == 'item->request':
                blk = [e for e in g.stores() if g.dominates(e.point, s_.point) or e.block == s_.block]
                ok = any(e.lhs.s == 'array_of_callbacks[%s]' % x and e.rhs is not None and e.rhs.s == 'item->cb' for e in blk) and \
                    any(e.lhs.s == 'array_of_callbacks[%s].storage1' % x and e.rhs is not None and e.rhs.s == x for e in blk)
                nmoves += 1
                ctx.functions_analysed.add(fname)
                rc.expect(ok, 'install:%s:%s' % (fname, x), s_.loc, '%s installs a queued request in slot %s without its callback / position' % (fname, x),
                          note='%s: queued request installed with its callback and position' % fname)

    # ---------------------------------------------------------------- R14.d
    f = u.func('mpi_funnelled_init')
    if f is None:
        raise AnalysisBroken('mpi_funnelled_init not found')
    ctx.functions_analysed.add(f.name)
    rec = None
    for rn, r in (u.records() or {}).items() if isinstance(u.records(), dict) else []:
        if rn in ('parsec_comm_engine_s', 'parsec_comm_engine_t', 'struct parsec_comm_engine_s'):
            rec = r
    fields = []
    if rec:
        for fl_ in rec.get('fields', []):
            ty = fl_.get('ty', '')
            if '(*)' in ty or ty.endswith('_fn_t') or ty.endswith('_fn_t *') or 'parsec_ce_' in ty and '_fn' in ty:
                fields.append(fl_['n'])
    assigned = {s_.lhs.n for s_ in f.stores() if s_.lhs.k == 'mem' and s_.lhs.ch[0].s in ('parsec_ce', '(&parsec_ce)', 'ce', '&parsec_ce') or (s_.lhs.k == 'mem' and s_.lhs.s.startswith('parsec_ce.'))}
    if not fields:
        # no record table: fall back on the fields the initialiser assigns function names to
        fields = sorted(n for n in assigned)
        ctx.note('R14.d: record layout of parsec_comm_engine_t not available, using the assigned fields as the reference set')
    for fld in fields:
        rd.expect(fld in assigned, 'vtable:%s' % fld, f.where(), 'operation %s of the communication engine is never installed by mpi_funnelled_init (a call through it is a call through NULL)' % fld,
                  note='parsec_ce.%s installed' % fld)

    # ---------------------------------------------------------------- R14.e
    f = u.func('next_tag')
    if f is None:
        raise AnalysisBroken('next_tag not found')
    ctx.functions_analysed.add(f.name)
    k = f.params[0]['n']
    cas = [e for e in f.events() if e.kind == 'call' and e.fn and e.fn.startswith('parsec_atomic_cas_int')]
    rd0 = [s_ for s_ in f.stores() if s_.rhs is not None and s_.rhs.s in ('__VAL_NEXT_TAG',) or (s_.rhs is not None and s_.rhs.k == 'asg' and s_.rhs.ch[1].s == '__VAL_NEXT_TAG')]
    okc = len(cas) == 1 and cas[0].args[0].s == '&__VAL_NEXT_TAG'
    oldv = cas[0].args[1].s if okc else None
    newv = cas[0].args[2].s if okc else None
    if okc:
        olds = [s_ for s_ in f.events() if s_.kind == 'store' and s_.lhs.s == oldv]
        okc = len(olds) == 1 and olds[0].rhs.s == '__VAL_NEXT_TAG' and not [s_ for s_ in f.events() if s_.kind == 'store' and s_.lhs.s == oldv and s_ is not olds[0]]
        news = [s_ for s_ in f.events() if s_.kind == 'store' and s_.lhs.s == newv]
        rets = f.returns()
        okc = okc and len(news) == 1 and news[0].rhs.k == 'bin' and news[0].rhs.op == '+' and {news[0].rhs.ch[0].s, news[0].rhs.ch[1].s} == {rets[0].e.s, k} and len(rets) == 1
    re_.expect(okc, 'tag:cas', cas[0].loc if cas else f.where(), 'the tag range must be reserved by CAS(&next, value read, returned tag + k)', note='CAS(next, value read, tag + k)')
    okr = False
    if cas:
        for bid in f.blocks:
            c = f.cond(bid)
            if c is None or not any(x.nid == cas[0].e.nid for x in c.walk()):
                continue
            a, pol = cond_atom(c)
            # failure edge leads back to the block that re-reads the counter
            for succ, lab in f.succs(bid):
                if isinstance(lab, bool) and (lab if pol else (not lab)) is False:
                    okr = any(s_.kind == 'store' and s_.rhs is not None and '__VAL_NEXT_TAG' in s_.rhs.s and f.reaches((succ, 0), s_.point) and f.reaches(s_.point, cas[0].point) for s_ in f.events())
    re_.expect(okr, 'tag:retry-rereads', cas[0].loc if cas else f.where(), 'a failed CAS must re-read the counter before trying again', note='failed CAS re-reads the counter')
    wrap = [s_ for s_ in f.events() if s_.kind == 'store' and s_.rhs is not None and s_.rhs.cv == 0 and f.guards(s_.point)]
    okw = any(any(a.k == 'bin' and a.op == '>' and 'MAX_MPI_TAG' in a.s and k in a.s and t is True for a, t, _ in f.guards(s_.point)) for s_ in wrap)
    re_.expect(okw, 'tag:wrap', f.where(), 'a range that would pass MAX_MPI_TAG must restart at 0 (tag > MAX - k)', note='wraps to 0 when tag > MAX - k')

    # ---------------------------------------------------------------- R14.f
    for name, mpi, fifo in (('mpi_no_thread_put', 'MPI_Isend', 'mpi_funnelled_dynamic_sendreq_fifo'), ('mpi_no_thread_get', 'MPI_Irecv', 'mpi_funnelled_dynamic_recvreq_fifo')):
        f = u.func(name)
        if f is None:
            raise AnalysisBroken('%s not found' % name)
        ctx.functions_analysed.add(name)
        tg = [s_ for s_ in f.events() if s_.kind == 'store' and s_.rhs is not None and s_.rhs.k == 'call' and s_.rhs.n == 'next_tag']
        okt = len(tg) == 1 and tg[0].rhs.ch[0].cv == 1
        tag = tg[0].lhs.s if tg else 'tag'
        rf.expect(okt, '%s:fresh-tag' % name, tg[0].loc if tg else f.where(), '%s must take one fresh tag per transfer' % name, note='%s: tag = next_tag(1)' % name)
        hs = [s_ for s_ in f.stores() if s_.lhs.s.endswith('.tag') and 'handshake' in s_.lhs.s]
        cbt = [s_ for s_ in f.stores() if s_.lhs.s == 'cb->onesided.tag']
        xs = [e for e in f.events() if e.kind == 'call' and e.fn == mpi]
        remote = [p['n'] for p in f.params if p['n'] == 'remote']
        okx = len(hs) == 1 and hs[0].rhs.s == tag and len(cbt) == 1 and cbt[0].rhs.s == tag and f.postdominates(cbt[0].point, (f.entry, 0))
        rf.expect(okx, '%s:tag-in-handshake-and-callback' % name, hs[0].loc if hs else f.where(), 'the tag sent in the handshake and the tag kept in the callback must be the fresh tag', note='%s: handshake.tag = cb.tag = tag' % name)
        okm = bool(xs) and all(e.args[4].s == tag and e.args[3].s == 'remote' for e in xs) and bool(remote)
        rf.expect(okm, '%s:transfer-tag' % name, xs[0].loc if xs else f.where(), 'the local %s must use the fresh tag and the peer of the handshake' % mpi, note='%s: %s(.., remote, tag, ..)' % (name, mpi))
        am_ = [e for e in f.events() if e.kind == 'call' and e.fn is None and e.callee is not None and e.callee.s.endswith('->send_am')]
        rf.expect(len(am_) == 1 and am_[0].args[2].s == 'remote' and f.postdominates(am_[0].point, (f.entry, 0)), '%s:handshake-sent' % name, am_[0].loc if am_ else f.where(),
                  'the handshake must be sent to the peer on every path', note='%s: handshake sent to remote' % name)
        inc = [s_ for s_ in f.stores('mpi_funnelled_last_active_req') if s_.op == '++']
        psh = [e for e in f.events() if e.kind == 'call' and e.fn == 'parsec_list_nolock_push_back' and fifo in e.args[0].s]
        okq = len(inc) == 1 and len(psh) == 1
        if okq:
            def pst(e):
                for a, t, _ in f.guards(e.point):
                    if a.s == 'post_in_static_array':
                        return t
                return None
            okq = pst(inc[0]) is True and pst(psh[0]) is False
        rf.expect(okq, '%s:installed-xor-queued' % name, (inc or psh or [tg[0]])[0].loc if (inc or psh or tg) else f.where(),
                  'the request must be installed in the active array (count advanced) or queued in %s - exactly one of the two' % fifo, note='%s: installed xor queued' % name)

    # ---------------------------------------------------------------- R14.g
    f = u.func('mpi_no_thread_push_posted_req')
    if f is None:
        raise AnalysisBroken('mpi_no_thread_push_posted_req not found')
    ctx.functions_analysed.add(f.name)
    pops = [e for e in f.events() if e.kind == 'call' and e.fn == 'parsec_list_nolock_pop_front']
    rcv = [e for e in pops if 'recvreq' in e.args[0].s]; snd = [e for e in pops if 'sendreq' in e.args[0].s]
    okg = len(rcv) == 1 and len(snd) == 1
    if okg:
        okg = any(a.k == 'bin' and a.op in ('>', '<') and 'parsec_param_comm_mpi_dynamic_recv_requests' in a.s and 'mpi_funnelled_num_recv_req_in_arr' in a.s and
                  ((a.op == '>' and a.ch[0].s.startswith('parsec_param')) or (a.op == '<' and a.ch[1].s.startswith('parsec_param'))) and t is True for a, t, _ in f.guards(rcv[0].point))
        okg = okg and any(a.s == 'item' and t is False for a, t, _ in f.guards(snd[0].point))
    rg.expect(okg, 'queue:order', f.where(), 'a queued receive may be installed only below the receive limit; the send queue is used when no receive was taken', note='recv FIFO below the limit, else send FIFO')
    ap = [e for e in f.events() if e.kind == 'call' and e.fn == 'mpi_funnelled_append_dynamic_request']
    fr = [e for e in f.events() if e.kind == 'call' and e.fn == 'parsec_thread_mempool_free']
    rg.expect(len(ap) == 1 and len(fr) == 1 and f.precedes(ap[0], fr[0]) and ap[0].args[0].s == fr[0].args[1].s == 'item', 'queue:install-then-free', ap[0].loc if ap else f.where(),
              'a dequeued request must be installed exactly once, and its queue cell freed only afterwards', note='install once, then free the cell')
    cnt = [s_ for s_ in f.stores('mpi_funnelled_num_recv_req_in_arr') if s_.op == '++']
    rg.expect(len(cnt) == 1 and bool(rcv) and f.guarded_by(cnt[0].point, lambda a, t: a.s == 'item' and t is True), 'queue:recv-counted', cnt[0].loc if cnt else f.where(),
              'an installed queued receive must be counted against the receive limit', note='installed receive counted')
    # ---------------------------------------------------------------- R14.h
    # A delayed send is described by the fields of item->cb that its producer filled in; the consumer
    # (mpi_funnelled_append_dynamic_request, post_isend branch) may read only fields that EVERY producer of
    # a post_isend item sets - the cells come from a memory pool and are not cleared.
    rh = ctx.rule('R14.h', 'delayed send: every field the consumer reads from the queued callback is set by every producer of such an item', floor=4)
    cons = u.func('mpi_funnelled_append_dynamic_request')
    ctx.functions_analysed.add(cons.name)
    reads = set()
    for e in cons.events():
        if e.kind == 'load' and e.e.k == 'mem' and e.e.s.startswith('item->cb.onesided.'):
            if any(a.s == 'item->post_isend' and t is True for a, t, _ in cons.guards(e.point)):
                reads.add(e.e.s[len('item->cb.'):])
    if not reads:
        raise AnalysisBroken('append_dynamic_request: no field of item->cb.onesided read in the post_isend branch')
    producers = []
    for name, g in u.funcs().items():
        if not g.file.endswith('parsec_mpi_funnelled.c'):
            continue
        mark = [s_ for s_ in g.stores() if s_.lhs.s.endswith('->post_isend') and s_.rhs is not None and s_.rhs.cv == 1]
        if mark:
            producers.append((name, g, mark[0]))
    if len(producers) < 2:
        raise AnalysisBroken('expected at least two producers of delayed sends (put, get handshake), found %d' % len(producers))
    for name, g, mark in producers:
        ctx.functions_analysed.add(name)
        # the callback of the queued item is reached through the alias cb = &item->cb set in the same branch
        alias = [s_ for s_ in g.stores() if s_.rhs is not None and s_.rhs.s == '&item->cb' and s_.block == mark.block]
        base = alias[0].lhs.s if alias else 'item->cb'
        psh = [e for e in g.events() if e.kind == 'call' and e.fn == 'parsec_list_nolock_push_back' and 'sendreq' in e.args[0].s]
        written = set()
        for s_ in g.stores():
            l = s_.lhs.s
            for pre in ('%s->' % base, 'item->cb.'):
                if l.startswith(pre) and psh and all(g.reaches(s_.point, p.point, acyclic=True) for p in psh):
                    # must be written on every path to the push: the store dominates the push or post-dominates the marking
                    if any(g.dominates(s_.point, p.point) for p in psh):
                        written.add(l[len(pre):])
        missing = sorted(reads - written)
        rh.expect(not missing and bool(psh), 'delayed-send:%s' % name, mark.loc,
                  '%s queues a delayed send without setting %s, which mpi_funnelled_append_dynamic_request reads when it finally posts the MPI_Isend (the cell is recycled, the value is whatever an earlier transfer left)' % (name, missing),
                  note='%s sets every field the delayed post reads (%s)' % (name, ', '.join(sorted(reads))))
    rh.ok(cons.where(), 'delayed post reads: %s' % ', '.join(sorted(reads)))
    isend = [e for e in cons.events() if e.kind == 'call' and e.fn == 'MPI_Isend']
    rh.expect(len(isend) == 1 and isend[0].args[-1].s == '&array_of_requests[slot]' and isend[0].args[4].s == 'item->cb.onesided.tag' and isend[0].args[3].s == 'item->cb.onesided.remote', 'delayed-send:post', isend[0].loc if isend else cons.where(),
              'the delayed MPI_Isend must go to the recorded peer with the recorded tag and its request must land in the slot of its callback', note='delayed Isend(peer, tag) -> array_of_requests[slot]')
