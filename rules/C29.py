"""C29 — futures complete once and deliver one value (parsec_future.c, parsec_datacopy_future.c)."""
from sa import aff, tables, pathq
from sa.facts import cond_atom, AnalysisBroken, lockset_analysis, field_accesses
from sa.tables import BASE_LOCKS

U1 = 'parsec/class/parsec_future.c'
U2 = 'parsec/class/parsec_datacopy_future.c'
COMPLETED, TRIGGERED = 'PARSEC_DATA_FUTURE_STATUS_COMPLETED', 'PARSEC_DATA_FUTURE_STATUS_TRIGGERED'


def status_or(f, flag_value):
    return [s for s in f.stores() if s.lhs.k == 'mem' and s.lhs.n == 'status' and s.op == '|=' and s.rhs is not None and s.rhs.cv == flag_value]


def cb_calls(f, field='cb_fulfill'):
    return [e for e in f.calls() if e.fn is None and e.callee is not None and e.callee.k == 'mem' and e.callee.n == field]


def _run(ctx):
    ctx.explanation = ('Static ordering/guard clauses: base future — status update and callback only on the success edge of CAS(tracked_data, NULL, data), ordered CAS -> wmb -> status -> callback; '
                       'get() reads tracked_data only after is_ready and rmb. Countable — completion on the branch where the post-value of fetch_dec(count) is 0, one decrement per set. '
                       'Data-copy — cb_fulfill only inside the future_lock region, guarded by !(status & TRIGGERED) tested under the lock, status |= TRIGGERED before the callback; '
                       'nested_futures accessed only under the lock, lock paired on all exits, nested future appended before unlock; set() publishes tracked_data before COMPLETED.')
    ctx.not_decided = 'memory-model reasoning beyond the presence and order of the barriers; behaviour of user callbacks.'
    u1 = ctx.extract(U1); u2 = ctx.extract(U2)
    ra = ctx.rule('R29.a', 'base future: CAS-guarded single completion, barrier order, guarded read', floor=6)
    rb = ctx.rule('R29.b', 'countable future: completion on post-value zero of one fetch_dec', floor=3)
    rc = ctx.rule('R29.c', 'datacopy future: trigger-once under lock, nested list under lock, pairing', floor=8)
    CV = {}
    # constants of the status flags
    for f in u1.funcs().values():
        for s in f.stores():
            if s.rhs is not None and s.rhs.cv is not None and s.lhs.k == 'mem' and s.lhs.n == 'status' and s.op == '|=':
                CV.setdefault('COMPLETED', s.rhs.cv)
    if 'COMPLETED' not in CV:
        raise AnalysisBroken('no status |= COMPLETED store found in parsec_future.c')
    C = CV['COMPLETED']

    # ---- base set
    f = u1.func('parsec_base_future_set'); ctx.functions_analysed.add(f.name)
    fut = f.params[0]['n']; data = f.params[1]['n']

    def cas_success(atom, truth):
        return truth and atom.k == 'call' and atom.n == 'parsec_atomic_cas_ptr' and atom.ch[0].s.lstrip('&') == '%s->tracked_data' % fut \
            and atom.ch[1].cv == 0 and atom.ch[2].s == data
    st = status_or(f, C); cbs = cb_calls(f); wmb = f.calls('parsec_atomic_wmb')
    if not st or not cbs:
        raise AnalysisBroken('base_future_set: status store / callback not found')
    for s in st:
        ra.expect(f.guarded_by(s.point, cas_success), 'base_set:status-unguarded', s.loc, 'status |= COMPLETED outside the success branch of CAS(tracked_data, NULL, data)',
                  note='status |= COMPLETED on CAS success edge')
        ra.expect(any(f.precedes(w, s) and f.guarded_by(w.point, cas_success) for w in wmb), 'base_set:no-wmb', s.loc,
                  'no write barrier between the CAS publishing the data and status |= COMPLETED', note='CAS -> wmb -> status')
    for c in cbs:
        ra.expect(f.guarded_by(c.point, cas_success), 'base_set:callback-unguarded', c.loc, 'completion callback outside the CAS success branch', note='callback on CAS success edge')
        ra.expect(any(f.precedes(s, c) for s in st), 'base_set:callback-before-status', c.loc, 'completion callback may run before the future is marked COMPLETED', note='status -> callback')
    others = [s for s in f.stores() if s.lhs.k == 'mem' and s.lhs.n == 'tracked_data']
    ra.expect(not others, 'base_set:plain-store', others[0].loc if others else f.where(), 'plain store to tracked_data in base_future_set (must be the CAS)', note='tracked_data written only by CAS')
    # ---- base get
    f = u1.func('parsec_base_future_get'); ctx.functions_analysed.add(f.name)
    loads = [l for l in f.loads() if l.e.k == 'mem' and l.e.n == 'tracked_data']
    if not loads:
        raise AnalysisBroken('base_future_get: no load of tracked_data')
    def ready(atom, truth):
        return truth and atom.k == 'call' and atom.n == 'parsec_base_future_is_ready'
    for l in loads:
        ra.expect(f.guarded_by(l.point, ready), 'base_get:unguarded-read', l.loc, 'tracked_data read without is_ready()', note='read guarded by is_ready')
        ra.expect(any(f.precedes(r, l) and f.guarded_by(r.point, ready) for r in f.calls('parsec_atomic_rmb')), 'base_get:no-rmb', l.loc,
                  'no read barrier between is_ready() and the read of tracked_data', note='is_ready -> rmb -> read')
    f = u1.func('parsec_base_future_is_ready')
    r = f.returns()
    ra.expect(len(r) == 1 and r[0].e.k == 'bin' and r[0].e.op == '&' and C in (r[0].e.ch[0].cv, r[0].e.ch[1].cv), 'is_ready:shape', f.where(),
              'is_ready must test the COMPLETED bit', note='is_ready = status & COMPLETED')

    # ---- countable
    f = u1.func('parsec_countable_future_set'); ctx.functions_analysed.add(f.name)
    decs = [e for e in f.calls() if e.fn and tables.atomic_kind(e.fn) in ('fetch_dec', 'fetch_sub', 'fetch_add') and e.args[0].s.endswith('count')]
    rb.expect(len(decs) == 1 and f.postdominates(decs[0].point, (f.entry, 0)) and tables.atomic_kind(decs[0].fn) == 'fetch_dec', 'countable:one-dec', decs[0].loc if decs else f.where(),
              'countable set must decrement the count exactly once on every path', note='one fetch_dec(count) per set')
    def post_zero(atom, truth):
        z = pathq.asserted_zero(atom, truth)
        return bool(decs) and z is not None and z == tables.post_value(decs[0].e)
    st = status_or(f, C); cbs = cb_calls(f)
    if not st or not cbs:
        raise AnalysisBroken('countable_future_set: status store / callback not found')
    for s in st:
        rb.expect(f.guarded_by(s.point, post_zero), 'countable:status-unguarded', s.loc, 'COMPLETED set although the post-value of the decrement is not tested == 0', note='status on post-value == 0')
    for c in cbs:
        rb.expect(f.guarded_by(c.point, post_zero) and any(f.precedes(s, c) for s in st), 'countable:callback-unguarded', c.loc,
                  'callback not on the post-value == 0 branch after the status update', note='callback on post-value == 0, after status')

    # ---- datacopy
    f = u2.func('parsec_datacopy_future_get_or_trigger_internal'); ctx.functions_analysed.add(f.name)
    T = None
    for s in f.stores():
        if s.lhs.k == 'mem' and s.lhs.n == 'status' and s.op == '|=' and s.rhs.cv not in (None, C):
            T = s.rhs.cv
    if T is None:
        raise AnalysisBroken('no status |= TRIGGERED store')
    ls = lockset_analysis(f, BASE_LOCKS)
    cbs = cb_calls(f)
    if not cbs:
        raise AnalysisBroken('get_or_trigger_internal: cb_fulfill call not found')
    def untriggered(atom, truth):
        return (not truth) and atom.k == 'bin' and atom.op == '&' and T in (atom.ch[0].cv, atom.ch[1].cv) and 'status' in atom.s
    sts = status_or(f, T)
    unlocks = f.calls('parsec_atomic_unlock')
    for s_ in sts:
        must = ls.must_before(s_) or frozenset()
        lk = [l for l in must if l.endswith('future_lock')]
        rc.expect(bool(lk), 'dc:mark-unlocked', s_.loc, 'status |= TRIGGERED outside the future_lock region', note='status |= TRIGGERED under future_lock')
        ok = False
        for a_, t_, b_ in f.guards(s_.point):
            if not untriggered(a_, t_):
                continue
            lds = [e for e in f.block_events(b_) if e.kind == 'load' and e.e.k == 'mem' and e.e.n == 'status']
            locked_test = lds and all((ls.must_before(e) or frozenset()) & set(lk) for e in lds)
            # no unlock between the test and the mark (test-and-set must be one critical section)
            gap = any(f.reaches(lds[-1].point, u_.point) and f.reaches(u_.point, s_.point) for u_ in unlocks) if lds else True
            if locked_test and not gap:
                ok = True
        rc.expect(ok, 'dc:trigger-test', s_.loc, 'TRIGGERED is not tested and set inside one future_lock critical section', note='test !(status & TRIGGERED) and set in one locked region')
    for c in cbs:
        rc.expect(f.guarded_by(c.point, untriggered), 'dc:fulfill-unguarded', c.loc, 'cb_fulfill reachable without having found TRIGGERED unset', note='cb_fulfill only for the thread that found TRIGGERED unset')
        rc.expect(any(f.precedes(s_, c) for s_ in sts), 'dc:trigger-mark', c.loc, 'status |= TRIGGERED must precede cb_fulfill', note='status |= TRIGGERED before cb_fulfill')
    for rev, must, may, loc in ls.exits():
        rc.expect(not may, 'dc:internal-exit-locked', loc, 'get_or_trigger_internal may return holding %s' % sorted(may), note='internal: lock released at return')
    f = u2.func('parsec_datacopy_future_get_or_trigger'); ctx.functions_analysed.add(f.name)
    ls = lockset_analysis(f, BASE_LOCKS)
    for ac in field_accesses(f, ('nested_futures',)):
        must = ls.must_before(ac.ev)
        rc.expect(must is not None and any(l.endswith('future_lock') for l in must), 'dc:nested-unlocked:%s' % ac.kind, ac.ev.loc,
                  '%s of nested_futures without future_lock' % ac.kind, note='%s nested_futures under lock' % ac.kind)
    for rev, must, may, loc in ls.exits():
        rc.expect(not may, 'dc:exit-locked', loc, 'get_or_trigger may return holding %s' % sorted(may), note='get_or_trigger: lock released at return')
    push = f.calls('parsec_list_nolock_push_back')
    rc.expect(len(push) == 1 and any(l.endswith('future_lock') for l in (ls.must_before(push[0]) or ())), 'dc:push-unlocked', push[0].loc if push else f.where(),
              'new nested future must be appended to nested_futures before the unlock', note='nested future appended under lock')
    # the decision "no nested future matches" (end of the list walk) and the insertion of the new one
    # must be one critical section, otherwise two threads create two futures for one shape
    walk_loads = [l for l in f.loads() if l.e.k == 'mem' and l.e.n == 'nested_futures' and f.in_loop(l.block)]
    unlocks = f.calls('parsec_atomic_unlock')
    if push and walk_loads:
        gap = [u_ for u_ in unlocks for l in walk_loads if f.reaches(l.point, u_.point, acyclic=True) and f.reaches(u_.point, push[0].point, acyclic=True)]
        rc.expect(not gap, 'dc:lookup-insert-split', (gap or push)[0].loc, 'future_lock released between the unsuccessful lookup in nested_futures and the insertion of the new nested future',
                  note='lookup miss and insertion in one critical section')
    else:
        raise AnalysisBroken('get_or_trigger: nested list walk / push anchors missing')
    f = u2.func('parsec_datacopy_future_set'); ctx.functions_analysed.add(f.name)
    td = [s for s in f.stores() if s.lhs.k == 'mem' and s.lhs.n == 'tracked_data']
    st = status_or(f, C)
    rc.expect(td and st and all(f.precedes(td[0], s) for s in st), 'dc:set-order', (st or td or [None])[0].loc if (st or td) else f.where(),
              'datacopy set must store tracked_data before marking COMPLETED', note='tracked_data stored before COMPLETED')



def run(ctx):
    _run(ctx)
    from rules import whowrites
    whowrites.thorough(ctx, 'C29')
