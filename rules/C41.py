"""C41 — info registries return what was set (parsec/class/info.c)."""
from sa import aff, pathq
from sa.facts import AnalysisBroken, lockset_analysis, LockTable, cond_atom
from sa.tables import BASE_LOCKS

U = 'parsec/class/info.c'
RESIZE = 'parsec_ioa_resize_and_rdlock'


def check_max_id(ctx, u):
    """Object arrays are sized max_id + 1 (array_init, resize): max_id must stay >= every live identifier.  Identifiers
    are recycled (register takes the first hole), so max_id may only be raised by a register (never set to a smaller
    id) and only lowered by the unregister of the maximum itself, to the maximum of the remaining entries."""
    rd = ctx.rule('R41.d', 'registry max_id is the maximum of the live identifiers: raised only by a max-update, lowered only when the maximum is unregistered', floor=4)
    def is_gt(a, big, small):
        # big > small  /  small < big
        return a.k == 'bin' and ((a.op == '>' and a.ch[0].s == big and a.ch[1].s == small) or (a.op == '<' and a.ch[0].s == small and a.ch[1].s == big))
    for fname, f in u.funcs().items():
        if not f.file.endswith('info.c'):
            continue
        for s_ in f.stores():
            if not (s_.lhs.k == 'mem' and s_.lhs.n == 'max_id'):
                continue
            ctx.functions_analysed.add(fname)
            if s_.rhs is not None and s_.rhs.cv == -1:
                rd.ok(s_.loc, '%s: max_id = -1 (empty registry)' % fname)
                continue
            field = s_.lhs.s; val = s_.rhs.s if s_.rhs is not None else ''
            raised = f.guarded_by(s_.point, lambda a, t: t is True and is_gt(a, val, field))
            if raised:
                rd.ok(s_.loc, '%s: %s = %s only when %s > %s' % (fname, field, val, val, field))
                continue
            # lowering: only when the identifier being removed is the maximum, to the maximum of the others
            removed = [p_['n'] for p_ in f.params if (p_.get('ty') or '').startswith('parsec_info_id_t')]
            eq = f.guarded_by(s_.point, lambda a, t: t is True and a.k == 'bin' and a.op == '==' and field in (a.ch[0].s, a.ch[1].s) and (set((a.ch[0].s, a.ch[1].s)) - {field}) <= set(removed))
            acc = [x for x in f.stores() if x.lhs.s == val and x.lhs.k == 'ref']
            upd = [x for x in acc if not (x.rhs is not None and x.rhs.cv == -1)]
            okacc = bool(upd) and all(x.rhs is not None and x.rhs.k == 'mem' and x.rhs.n == 'iid' and f.guarded_by(x.point, lambda a, t, x=x: t is True and is_gt(a, x.rhs.s, val)) for x in upd) \
                and any(x.rhs is not None and x.rhs.cv == -1 for x in acc)
            # the scan may stop early only when the removed id is not the maximum
            brk = [b for b in f.stmts_of_kind('break')]
            okbrk = True
            for b in brk:
                pt = _point_of(f, b)
                if pt is None:
                    continue
                g = [(a, t) for a, t, _ in f.guards(pt) if a.k == 'bin' and a.op in ('==', '!=') and field in (a.ch[0].s, a.ch[1].s)]
                if not any((a.op == '!=' and t is True) or (a.op == '==' and t is False) for a, t in g):
                    okbrk = False
            rd.expect(bool(eq) and okacc and okbrk, 'lower:%s' % fname, s_.loc,
                      '%s may lower %s only when the identifier it removes is the maximum, to the maximum iid of the remaining entries (scan not cut short in that case); a store that is neither that nor a max-update can leave live identifiers above max_id'
                      % (fname, field), note='%s: %s lowered to the max of the remaining entries, only when the maximum is removed' % (fname, field))
    # consumers size by max_id + 1
    g = u.func('parsec_info_object_array_init'); ctx.functions_analysed.add(g.name)
    ki = [s_ for s_ in g.stores() if s_.lhs.k == 'mem' and s_.lhs.n == 'known_infos']
    rd.expect(len(ki) == 1 and aff.norm(ki[0].rhs) == aff.Poly.atom('%s->max_id' % g.params[1]['n']) + aff.Poly.const(1), 'array_init:size', ki[0].loc if ki else g.where(),
              'a new object array must hold max_id + 1 slots', note='array_init: known_infos = max_id + 1')


def _point_of(f, nid):
    for bid, b in f.blocks.items():
        if b.get('term') == nid:
            return (bid, len(b['elems']))
        if nid in b['elems']:
            return (bid, b['elems'].index(nid))
    return None


def _run(ctx):
    ctx.explanation = ('Static clauses on info.c: (a) parsec_ioa_resize_and_rdlock returns holding the read lock of the object array on every path; the array is reallocated only under the write lock after '
                       're-checking the size; growth zero-fills exactly the new slots [known_infos, new size) (element index and byte count checked by affine normalisation); (b) set / get / test_and_set touch '
                       'info_objects[iid] only under that lock and release it on all exits; test_and_set replaces through cas_ptr(&slot, old, info) and returns info exactly on success; (c) every traversal of the '
                       'registry list and the id allocation happen under the registry list lock, paired on all exits; an id is returned to the caller only after the entry was linked.')
    ctx.not_decided = 'values returned by user constructors; fairness of concurrent set() on the same slot.'
    u = ctx.extract(U)
    ra = ctx.rule('R41.a', 'resize: returns read-locked; realloc only write-locked after re-check; new slots zero-filled exactly', floor=5)
    rb = ctx.rule('R41.b', 'slot accesses under the array lock; pairing; test_and_set by CAS', floor=8)
    rc = ctx.rule('R41.c', 'registry list traversals and id allocation under the list lock; pairing', floor=8)

    check_max_id(ctx, u)

    f = u.func(RESIZE); ctx.functions_analysed.add(f.name)
    oa = f.params[0]['n']; iid = f.params[1]['n']
    ls = lockset_analysis(f, BASE_LOCKS)
    rd = 'rd:%s->rw_lock' % oa; wr = 'wr:%s->rw_lock' % oa
    ex = ls.exits()
    ra.expect(bool(ex) and all(must == frozenset({rd}) and may == frozenset({rd}) for _, must, may, _ in ex), 'resize:returns-rdlocked', f.where(),
              '%s must return holding exactly the read lock on every path (found %s)' % (RESIZE, [(sorted(m), sorted(y)) for _, m, y, _ in ex]), note='returns holding rd lock on all paths')
    allocs = f.calls(('realloc', 'calloc'))
    if not allocs:
        raise AnalysisBroken('resize: no (re)allocation found')
    def need_grow(a, t):
        r = pathq.rel(a)
        return r is not None and ((r[0] == '<=' and not t) or (r[0] == '<' and not t) or (a.op == '>=' and t)) and 'known_infos' in a.s and iid in a.s
    for c in allocs:
        must = ls.must_before(c) or frozenset()
        # the re-check must itself be evaluated under the write lock
        rechecked = False
        for a, t, b in f.guards(c.point):
            if 'known_infos' in a.s and iid in a.s and a.op == '>=' and t:
                lds = [e for e in f.block_events(b) if e.kind == 'load' and e.e.s.endswith('known_infos')]
                if lds and all(wr in (ls.must_before(e) or ()) for e in lds):
                    rechecked = True
        ra.expect(wr in must and rechecked, 'resize:alloc-wrlocked', c.loc, 'the object array must be (re)allocated only under the write lock, after re-checking iid >= known_infos under that lock',
                  note='%s under wr lock after re-check' % c.fn)
    # zero fill of the new slots
    ms = f.calls('memset'); re_ = f.calls('realloc')
    if len(re_) != 1:
        raise AnalysisBroken('resize: realloc anchor')
    nsz = None
    for s_ in f.stores():
        if s_.lhs.k == 'mem' and s_.lhs.n == 'known_infos' and s_.rhs is not None:
            nsz = s_.rhs
    if nsz is None:
        raise AnalysisBroken('resize: new size store not found')
    known = aff.Poly.atom('%s->known_infos' % oa)
    ok = False; why = 'no memset after realloc'
    if len(ms) == 1 and f.ordered(re_[0], ms[0]):
        m = ms[0]
        base = m.args[0]
        elem_ok = base.k == 'un' and base.op == '&' and base.ch[0].k == 'idx' and base.ch[0].ch[0].s == '%s->info_objects' % oa and aff.norm(base.ch[0].ch[1]) == known
        want_len = (aff.norm(nsz) - known) * aff.Poly.const(8)
        len_ok = aff.norm(m.args[2]) == want_len
        ok = elem_ok and len_ok and m.args[1].cv == 0
        why = 'memset(%s, %s, %s): start index must be known_infos and length (new - known_infos) * sizeof(void*)' % (m.args[0].s, m.args[1].s, m.args[2].s)
    ra.expect(ok, 'resize:zero-fill', ms[0].loc if ms else re_[0].loc, 'growth must zero exactly the new slots: %s' % why, note='memset(&info_objects[known], 0, (ns-known)*sizeof(void*))')
    st = [s_ for s_ in f.stores() if s_.lhs.k == 'mem' and s_.lhs.n == 'known_infos']
    ra.expect(len(st) == 1 and wr in (ls.must_before(st[0]) or ()) and all(f.ordered(c, st[0]) for c in allocs), 'resize:size-after-alloc', st[0].loc if st else f.where(),
              'known_infos must be published after the array was grown, under the write lock', note='known_infos updated after (re)allocation, wr-locked')
    # the new size covers iid: ns = infos->max_id + 1
    ra.expect(aff.norm(nsz) == aff.Poly.atom('%s->infos->max_id' % oa) + aff.Poly.const(1) or (nsz.k == 'ref'), 'resize:new-size', st[0].loc if st else f.where(), 'new size must be max_id + 1', note='new size = max_id + 1')

    table = LockTable(acquire=dict(BASE_LOCKS.acquire), release=dict(BASE_LOCKS.release), trylock=dict(BASE_LOCKS.trylock))
    table.acquire[RESIZE] = lambda ev: 'rd:%s->rw_lock' % ev.args[0].s
    for name in ('parsec_info_set', 'parsec_info_test_and_set', 'parsec_info_get'):
        g = u.func(name); ctx.functions_analysed.add(name)
        o = g.params[0]['n']; i = g.params[1]['n']
        ls = lockset_analysis(g, table)
        lock = 'rd:%s->rw_lock' % o
        slot = '%s->info_objects[%s]' % (o, i)
        n = 0
        for ev in g.events():
            lv = ev.lhs if ev.kind == 'store' else (ev.e if ev.kind == 'load' else None)
            hit = lv is not None and lv.s == slot
            if ev.kind == 'call' and any(a.s == '&' + slot for a in ev.args or ()):
                hit = True
            if hit:
                n += 1
                must = ls.must_before(ev)
                rb.expect(must is not None and lock in must, '%s:slot-unlocked' % name, ev.loc, '%s: info_objects[iid] accessed without the array lock' % name, note='%s: slot %s under lock' % (name, ev.kind))
        if n == 0:
            raise AnalysisBroken('%s: no slot access found' % name)
        for rev, must, may, loc in ls.exits():
            rb.expect(not may, '%s:exit-locked' % name, loc, '%s may return holding %s' % (name, sorted(may)), note='%s: lock released at return' % name)
    g = u.func('parsec_info_test_and_set')
    cas = g.calls('parsec_atomic_cas_ptr')
    o, i, info, old = [p['n'] for p in g.params[:4]]
    ok = len(cas) == 1 and cas[0].args[0].s == '&%s->info_objects[%s]' % (o, i) and cas[0].args[1].s == old and cas[0].args[2].s == info
    rb.expect(ok, 'test_and_set:cas', cas[0].loc if cas else g.where(), 'test_and_set must replace with cas_ptr(&slot, old, info)', note='CAS(&slot, old, info)')
    for r in g.returns():
        won = g.guarded_by(r.point, lambda a, t: t and a.k == 'call' and a.n == 'parsec_atomic_cas_ptr')
        lost = g.guarded_by(r.point, lambda a, t: (not t) and a.k == 'call' and a.n == 'parsec_atomic_cas_ptr')
        if r.e.s == info:
            rb.expect(won, 'test_and_set:ret-info', r.loc, 'test_and_set returns the new value without having won the CAS', note='returns info only on CAS success')
        else:
            rb.expect(lost, 'test_and_set:ret-current', r.loc, 'test_and_set must return the current value when the CAS fails', note='returns the current value on CAS failure')

    # (c)
    for name in ('parsec_info_register', 'parsec_info_unregister', 'parsec_info_lookup', 'parsec_info_lookup_by_iid'):
        g = u.func(name); ctx.functions_analysed.add(name)
        nfo = g.params[0]['n']
        ls = lockset_analysis(g, BASE_LOCKS)
        lock = 'list:%s->info_list' % nfo
        n = 0
        for ev in g.events():
            # traversal: loads of iterator fields of entries / max_id accesses / structural edits of the list
            touch = False
            if ev.kind in ('load', 'store'):
                lv = ev.lhs if ev.kind == 'store' else ev.e
                if lv.k == 'mem' and lv.n in ('iid', 'max_id', 'name') and (lv.ch[0].s in ('ie', nfo)):
                    touch = True
            if ev.kind == 'call' and ev.fn in ('parsec_list_nolock_add_before', 'parsec_list_nolock_remove'):
                touch = True
            if touch:
                n += 1
                must = ls.must_before(ev)
                rc.expect(must is not None and lock in must, '%s:list-unlocked' % name, ev.loc, '%s: registry list / ids accessed without the list lock' % name, note='%s: %s under list lock' % (name, ev.kind))
        for rev, must, may, loc in ls.exits():
            rc.expect(not may, '%s:exit-locked' % name, loc, '%s may return holding %s' % (name, sorted(may)), note='%s: list lock released at return' % name)
        if n == 0:
            raise AnalysisBroken('%s: no registry access found' % name)
    g = u.func('parsec_info_register')
    add = g.calls('parsec_list_nolock_add_before')
    idst = [s_ for s_ in g.stores() if s_.lhs.k == 'mem' and s_.lhs.n == 'iid']
    good = [r for r in g.returns() if r.e is not None and r.e.k == 'ref']
    rc.expect(len(add) == 1 and len(idst) == 1 and g.precedes(idst[0], add[0]) and all(g.dominates(add[0].point, r.point) for r in good) and good, 'register:link', add[0].loc if add else g.where(),
              'register must store the id in the entry, link it, and only then return the id', note='iid stored -> entry linked -> id returned')
    # ids stay distinct only if the list stays sorted by id: when a hole is found (entry id != expected id) the new entry
    # must be inserted BEFORE that entry, i.e. the insertion successor is the entry just examined
    if add:
        succ = add[0].args[1].s
        hole = [s_ for s_ in g.stores(succ) if g.in_loop(s_.block)]
        itv = None
        for s_ in g.stores():
            if s_.lhs.s == 'ie' and s_.rhs is not None and s_.rhs.k == 'ref':
                itv = s_.rhs.s
        def mismatch(a, t):
            r = pathq.rel(a)
            return r is not None and r[0] == '==' and not t and 'iid' in a.s
        rc.expect(len(hole) == 1 and itv is not None and hole[0].rhs.s == itv and g.guarded_by(hole[0].point, mismatch), 'register:hole', hole[0].loc if hole else g.where(),
                  'when an identifier hole is found the new entry must be linked before the entry examined (insertion successor = %s), otherwise the registry is no longer sorted and identifiers get duplicated (found %s)' % (itv, hole[0].rhs.s if hole else '?'),
                  note='hole: insertion successor is the entry with the larger id')
    dup = [r for r in g.returns() if r.e is not None and r.e.cv is not None]
    rc.expect(all(g.guarded_by(r.point, lambda a, t: (not t) and a.k == 'call' and a.n == 'strcmp') for r in dup) and dup, 'register:duplicate', dup[0].loc if dup else g.where(),
              'registering an existing name must be refused', note='duplicate name refused')



def run(ctx):
    _run(ctx)
    from rules import whowrites
    whowrites.thorough(ctx, 'C41')
