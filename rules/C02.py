"""C02 — PTG execution respects dependencies and delivers the named data (clause level).

All rules are agreement rules between the three places one dependency `T.F -> U.G` is compiled to:
the dependency tables (read by the runtime: goals, activation, remote protocol), the successor
iteration of T (producer side) and the data lookup of U (consumer side).

R02.a  producer side, every ontask(...) call of iterate_successors_of_<T>: the parsec_dep_t passed
       belongs to a flow of T; the successor class set in nc.task_class, the repository and the key
       function are those of the class the dep names; the call is enabled by the action bit
       1 << dep_index; data.data is the data_out of the flow the dep belongs to; a conditional dep
       is called under the same condition (and polarity) as the .cond function of the table.
R02.b  tables: belongs_to; class id <-> owner of the target flow; flow_index distinct and
       < nb_flows; every out dep has the mirror in dep and vice versa; mask/counter mode agrees with
       update_deps; the goal is the OR of the input flows; a flow with a memory/NEW alternative is
       flagged HAS_IN_DEPS and its class HAS_IN_IN_DEPENDENCIES (else its bit is never set).
R02.c  consumer side, data_lookup_of_<U>: for each input flow, the predecessor repository, key
       function and slot index used to fetch the data are those of the (class, flow) named by a
       dep_in of that flow; the own-repo slot is the flow's own index.
R02.e  parsec.c goal functions (mask / counter): the first input dependency whose condition holds decides a
       data flow, a dependency is skipped only on a false condition, and the flow is satisfied at creation
       exactly when the deciding dependency reads a data collection (the rule data_lookup follows too).
R02.d  release_deps_of_<T>: the output entry is created before the successors are iterated with
       parsec_release_dep_fct, its usage limit is published after, the ready successors are
       scheduled last; all on the own repository / key of T.
"""
import re
from sa import gen
from sa.facts import AnalysisBroken, cond_atom
from rules import gencommon as gc
from rules.gencommon import norm_s


def n2(s):
    s = norm_s(s)
    s = re.sub(r'\blocals\b(?!->|\.)', 'LOCALS', s)
    s = re.sub(r'\bassignments\b(?!->|\.)', 'LOCALS', s)
    return s


def _repo_index(e):
    m = re.fullmatch(r'__parsec_tp->repositories\[(\d+)\]', e.s)
    return int(m.group(1)) if m else None


def _last_store_before(fn, evs, call, pred):
    """latest store satisfying pred that dominates the call (by block/idx order in dominators)"""
    best = None
    for e in evs:
        if e.kind == 'store' and pred(e) and fn.dominates(e.point, call.point) and e.point != call.point:
            if best is None or fn.dominates(best.point, e.point):
                best = e
    return best


def q_C02(u, prog):
    rec = gc.Rec()
    T = gc.Tables(u)
    funcs = u.funcs()
    pn = prog.name
    # ------------------------------------------------------------------ R02.b tables
    for fname, fl in T.flows.items():
        for lst in ('dep_in', 'dep_out'):
            for dn in fl[lst]:
                d = T.deps.get(dn)
                if d is None:
                    rec.broken('%s: dep %s listed by %s has no table' % (pn, dn, fname))
                    continue
                rec.expect(d['belongs_to'] == fname, 'R02.b', '%s:%s:belongs_to' % (pn, dn), gc.ploc(prog, dn),
                           'dependency %s is listed by flow %s but says it belongs to %s (the runtime activates the wrong flow of the successor)'
                           % (dn, fname, d['belongs_to']), note='%s belongs to the flow that lists it' % dn)
    for dn, d in T.deps.items():
        if d['local_data'] or d['flow'] is None:
            continue
        owner = T.flow_owner.get(d['flow'])
        tc = T.class_by_id.get(d['task_class_id'])
        rec.expect(owner is not None and tc is not None and tc['name'] == owner, 'R02.b', '%s:%s:target-class' % (pn, dn), gc.ploc(prog, dn),
                   'dependency %s names task class id %s (%s) but its flow %s belongs to class %s'
                   % (dn, d['task_class_id'], tc['name'] if tc else '?', d['flow'], owner), note='%s: class id and flow agree' % dn)
    for cn, c in T.classes.items():
        fls = []
        for f in c['in'] + c['out']:
            if f not in fls:
                fls.append(f)
        idx = [T.flows[f]['flow_index'] for f in fls if f in T.flows]
        rec.expect(len(set(idx)) == len(idx) and all(0 <= i < (c['nb_flows'] or 0) for i in idx), 'R02.b', '%s:%s:flow-index' % (pn, cn),
                   gc.ploc(prog, c['global']), 'flow indices %s of class %s are not distinct and below nb_flows=%s' % (idx, cn, c['nb_flows']),
                   note='%s: flow indices distinct and < nb_flows' % cn)
        g = u.glob(c['global'])
        cflags = gc.macro_names(g, c['fields'].get('flags'))
        upd = c['fields'].get('update_deps')
        upd = upd.s if upd is not None else ''
        mask = 'PARSEC_USE_DEPS_MASK' in cflags
        rec.expect(('with_mask' in upd) == mask and ('with_counter' in upd) == (not mask), 'R02.b', '%s:%s:mode' % (pn, cn), gc.ploc(prog, c['global']),
                   'class %s is %s but updates its dependencies with %s' % (cn, 'in mask mode' if mask else 'in counter mode', upd),
                   note='%s: %s mode and update function agree' % (cn, 'mask' if mask else 'counter'))
        goal = c['fields'].get('dependencies_goal')
        gin = [T.flows[f] for f in c['in'] if f in T.flows]
        if mask:
            want = 0
            for f in gin:
                want |= 1 << f['flow_index']
            rec.expect(goal is not None and goal.cv == want, 'R02.b', '%s:%s:goal' % (pn, cn), gc.ploc(prog, c['global']),
                       'dependencies_goal of %s is %s, the OR of its input flows is 0x%x: the task %s' %
                       (cn, goal.s if goal is not None else '?', want, 'never becomes ready' if goal is not None and goal.cv is not None and goal.cv & ~want else 'starts before all inputs arrived'),
                       note='%s: goal = OR of input flow bits' % cn)
        else:
            rec.expect(goal is not None and goal.cv == len(gin), 'R02.b', '%s:%s:goal' % (pn, cn), gc.ploc(prog, c['global']),
                       'dependencies_goal of %s is %s but it has %d input flows' % (cn, goal.s if goal is not None else '?', len(gin)),
                       note='%s: goal = number of input flows' % cn)
        # a control gather (an input dependency on a range of predecessors) needs the counter mode: one bit per flow cannot count
        # the members of the range, the task would start after the first one and be scheduled again by each of the others
        gath = [d for f in gin for d in f['dep_in'] if d in T.deps and T.deps[d]['ctl_gather']]
        has_flag = 'PARSEC_HAS_CTL_GATHER' in cflags
        rec.expect(bool(gath) == has_flag and not (gath and mask), 'R02.b', '%s:%s:gather' % (pn, cn), gc.ploc(prog, c['global']),
                   'class %s %s but is %s%s: with one readiness bit per flow the first predecessor of the range makes the task ready and every other one schedules it again'
                   % (cn, ('gathers a range of predecessors (%s)' % ', '.join(gath[:3])) if gath else 'has no gathering input', 'in mask mode' if mask else 'in counter mode',
                      '' if has_flag == bool(gath) else (', PARSEC_HAS_CTL_GATHER %s' % ('set' if has_flag else 'missing'))),
                   note='%s: %s' % (cn, 'control gather -> counter mode + HAS_CTL_GATHER' if gath else 'no gather, flag absent'))
        any_in = False
        for f in gin:
            fg = u.glob(f['global'])
            ff = gc.macro_names(fg, f['fields'].get('flow_flags'))
            ctl = 'PARSEC_FLOW_ACCESS_NONE' in ff
            deps = [T.deps[d] for d in f['dep_in'] if d in T.deps]
            needs = (not ctl) and (not deps or any(d['local_data'] for d in deps))
            if needs:
                rec.expect('PARSEC_FLOW_HAS_IN_DEPS' in ff, 'R02.b', '%s:%s:has-in-deps' % (pn, f['global']), gc.ploc(prog, f['global']),
                           'flow %s can be satisfied from memory / NEW but is not flagged PARSEC_FLOW_HAS_IN_DEPS: its readiness bit is never set and the task never runs' % f['global'],
                           note='%s: memory alternative flagged HAS_IN_DEPS' % f['global'])
            if 'PARSEC_FLOW_HAS_IN_DEPS' in ff:
                any_in = True
        if any_in:
            rec.expect('PARSEC_HAS_IN_IN_DEPENDENCIES' in cflags, 'R02.b', '%s:%s:has-in-in' % (pn, cn), gc.ploc(prog, c['global']),
                       'class %s has inputs satisfied at creation but is not flagged PARSEC_HAS_IN_IN_DEPENDENCIES (check_IN returns 0 at once)' % cn,
                       note='%s: class flagged HAS_IN_IN_DEPENDENCIES' % cn)
    # duality
    for dn, d in T.deps.items():
        if d['local_data'] or d['flow'] is None or d['belongs_to'] not in T.flows:
            continue
        src = d['belongs_to']; dst = d['flow']
        is_out = dn in T.flows[src]['dep_out']
        if not is_out:
            # an input without a producer is an error of the JDF program (ptgpp does not check it), not of the translation
            back = T.flows[dst]['dep_out'] if dst in T.flows else []
            srcc = T.classes.get(T.flow_owner.get(src))
            if not any(T.deps.get(b, {}).get('flow') == src for b in back):
                rec.info('jdf-input-without-producer', '%s reads %s which never sends to it' % (dn, dst))
            continue
        back = T.flows[dst]['dep_in' if is_out else 'dep_out'] if dst in T.flows else []
        srcc = T.classes.get(T.flow_owner.get(src))
        ok = any(T.deps.get(b, {}).get('flow') == src and srcc is not None and T.deps[b]['task_class_id'] == srcc['id'] for b in back)
        rec.expect(ok, 'R02.b', '%s:%s:mirror' % (pn, dn), gc.ploc(prog, dn),
                   '%s dependency %s (%s -> %s) has no mirror %s dependency in %s: %s' %
                   ('output' if is_out else 'input', dn, src, dst, 'input' if is_out else 'output', dst,
                    'the successor never expects it' if is_out else 'no predecessor ever sends it'),
                   note='%s has its mirror in %s' % (dn, dst))
    # ------------------------------------------------------------------ R02.a producer side
    for cn, c in T.classes.items():
        fname = 'iterate_successors_of_%s_%s' % (pn, cn)
        fn = funcs.get(fname) if isinstance(funcs, dict) else None
        if fn is None:
            continue
        evs = fn.events()
        calls = [e for e in evs if e.kind == 'call' and e.fn is None and e.callee is not None and e.callee.s == 'ontask']
        own_flows = set(c['in']) | set(c['out'])
        for call in calls:
            darg = call.args[3] if len(call.args) > 3 else None
            dn = darg.ch[0].s if darg is not None and darg.k == 'un' and darg.op == '&' else None
            d = T.deps.get(dn)
            where = gc.ploc(prog, fname, fn.line_of(call.nid))
            if d is None:
                rec.broken('%s: ontask call does not pass a dependency table' % where)
                continue
            key = '%s:%s:%s' % (pn, cn, dn)
            rec.expect(d['belongs_to'] in own_flows and dn in T.flows[d['belongs_to']]['dep_out'], 'R02.a', key + ':own-dep', where,
                       'successor iteration of %s passes %s, which is not an output dependency of %s' % (cn, dn, cn),
                       note='%s: passes an output dependency of %s' % (dn, cn))
            tc = T.class_by_id.get(d['task_class_id'])
            if tc is None:
                rec.bad('R02.a', key + ':target', where, 'dependency %s names no task class' % dn)
                continue
            st = _last_store_before(fn, evs, call, lambda e: e.lhs.s == 'nc.task_class')
            got = None
            if st is not None:
                m = re.search(r'task_classes_array\[(\w+)\.task_class_id\]', st.rhs.s)
                got = T.class_by_global.get(m.group(1))['name'] if m and m.group(1) in T.class_by_global else None
            rec.expect(got == tc['name'], 'R02.a', key + ':succ-class', where,
                       'the successor activated through %s is built as a task of class %s but the dependency names class %s' % (dn, got, tc['name']),
                       note='%s: successor class %s' % (dn, tc['name']))
            sr = _last_store_before(fn, evs, call, lambda e: e.lhs.s == 'successor_repo')
            sk = _last_store_before(fn, evs, call, lambda e: e.lhs.s == 'successor_repo_key')
            ri = _repo_index(sr.rhs) if sr is not None else None
            kf = sk.rhs.n if sk is not None and sk.rhs.k == 'call' else None
            mk = tc['fields'].get('make_key')
            mkn = [r.n for r in mk.walk() if r.k == 'ref'][-1] if mk is not None and [r for r in mk.walk() if r.k == 'ref'] else None
            rec.expect(ri == tc['id'] and kf == mkn, 'R02.a', key + ':succ-repo', where,
                       'successor repository / key for %s are repositories[%s] / %s, expected those of class %s (repositories[%s] / %s): the consumer looks the data up elsewhere'
                       % (dn, ri, kf, tc['name'], tc['id'], mkn), note='%s: repository and key of %s' % (dn, tc['name']))
            bit = 1 << d['dep_index']
            masks = [a.ch[1].cv for a, t, _ in fn.guards(call.point)
                     if t is True and a.k == 'bin' and a.op == '&' and a.ch[0].s == 'action_mask' and a.ch[1].cv is not None and 'PARSEC_ACTION' not in ''.join(gc.macro_names(fn, a))]
            rec.expect(bit in masks, 'R02.a', key + ':action-bit', where,
                       'the call for %s (dep_index %d) is enabled by action_mask & %s, not by its own bit 0x%x' % (dn, d['dep_index'], [hex(m) for m in masks], bit),
                       note='%s: enabled by action bit 0x%x' % (dn, bit))
            dd = _last_store_before(fn, evs, call, lambda e: e.lhs.s == 'data.data')
            fl = T.flows[d['belongs_to']]
            ffl = gc.macro_names(u.glob(fl['global']), fl['fields'].get('flow_flags'))
            if 'PARSEC_FLOW_ACCESS_NONE' in ffl:
                rec.expect(dd is None or dd.rhs.cv == 0 or 'data_out' not in dd.rhs.s or dd.rhs.s == 'this_task->data._f_%s.data_out' % fl['name'], 'R02.a', key + ':data', where,
                           'control dependency %s carries data %s' % (dn, dd.rhs.s if dd else None), note='%s: control flow' % dn)
            else:
                rec.expect(dd is not None and dd.rhs.s == 'this_task->data._f_%s.data_out' % fl['name'], 'R02.a', key + ':data', where,
                           'the data sent along %s is %s, expected the output of flow %s (this_task->data._f_%s.data_out)' % (dn, dd.rhs.s if dd else None, fl['name'], fl['name']),
                           note='%s: sends the data of flow %s' % (dn, fl['name']))
            if d['cond']:
                cg = u.glob(d['cond'])
                cf = None
                if cg is not None and cg.init() is not None:
                    for r in cg.init().walk():
                        if r.k == 'ref' and r.n in funcs:
                            cf = funcs[r.n]
                rets = [e for e in cf.events() if e.kind == 'ret'] if cf is not None else []
                if len(rets) == 1 and rets[0].e is not None:
                    atom, pol = cond_atom(rets[0].e)
                    a_s = n2(atom.s)
                    gs = [(n2(a.s), t) for a, t, _ in fn.guards(call.point)]
                    hit = [t for s_, t in gs if s_ == a_s]
                    if not hit and atom.k == 'bin' and atom.op in ('&&', '||'):
                        rec.info('cond-compound', '%s: compound condition not compared' % dn)
                    else:
                        rec.expect(bool(hit) and all(t == pol for t in hit), 'R02.a', key + ':cond', where,
                                   'dependency %s is declared under %s"%s" in its table but the successor is activated under %s' %
                                   (dn, '' if pol else 'NOT ', a_s, [('' if t else 'NOT ') + s_ for s_, t in gs if 'action_mask' not in s_][-3:]),
                                   note='%s: activated under the condition of its table' % dn)
                else:
                    rec.info('cond-shape', '%s: condition function not a single return' % dn)
    # ------------------------------------------------------------------ R02.c consumer side
    for cn, c in T.classes.items():
        fname = 'data_lookup_of_%s_%s' % (pn, cn)
        fn = funcs.get(fname)
        if fn is None:
            continue
        evs = fn.events()
        own = {T.flows[f]['name']: T.flows[f] for f in set(c['in']) | set(c['out']) if f in T.flows}
        # blocks per flow: stores to consumed_flow_index are attributed to the flow whose fulfill test guards them
        for st in [e for e in evs if e.kind == 'store' and e.lhs.s == 'consumed_flow_index' and e.rhs is not None and e.rhs.cv is not None]:
            fl = None
            for a, t, _ in fn.guards(st.point):
                m = re.fullmatch(r'this_task->data\._f_(\w+)\.fulfill', a.s)
                if m and t is False:
                    fl = own.get(m.group(1))
            if fl is None:
                continue
            where = gc.ploc(prog, fname, fn.line_of(st.nid))
            key = '%s:%s:%s' % (pn, cn, fl['name'])
            # which repository does this branch consume from?  (store to consumed_repo in the same block)
            cr = [e for e in evs if e.kind == 'store' and e.lhs.s == 'consumed_repo' and e.block == st.block]
            ck = [e for e in evs if e.kind == 'store' and e.lhs.s == 'consumed_entry_key' and e.block == st.block]
            own_slot = fl['flow_index']
            if cr and _repo_index(cr[0].rhs) is not None:
                ri = _repo_index(cr[0].rhs)
                kf = ck[0].rhs.n if ck and ck[0].rhs.k == 'call' else None
                pc = T.class_by_id.get(ri)
                cands = [T.deps[d] for d in fl['dep_in'] if d in T.deps and not T.deps[d]['local_data'] and T.deps[d]['task_class_id'] == ri]
                slots = {T.flows[d['flow']]['flow_index'] for d in cands if d['flow'] in T.flows}
                mk = pc['fields'].get('make_key') if pc else None
                mkn = [r.n for r in mk.walk() if r.k == 'ref'][-1] if mk is not None and [r for r in mk.walk() if r.k == 'ref'] else None
                rec.expect(bool(cands) and st.rhs.cv in slots and kf == mkn, 'R02.c', key + ':pred-slot:%s' % (pc['name'] if pc else ri), where,
                           'flow %s of %s reads slot %s of repositories[%s] with key %s; its input dependencies from class %s name slot(s) %s and key %s: it receives the data of another flow'
                           % (fl['name'], cn, st.rhs.cv, ri, kf, pc['name'] if pc else ri, sorted(slots), mkn),
                           note='%s.%s <- %s: repository, key and slot agree with the dependency table' % (cn, fl['name'], pc['name'] if pc else ri))
            elif cr and cr[0].rhs.s == 'reshape_repo':
                rec.expect(st.rhs.cv == own_slot, 'R02.c', key + ':own-slot', where,
                           'flow %s of %s (index %d) reads slot %s of its own repository entry' % (fl['name'], cn, own_slot, st.rhs.cv),
                           note='%s.%s: own repository slot = own flow index' % (cn, fl['name']))
            else:
                # data already set up by the predecessor: slot is either the own one (reshape on this repo) or the predecessor's
                cands = [T.deps[d] for d in fl['dep_in'] if d in T.deps and not T.deps[d]['local_data']]
                slots = {T.flows[d['flow']]['flow_index'] for d in cands if d['flow'] in T.flows} | {own_slot}
                rec.expect(st.rhs.cv in slots, 'R02.c', key + ':setup-slot', where,
                           'flow %s of %s reads slot %s of the entry set up by its predecessor; expected one of %s' % (fl['name'], cn, st.rhs.cv, sorted(slots)),
                           note='%s.%s: predecessor-provided entry read at a slot named by the tables' % (cn, fl['name']))
    # ------------------------------------------------------------------ R02.d release order
    for cn, c in T.classes.items():
        fname = 'release_deps_of_%s_%s' % (pn, cn)
        fn = funcs.get(fname)
        if fn is None:
            continue
        evs = fn.events()
        it = [e for e in evs if e.kind == 'call' and e.fn == 'iterate_successors_of_%s_%s' % (pn, cn) and len(e.args) > 3 and e.args[3].s == 'parsec_release_dep_fct']
        if not it:
            continue      # class without successors
        where = gc.ploc(prog, fname)
        key = '%s:%s' % (pn, cn)
        cr = [e for e in evs if e.kind == 'call' and e.fn in ('data_repo_lookup_entry_and_create', '__data_repo_lookup_entry_and_create')]
        ad = [e for e in evs if e.kind == 'call' and e.fn in ('data_repo_entry_addto_usage_limit', '__data_repo_entry_addto_usage_limit')]
        sc = [e for e in evs if e.kind == 'call' and e.fn == '__parsec_schedule_vp']
        if not rec.expect(len(it) == 1 and len(cr) == 1 and len(ad) == 1 and len(sc) == 1, 'R02.d', key + ':sites', where,
                          'release_deps must create its output entry, iterate its successors, publish the usage limit and schedule once each (found %d/%d/%d/%d)'
                          % (len(cr), len(it), len(ad), len(sc)), note='%s: one create / iterate / addto / schedule' % cn):
            continue
        rec.expect(fn.ordered(cr[0], it[0]) and fn.precedes(it[0], ad[0]) and fn.precedes(ad[0], sc[0]), 'R02.d', key + ':order', where,
                   'order must be: create output entry -> iterate successors (parsec_release_dep_fct) -> addto_usage_limit -> schedule',
                   note='%s: outputs published before successors are activated, limit before scheduling' % cn)
        mk = c['fields'].get('make_key')
        mkn = [r.n for r in mk.walk() if r.k == 'ref'][-1] if mk is not None and [r for r in mk.walk() if r.k == 'ref'] else None
        orp = _last_store_before(fn, evs, cr[0], lambda e: e.lhs.s == 'arg.output_repo')
        okrepo = orp is not None and _repo_index(orp.rhs) == c['id'] and cr[0].args[1].s == 'arg.output_repo' \
            and cr[0].args[2].k == 'call' and cr[0].args[2].n == mkn and _repo_index(ad[0].args[0]) == c['id'] \
            and ad[0].args[1].s == 'arg.output_entry->ht_item.key' and ad[0].args[2].s == 'arg.output_usage'
        rec.expect(okrepo, 'R02.d', key + ':own-repo', where,
                   'the output entry of %s must be created in / published to its own repository with its own key and the usage counted by the iteration' % cn,
                   note='%s: own repository, own key, counted usage' % cn)
        def has_local(e):
            return any(t is True and 'PARSEC_ACTION_RELEASE_LOCAL_DEPS' in gc.macro_names(fn, a) for a, t, _ in fn.guards(e.point))
        rec.expect(has_local(cr[0]) and has_local(ad[0]) and has_local(sc[0]), 'R02.d', key + ':local-deps-guard', where,
                   'entry creation, usage-limit publication and scheduling must all be enabled by PARSEC_ACTION_RELEASE_LOCAL_DEPS',
                   note='%s: create/addto/schedule under RELEASE_LOCAL_DEPS' % cn)
    return rec


def run(ctx):
    ctx.level = 'translation_validation'
    ctx.explanation = ('Clause level, translation-validation style: for every program of the corpus (JDFs of the build + /verif/corpus, emitted by a '
                       'parsec-ptgpp rebuilt from the current sources) the three compiled forms of each dependency - tables, successor iteration, '
                       'consumer lookup - agree on class, flow, repository, key function, slot, action bit, condition and data (R02.a-c), and the '
                       'release function publishes outputs before activating successors (R02.d).')
    ctx.not_decided = ('equality of final collection contents with a sequential run; reshape/datatype conversion (C18); remote (MPI) delivery; '
                       'successor parameter expressions (index arithmetic of the JDF is taken as written); programs outside the corpus.')
    g = gen.Gen(ctx)
    rules = {'R02.a': ctx.rule('R02.a', 'producer side: ontask calls agree with the dependency tables', 800),
             'R02.b': ctx.rule('R02.b', 'tables: belongs_to, class/flow agreement, indices, mirror deps, goal and flags', 1500),
             'R02.c': ctx.rule('R02.c', 'consumer side: predecessor repository / key / slot agree with the dependency tables', 250),
             'R02.d': ctx.rule('R02.d', 'release_deps: create -> iterate(release_dep_fct) -> addto_usage_limit -> schedule on own repo', 200)}
    progs = [p for p in g.programs(ctx.tier) if not p.expect_fail]
    res = g.scan(progs, q_C02)
    infos = gc.apply_records(ctx, rules, res)
    for k, v in infos.items():
        ctx.note('%s (%d): %s' % (k, len(v), '; '.join('%s %s' % x for x in v[:8])))
    re_ = ctx.rule('R02.e', 'runtime goal functions: first applicable input dependency decides; skipped only on a false condition; satisfied at creation iff it reads local data', 6)
    check_R02e(ctx, re_)
    gc.raise_pending(ctx)


# ---------------------------------------------------------------------------------------
# R02.e  runtime (parsec/parsec.c): the two goal functions decide a data flow on the FIRST input
#        dependency whose condition holds - the same rule data_lookup uses to pick the source:
#        a dependency is skipped only because its condition evaluated false, the loop ends after the
#        first one that is not skipped, and the flow counts as satisfied at creation (mask: bit set,
#        counter: not counted) exactly when that dependency reads a data collection.
# ---------------------------------------------------------------------------------------
def check_R02e(ctx, rule):
    u = ctx.extract('parsec/parsec.c')
    for fname, mode in (('parsec_check_IN_dependencies_with_mask', 'mask'), ('parsec_check_IN_dependencies_with_counter', 'counter')):
        f = u.func(fname)
        if f is None:
            raise AnalysisBroken('%s not found' % fname)
        ctx.functions_analysed.add(fname)
        par = gc.parent_map(f)
        loops = [n for n in f.ast_walk() if f.nodes[n]['k'] == 'for' and f.nodes[n].get('cond', -1) >= 0 and 'dep_in[' in f.expr(f.nodes[n]['cond']).s]
        data_loops = []
        for l in loops:
            # the data case: not under the  ACCESS_NONE == (flags & MASK)  branch
            ctl = False
            for a in gc.ancestors(par, l):
                na = f.nodes[a]
                if na['k'] == 'if' and 'PARSEC_FLOW_ACCESS_NONE' in gc.macro_names(f, f.expr(na['cond'])):
                    # in the then-branch?
                    th = na.get('then')
                    if th is not None and l in set(f.ast_walk(th)):
                        ctl = True
            if not ctl:
                data_loops.append(l)
        if not rule.expect(len(data_loops) == 1, '%s:data-loop' % mode, f.where(), '%s: expected one loop over the input dependencies of a data flow (found %d)' % (fname, len(data_loops)),
                           note='%s: one data-flow dependency loop' % mode):
            continue
        l = data_loops[0]
        body = f.nodes[l].get('body')
        stmts = [c for c in f.ast_children(body)] if f.nodes[body]['k'] == 'compound' else [body]
        loc = f.loc(l)
        rule.expect(bool(stmts) and f.nodes[stmts[-1]]['k'] == 'break', '%s:first-decides' % mode, loc,
                    '%s: the loop over the input dependencies must end (break) after the first dependency that is not skipped - later alternatives must not be consulted' % fname,
                    note='%s: the first applicable input dependency decides' % mode)
        conts = [n for n in f.ast_walk(body) if f.nodes[n]['k'] == 'continue']
        okc = bool(conts)
        for c in conts:
            conds = []
            for a in gc.ancestors(par, c):
                if a == l:
                    break
                if f.nodes[a]['k'] == 'if':
                    at, pol = cond_atom(f.expr(f.nodes[a]['cond']))
                    th = f.nodes[a].get('then')
                    in_then = th is not None and c in set(f.ast_walk(th))
                    conds.append((at, pol if in_then else (not pol)))
            # skipped only when the dependency has a condition and it evaluated to 0
            ev = [(at, p) for at, p in conds if at.k == 'call' and at.extra is not None and 'cond' in at.extra.s]
            ok1 = any((p is False) for at, p in ev)
            okc = okc and ok1 and all((at.k == 'call' and 'cond' in (at.extra.s if at.extra is not None else '')) or at.s.endswith('->cond') for at, p in conds)
        rule.expect(okc, '%s:skip-only-false' % mode, loc,
                    '%s: an input dependency may be skipped only because its own condition evaluated false; skipping for any other reason lets a later (memory) alternative satisfy a flow whose real source is a task that has not run' % fname,
                    note='%s: dependencies skipped only on a false condition' % mode)
        # the verdict
        sts = [n for n in f.ast_walk(body) if f.nodes[n]['k'] in ('asg', 'un') and f.expr(n).k in ('asg', 'un') and f.expr(n).ch[0].s == 'active']
        okv = len(sts) == 1
        if okv:
            conds = []
            for a in gc.ancestors(par, sts[0]):
                if a == l:
                    break
                if f.nodes[a]['k'] == 'if':
                    at, pol = cond_atom(f.expr(f.nodes[a]['cond']))
                    th = f.nodes[a].get('then')
                    conds.append((at, pol if (th is not None and sts[0] in set(f.ast_walk(th))) else (not pol), gc.macro_names(f, f.expr(f.nodes[a]['cond']))))
            loc_tests = [(at, p) for at, p, mn in conds if 'PARSEC_LOCAL_DATA_TASK_CLASS_ID' in mn and 'task_class_id' in at.s]
            def is_eq(at, p):
                return (at.op == '==') == p
            if mode == 'mask':
                okv = len(loc_tests) == 1 and len(conds) == 1 and is_eq(*loc_tests[0])
            else:
                okv = len(loc_tests) == 1 and len(conds) == 1 and not is_eq(*loc_tests[0])
        rule.expect(okv, '%s:verdict' % mode, loc,
                    '%s: the flow is %s exactly when the deciding dependency %s a data collection' % (fname, 'marked satisfied' if mode == 'mask' else 'counted as pending', 'reads' if mode == 'mask' else 'does not read'),
                    note='%s: %s iff the deciding dependency %s local data' % (mode, 'bit set' if mode == 'mask' else 'counted', 'is' if mode == 'mask' else 'is not'))
