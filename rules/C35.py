"""C35 — task buffers and heaps keep every task and prefer the best (hbbuffer.c, maxheap.c) — clause level.

R35.a  hbbuffer push_all / push_all_by_priority: overflow always reaches the parent store (the rule set
       of C08/R08.d, re-run here).
R35.b  hbbuffer pop_best: every slot is examined; a candidate replaces the best only when the best is
       empty or the candidate is strictly higher; element and slot index are recorded together; the
       element is taken by CAS(slot, element, NULL) on exactly that slot and the scan is repeated when
       the CAS fails; NULL is returned only when a whole scan saw nothing.
R35.c  push_all_by_priority: the victim is a slot that is empty or holds an element strictly lower than
       the one being pushed (never an equal or higher one), and the CAS replaces exactly the observed
       victim.
R35.d  maxheap: insert counts the element once, bubbles up only past strictly lower parents and ends
       with heap->priority = top priority; remove returns the old top, bubbles the replacement down
       toward a child that is strictly higher than it and not lower than its sibling, with at least
       one of the two directions accepting a tie between the children; both directions relink
       consistently; size and priority are updated; split_and_steal conserves the number of elements
       (|heap| + |new| + 1 = old size) and gives each heap the priority of its top.
R35.f  hbbuffer: every element chopped off the pushed ring is made a singleton at once (ring_chop leaves its own links alone).
R35.e  the sizes given to the two halves by split_and_steal are the node counts of the left / right subtree of
       a complete binary tree, for every heap size 3 .. 65535 (the arithmetic is evaluated from the AST).
"""
from sa import aff
from sa.facts import AnalysisBroken, cond_atom
from rules import gencommon as gc
from rules import C08
from rules.C31 import key_cmp


def flat(e, op):
    if e.k == 'bin' and e.op == op:
        return flat(e.ch[0], op) + flat(e.ch[1], op)
    return [e]


def run(ctx):
    ctx.explanation = ('Clause level: overflow of the bounded buffers reaches the parent (R35.a = R08.d); pop_best scans all slots, keeps the strictly best and removes '
                       'exactly what it saw by CAS (R35.b); priority push evicts only strictly lower elements (R35.c); the heap counts, orders and relinks '
                       'consistently in insert / remove / split (R35.d).')
    ctx.not_decided = 'the heap shape invariant over histories; concurrent histories of the buffers.'
    u = ctx.extract('parsec/hbbuffer.c')
    ra = ctx.rule('R35.a', 'hbbuffer push_all[_by_priority]: overflow always reaches the parent', floor=9)
    C08.check_hbbuffer(ctx, ra, u)
    rb = ctx.rule('R35.b', 'hbbuffer pop_best: full scan, strictly better replaces, CAS on the observed slot, retry', floor=5)
    rc = ctx.rule('R35.c', 'push_all_by_priority evicts only a strictly lower element, by CAS on the observed victim', floor=3)
    rd = ctx.rule('R35.d', 'maxheap insert / remove / split: counting, strict bubbling, consistent relinking, conservation', floor=12)

    # ------------------------------------------------------------------ pop_best
    f = u.func('parsec_hbbuffer_pop_best'); ctx.functions_analysed.add(f.name)
    b = f.params[0]['n']
    loops = [n for n in f.ast_walk() if f.nodes[n]['k'] == 'for']
    okl = len(loops) == 1
    if okl:
        n = f.nodes[loops[0]]
        init = f.expr(n['init']); cond = f.expr(n['cond']); inc = f.expr(n['inc'])
        idx = init.ch[0].s if init.k == 'asg' else None
        okl = init.k == 'asg' and init.ch[1].cv == 0 and cond.k == 'bin' and cond.op == '<' and cond.ch[0].s == idx and cond.ch[1].s == '%s->size' % b \
            and inc.k == 'un' and inc.op in ('post++', 'pre++') and inc.ch[0].s == idx
    rb.expect(okl, 'pop_best:full-scan', f.where(), 'pop_best must examine every slot 0 .. size-1', note='pop_best scans all slots')
    sel = [s_ for s_ in f.stores() if s_.lhs.s == 'best_elt' and s_.rhs is not None and s_.rhs.s == 'candidate']
    sidx = [s_ for s_ in f.stores() if s_.lhs.s == 'best_idx' and s_.rhs is not None and okl and s_.rhs.s == idx]
    oks = len(sel) == 1 and len(sidx) == 1 and sel[0].block == sidx[0].block
    better = False
    if oks:
        # reached when best_elt == NULL or candidate > best_elt
        g = f.guards(sel[0].point)
        blk = None
        for bid in f.blocks:
            c = f.cond(bid)
            if c is None:
                continue
            a, pol = cond_atom(c)
            k = key_cmp(a)
            if k is not None:
                blk = (bid, k, pol)
        if blk is not None:
            bid, k, pol = blk
            better = k[1] == 'candidate' and k[2] == 'best_elt' and pol and f.edge_dominates(bid, True, sel[0].point) is not None
            # the only other way in is best_elt == NULL
            preds_ok = all((a.s in ('candidate',) and t) or True for a, t, _ in g)
            better = better and preds_ok
    rb.expect(oks and better, 'pop_best:strictly-better', sel[0].loc if sel else f.where(),
              'the best element is replaced (together with its slot index) only by a strictly higher candidate, or when there is none yet', note='best and its index updated together, only by a strictly higher candidate')
    cas = f.calls('parsec_atomic_cas_ptr')
    okc = len(cas) == 1 and cas[0].args[0].s == '&%s->items[best_idx]' % b and cas[0].args[1].s == 'best_elt' and cas[0].args[2].cv == 0
    rb.expect(okc, 'pop_best:cas', cas[0].loc if cas else f.where(), 'the element must be removed by CAS(&items[best_idx], best_elt, NULL) - the slot and the value that were observed',
              note='removal = CAS(observed slot, observed element, NULL)')
    # retry on CAS failure: the CAS is the condition of the do-while and failing (== 0) loops back
    dw = [n for n in f.ast_walk() if f.nodes[n]['k'] == 'do' and any(x.k == 'call' and x.n == 'parsec_atomic_cas_ptr' for x in f.expr(f.nodes[n]['cond']).walk())]   # do { } while(0) of macros are not retry loops
    okr = len(dw) == 1 and okc
    if okr:
        c = f.expr(f.nodes[dw[0]]['cond'])
        a, pol = cond_atom(c)
        okr = (a.k == 'call' and a.n == 'parsec_atomic_cas_ptr' and pol is False) and loops[0] in set(f.ast_walk(f.nodes[dw[0]]['body']))
    rb.expect(okr, 'pop_best:retry', cas[0].loc if cas else f.where(), 'a failed CAS must restart the scan (another thread took or replaced the element)', note='scan repeated when the CAS fails')
    rets = f.returns()
    rb.expect(len(rets) == 1 and rets[0].e is not None and rets[0].e.s == 'best_elt', 'pop_best:returns', rets[0].loc if rets else f.where(),
              'pop_best must return the element it removed', note='returns the removed element')
    brk = [n for n in f.ast_walk() if f.nodes[n]['k'] == 'break']
    okb = False
    for n in brk:
        par = gc.parent_map(f)
        ifs = [a for a in gc.ancestors(par, n) if f.nodes[a]['k'] == 'if']
        if ifs:
            a, pol = cond_atom(f.expr(f.nodes[ifs[0]]['cond']))
            if a.s == 'best_elt' and pol is False and not any(f.nodes[x]['k'] == 'for' for x in gc.ancestors(par, n) if x in loops):
                okb = True
    rb.expect(okb, 'pop_best:empty', f.where(), 'the scan loop may be left without an element only when a whole scan found none', note='NULL only after an empty scan')

    # ------------------------------------------------------------------ victim selection
    f = u.func('parsec_hbbuffer_push_all_by_priority'); ctx.functions_analysed.add(f.name)
    b = f.params[0]['n']
    init = [s_ for s_ in f.stores() if s_.lhs.s == 'best_context' and s_.rhs is not None and s_.rhs.s == 'topush' and f.in_loop(s_.block)]
    lower = []
    for bid in f.blocks:
        c = f.cond(bid)
        if c is None:
            continue
        a, pol = cond_atom(c)
        k = key_cmp(a)
        if k is not None:
            lower.append((k, pol, bid))
    upd = [s_ for s_ in f.stores() if s_.lhs.s == 'best_context' and s_.rhs is not None and s_.rhs.s == 'candidate']
    okv = len(lower) == 1 and len(upd) == 1 and bool(init)
    if okv:
        k, pol, bid = lower[0]
        # A_LOWER(candidate, best_context)  ==  best_context > candidate
        okv = k[1] == 'best_context' and k[2] == 'candidate' and pol and f.edge_dominates(bid, True, upd[0].point)
    rc.expect(okv, 'push_prio:victim-strictly-lower', upd[0].loc if upd else f.where(),
              'the victim must start as the element being pushed and be replaced only by a strictly lower candidate: an equal or higher element must never be evicted',
              note='victim = strictly lowest element below the pushed one')
    empt = [s_ for s_ in f.stores() if s_.lhs.s == 'best_index' and f.guarded_by(s_.point, lambda a, t: ('candidate' in a.s or '->items[' in a.s) and a.k != 'bin' and not t)]
    rc.expect(bool(empt), 'push_prio:empty-slot', empt[0].loc if empt else f.where(), 'an empty slot must be taken as soon as it is seen', note='empty slot preferred')
    cas = f.calls('parsec_atomic_cas_ptr')
    rc.expect(len(cas) == 1 and cas[0].args[0].s == '&%s->items[best_index]' % b and cas[0].args[1].s == 'best_context' and cas[0].args[2].s == 'topush', 'push_prio:cas',
              cas[0].loc if cas else f.where(), 'the slot must be claimed by CAS(&items[best_index], best_context, topush): exactly the observed victim is replaced',
              note='CAS(observed slot, observed victim, pushed element)')

    # ------------------------------------------------------------------ chopped element is a singleton
    # ring_chop repairs the neighbours only: the chopped element keeps its old next / prev (outside paranoid
    # builds).  The buffer code later uses a stored or refused element directly as a ring (ejected = best_context,
    # ring_merge(topush, ejected)), so every element taken off the ring must be made a singleton at once.
    rf = ctx.rule('R35.f', 'hbbuffer: an element chopped off the pushed ring is made a singleton before it is stored, merged or handed on', floor=3)
    for fn in ('parsec_hbbuffer_push_all', 'parsec_hbbuffer_push_all_by_priority'):
        f = u.func(fn); ctx.functions_analysed.add(f.name)
        chops = f.calls('parsec_list_item_ring_chop')
        if not chops:
            raise AnalysisBroken('%s no longer takes the elements off the ring with parsec_list_item_ring_chop' % fn)
        for c in chops:
            x = c.args[0]
            while x.k == 'cast':
                x = x.ch[0]
            def names(a, x=x):
                while a.k == 'cast':
                    a = a.ch[0]
                return a.s == x.s
            sing = [g for g in f.calls('parsec_list_item_singleton') if names(g.args[0]) and g.block == c.block and g.idx > c.idx]
            between = [e for e in f.block_events(c.block) if e.kind == 'call' and sing and c.idx < e.idx < sing[0].idx and any(names(a) for a in e.args)]
            rf.expect(bool(sing) and not between, '%s:chop-singleton:%s' % (fn, x.s), c.loc,
                      'the element taken off the ring by ring_chop(%s) keeps its old neighbours: it must be made a singleton (PARSEC_LIST_ITEM_SINGLETON) right away, '
                      'the eviction / overflow code uses stored and refused elements as rings and would drag the former neighbours along (tasks duplicated and lost)' % x.s,
                      note='ring_chop(%s) followed by PARSEC_LIST_ITEM_SINGLETON(%s)' % (x.s, x.s))

    # ------------------------------------------------------------------ maxheap
    um = ctx.extract('parsec/maxheap.c')
    f = um.func('heap_insert'); ctx.functions_analysed.add(f.name)
    heap = f.params[0]['n']; elem = f.params[1]['n']
    inc = [s_ for s_ in f.stores() if s_.lhs.s == '%s->size' % heap]
    rd.expect(len(inc) == 1 and inc[0].op == '++' and f.postdominates(inc[0].point, (f.entry, 0)), 'insert:count', inc[0].loc if inc else f.where(),
              'heap_insert must count the new element exactly once', note='size++ once on every path')
    up = []
    for bid in f.blocks:
        c = f.cond(bid)
        if c is None:
            continue
        for a in flat(c, '&&'):
            if a.k == 'bin' and a.op in ('>', '>=', '<', '<=') and 'priority' in a.ch[0].s and 'priority' in a.ch[1].s:
                up.append(a)
    rd.expect(len(up) == 1 and up[0].op == '>' and up[0].ch[0].s == '%s->priority' % elem and 'parents[' in up[0].ch[1].s, 'insert:bubble-strict', up[0].nid and f.loc(up[0].nid) if up else f.where(),
              'the new element must move up only past strictly lower parents (found %s)' % [x.s for x in up], note='bubble up while elem > parent (strict)')
    pr = [s_ for s_ in f.stores() if s_.lhs.s == '%s->priority' % heap]
    rd.expect(len(pr) == 1 and pr[0].rhs.s == '%s->top->priority' % heap and f.postdominates(pr[0].point, (f.entry, 0)), 'insert:priority', pr[0].loc if pr else f.where(),
              'after an insertion the heap priority must be the priority of its top', note='heap->priority = top priority')
    tp = [s_ for s_ in f.stores() if s_.lhs.s == '%s->top' % heap and s_.rhs is not None and s_.rhs.s == elem]
    rd.expect(len(tp) == 2 and any(f.guarded_by(s_.point, lambda a, t: t and a.k == 'bin' and a.op == '==' and 'top' in a.s and 'parent' in a.s) for s_ in tp), 'insert:top', f.where(),
              'the top must be replaced when the element bubbles past it', note='top updated when the element passes it')

    f = um.func('heap_remove'); ctx.functions_analysed.add(f.name)
    rets = f.returns()
    first = [s_ for s_ in f.stores() if s_.lhs.s == 'to_use' and s_.rhs is not None and s_.rhs.s == 'heap->top']
    rd.expect(len(rets) == 1 and rets[0].e.s == 'to_use' and len(first) == 1 and all(f.precedes(first[0], s_) for s_ in f.stores() if s_.lhs.s == 'heap->top'), 'remove:returns-top',
              rets[0].loc if rets else f.where(), 'heap_remove must return the element that was the top before any relinking', note='returns the old top')
    dec = [s_ for s_ in f.stores() if s_.lhs.s == 'heap->size']
    pr = [s_ for s_ in f.stores() if s_.lhs.s == 'heap->priority']
    rd.expect(len(dec) == 1 and dec[0].op == '--' and len(pr) == 1 and pr[0].rhs.s == 'heap->top->priority' and f.precedes(dec[0], pr[0]) or (len(dec) == 1 and len(pr) == 1 and dec[0].block == pr[0].block),
              'remove:count-priority', dec[0].loc if dec else f.where(), 'a heap that survives a removal must count one element less and take the priority of its new top', note='size-- and priority = top priority')
    # bubble-down directions
    par = gc.parent_map(f)
    dirs = []
    for n in f.ast_walk():
        if f.nodes[n]['k'] != 'if':
            continue
        c = f.expr(f.nodes[n]['cond'])
        parts = flat(c, '&&')
        if len(parts) != 3:
            continue
        nn, gt, sib = parts
        if not (nn.k == 'bin' and nn.op == '!=' and nn.ch[1].cv == 0 and gt.k == 'bin' and gt.op in ('>', '>=') and gt.ch[1].s == 'bubbler->priority'):
            continue
        child = nn.ch[0].s
        alt = flat(sib, '||')
        if len(alt) != 2 or gt.ch[0].s != '%s->priority' % child:
            continue
        sn, cmp_ = alt
        if not (sn.k == 'bin' and sn.op == '==' and sn.ch[1].cv == 0 and cmp_.k == 'bin' and cmp_.op in ('>', '>=') and cmp_.ch[0].s == '%s->priority' % child):
            continue
        dirs.append({'if': n, 'child': child, 'sib': sn.ch[0].s, 'vs_bubbler': gt.op, 'vs_sibling': cmp_.op, 'sib2': cmp_.ch[1].s})
    if not rd.expect(len(dirs) == 2 and {d['child'] for d in dirs} == {'prev', 'next'} and all(d['sib'] != d['child'] and d['sib2'] == '%s->priority' % d['sib'] for d in dirs),
                     'remove:directions', f.where(), 'bubble-down must have one branch per child, each testing child != NULL, child > bubbler and child against its sibling (found %d)' % len(dirs),
                     note='two bubble-down directions recognised'):
        return
    rd.expect(all(d['vs_bubbler'] == '>' for d in dirs), 'remove:child-strictly-higher', f.loc(dirs[0]['if']),
              'the replacement moves down only below a strictly higher child', note='child > bubbler (strict) in both directions')
    rd.expect(any(d['vs_sibling'] == '>=' for d in dirs), 'remove:tie-between-children', f.loc(dirs[0]['if']),
              'when both children are equal and higher than the replacement, one direction must accept the tie (>=): with two strict tests neither is taken and a lower element stays above them',
              note='a tie between the children is resolved (one direction uses >=)')
    for d in dirs:
        th = f.nodes[d['if']]['then']
        body = set(f.ast_walk(th))
        st = [(f.expr(x).ch[0].s, f.expr(x).ch[1].s, x) for x in body if f.nodes[x]['k'] == 'asg' and f.expr(x).k == 'asg' and f.expr(x).op == '=']
        c = d['child']; s = d['sib']
        cf = 'list_prev' if c == 'prev' else 'list_next'       # the field through which bubbler reaches the child
        sf = 'list_next' if c == 'prev' else 'list_prev'
        want = {('bubbler->super.list_prev', '%s->super.list_prev' % c), ('bubbler->super.list_next', '%s->super.list_next' % c),
                ('%s->super.%s' % (c, cf), 'bubbler'), ('%s->super.%s' % (c, sf), s), ('parent', c), ('heap->top', c),
                ('parent->super.list_next', c), ('parent->super.list_prev', c), ('is_next', '0' if c == 'prev' else '1')}
        got = {(l, r) for l, r, _ in st}
        okw = got == want
        # the child's links are copied to the bubbler before they are overwritten
        if okw:
            pos = {x: i for i, x in enumerate(f.ast_walk(th))}
            def at(l, r):
                return [pos[x] for ll, rr, x in st if ll == l and rr == r][0]
            okw = at('bubbler->super.list_prev', '%s->super.list_prev' % c) < at('%s->super.%s' % (c, cf), 'bubbler') and \
                at('bubbler->super.list_next', '%s->super.list_next' % c) < at('%s->super.%s' % (c, cf), 'bubbler') and \
                at('bubbler->super.list_prev', '%s->super.list_prev' % c) < at('%s->super.%s' % (c, sf), s) and \
                at('bubbler->super.list_next', '%s->super.list_next' % c) < at('%s->super.%s' % (c, sf), s)
        rd.expect(okw, 'remove:relink-%s' % c, f.loc(d['if']),
                  'bubbling toward %s must hang %s under the old parent (or make it the top), give the bubbler the children of %s, then put the bubbler and %s under %s (difference: %s)'
                  % (c, c, c, s, c, sorted(got ^ want)[:4]), note='relinking toward %s is consistent' % c)

    f = um.func('heap_split_and_steal'); ctx.functions_analysed.add(f.name)
    rets = [r for r in f.returns() if r.e is not None and r.e.cv != 0]
    rd.expect(bool(rets) and all(r.e.s == 'to_use' for r in rets), 'split:returns-top', f.where(), 'split_and_steal must return the old top', note='returns the old top')
    sz = [s_ for s_ in f.stores() if s_.lhs.s.endswith('->size') and s_.op == '=']
    by_block = {}
    for s_ in sz:
        by_block.setdefault(s_.block, []).append(s_)
    okz = len(by_block) == 2
    for blk, ss in by_block.items():
        if len(ss) != 2:
            okz = False; continue
        ss.sort(key=lambda e: e.idx)
        a, b2 = ss
        # second = size - first - 1
        want = aff.norm(b2.rhs)
        okz = okz and want == aff.Poly.atom('size') - aff.norm(a.lhs) - aff.Poly.const(1) and a.lhs.s != b2.lhs.s
    rd.expect(okz, 'split:conservation', sz[0].loc if sz else f.where(),
              'in both split cases the second heap must get size - |first heap| - 1 elements (the stolen top is the 1)', note='|heap| + |new| + 1 = old size in both cases')
    re2 = ctx.rule('R35.e', 'heap split: half sizes = subtree sizes of a complete tree (expressions evaluated from the AST for every size 3..65535)', floor=2)
    check_split_sizes(ctx, um, re2)
    prs = [s_ for s_ in f.stores() if s_.lhs.s.endswith('->priority')]
    okp = len(prs) >= 3 and all(s_.rhs.s == s_.lhs.s.replace('->priority', '->top->priority') for s_ in prs)
    rd.expect(okp, 'split:priorities', prs[0].loc if prs else f.where(), 'each heap must take the priority of its own top after a split', note='heap priorities = priorities of the tops')
    tops = [s_ for s_ in f.stores() if s_.lhs.s.endswith('->top') and s_.rhs is not None and 'heap->top->super.list_' in s_.rhs.s]
    sides = sorted((s_.lhs.s, s_.rhs.s.split('.')[-1]) for s_ in tops if f.guarded_by(s_.point, lambda a, t: True))
    rd.expect(('(*new_heap_ptr)->top', 'list_prev') in sides and ('heap->top', 'list_next') in sides, 'split:children', tops[0].loc if tops else f.where(),
              'the new heap takes the left subtree and the old heap keeps the right one (each exactly once)', note='left subtree -> new heap, right subtree stays')


# ---------------------------------------------------------------------------------------
# R35.e  heap_split_and_steal, sizes of the two halves.  The heap is a complete binary tree addressed by
#        the bits of its size, so after removing the top the left subtree (new heap) and the right
#        subtree (old heap) must carry exactly the node counts of the left / right subtree of a complete
#        tree with `size` nodes - insert and remove navigate from these counts.  The branch condition
#        and the four size expressions are pure unsigned arithmetic over `size`: they are evaluated
#        from the syntax tree (no program code is run) for every size 3 .. 65535 and compared with the
#        closed form.  hiBit() is evaluated from its own body in the same way.
# ---------------------------------------------------------------------------------------
M32 = 0xffffffff


def _ev(e, env):
    k = e.k
    if k == 'int':
        return e.cv & M32
    if k in ('ref', 'mem', 'idx'):
        if e.s in env:
            return env[e.s]
        raise KeyError(e.s)
    if k == 'un':
        v = _ev(e.ch[0], env)
        if e.op == '~':
            return (~v) & M32
        if e.op == '-':
            return (-v) & M32
        if e.op == '!':
            return 0 if v else 1
        raise KeyError('un ' + e.op)
    if k == 'bin':
        a = _ev(e.ch[0], env); b = _ev(e.ch[1], env)
        op = e.op
        if op == '+': return (a + b) & M32
        if op == '-': return (a - b) & M32
        if op == '*': return (a * b) & M32
        if op == '&': return a & b
        if op == '|': return a | b
        if op == '^': return a ^ b
        if op == '>>': return a >> b
        if op == '<<': return (a << b) & M32
        if op == '<': return int(a < b)
        if op == '>': return int(a > b)
        if op == '<=': return int(a <= b)
        if op == '>=': return int(a >= b)
        if op == '==': return int(a == b)
        if op == '!=': return int(a != b)
        if op == '&&': return int(bool(a) and bool(b))
        if op == '||': return int(bool(a) or bool(b))
        raise KeyError('bin ' + op)
    if k == 'call' and e.n in env.get('__fns__', {}):
        return env['__fns__'][e.n](*[_ev(a, env) for a in e.ch])
    raise KeyError(k)


def _straightline(fn):
    """evaluate a loop-free, branch-free function body: returns a python callable"""
    evs = [e for e in fn.events() if e.kind in ('store', 'ret')]
    evs.sort(key=lambda e: fn.line_of(e.nid) * 1000 + (e.idx or 0))
    pn = [p['n'] for p in fn.params]
    def run(*args):
        env = dict(zip(pn, [a & M32 for a in args]))
        for e in evs:
            if e.kind == 'ret':
                return _ev(e.e, env)
            v = _ev(e.rhs, env)
            if e.op == '=':
                env[e.lhs.s] = v
            else:
                cur = env[e.lhs.s]
                env[e.lhs.s] = _ev_op(e.op[:-1], cur, v)
        raise KeyError('no return')
    return run


def _ev_op(op, a, b):
    return {'|': a | b, '&': a & b, '+': (a + b) & M32, '-': (a - b) & M32, '>>': a >> b, '<<': (a << b) & M32, '^': a ^ b}[op]


def complete_tree_halves(n):
    """(left, right) subtree sizes of a complete binary tree with n >= 1 nodes"""
    h = n.bit_length() - 1                  # levels above the last one are full: 2^h - 1 nodes
    last = n - ((1 << h) - 1)
    half = (1 << h) >> 1
    left = (half - 1 if h else 0) + min(last, half)
    right = (half - 1 if h else 0) + max(0, last - half)
    return left, right


def check_split_sizes(ctx, um, rule):
    hb = um.func('hiBit')
    f = um.func('heap_split_and_steal')
    ctx.functions_analysed.update([hb.name])
    if len(hb.blocks) > 3:
        raise AnalysisBroken('hiBit is no longer straight-line code')
    hib = _straightline(hb)
    okh = all(hib(n) == (1 << (n.bit_length() - 1)) for n in list(range(1, 5000)) + [65535, 65536, 1 << 20, (1 << 31) - 1])
    rule.expect(okh, 'split:hiBit', hb.where(), 'hiBit(n) must return the highest power of two not above n', note='hiBit = highest power of two <= n (evaluated for 1..4999 and large values)')
    sz = [s_ for s_ in f.stores() if s_.lhs.s.endswith('->size') and s_.op == '=']
    blocks = sorted({s_.block for s_ in sz})
    # the branch that selects between the two blocks
    sel = None
    for b in f.blocks:
        c = f.cond(b)
        if c is None:
            continue
        tgt = {lab: s for s, lab in f.succs(b) if isinstance(lab, bool)}
        if len(blocks) == 2 and set(tgt.values()) == set(blocks):
            sel = (b, c, tgt)
    if sel is None or len(blocks) != 2:
        raise AnalysisBroken('heap_split_and_steal: the branch selecting the two size computations was not recognised')
    b, cond, tgt = sel
    defs = {s_.lhs.s: s_.rhs for s_ in f.events() if s_.kind == 'store' and s_.lhs.k == 'ref' and s_.rhs is not None and f.dominates(s_.point, (b, 0)) and s_.lhs.s in ('size', 'highBit', 'twoBit', 'lastPos')}
    order = [s_ for s_ in f.events() if s_.kind == 'store' and s_.lhs.k == 'ref' and s_.rhs is not None and (s_.block == b or f.dominates(s_.point, (b, 0)))]
    order.sort(key=lambda e: f.line_of(e.nid) * 1000 + (e.idx or 0))
    bad = None
    try:
        for n in range(3, 65536):
            env = {'heap->size': n, '__fns__': {'hiBit': hib}}
            for s_ in order:
                try:
                    env[s_.lhs.s] = _ev(s_.rhs, env)
                except KeyError:
                    pass
            taken = tgt[bool(_ev(cond, env))]
            for s_ in sorted([x for x in sz if x.block == taken], key=lambda e: e.idx):
                env[s_.lhs.s] = _ev(s_.rhs, env)
            left, right = complete_tree_halves(n)
            got_l = env.get('(*new_heap_ptr)->size'); got_r = env.get('heap->size')
            if (got_l, got_r) != (left, right):
                bad = (n, got_l, got_r, left, right)
                break
    except KeyError as ex:
        raise AnalysisBroken('heap_split_and_steal: size arithmetic uses a construct the evaluator does not know (%s)' % ex)
    rule.expect(bad is None, 'split:half-sizes', f.loc(f.blocks[b]['cond']),
                'for a heap of %s nodes the split gives the left half %s and the right half %s nodes; the left / right subtrees of a complete tree of that size have %s / %s: '
                'insert and remove navigate from these counts and then lose or duplicate a task' % (bad or (0, 0, 0, 0, 0)),
                note='half sizes equal the subtree sizes of a complete tree, for every size 3 .. 65535')
