"""C39 — argument-vector utilities are consistent (utils/argv.c) — clause level, insertion / deletion only.

"insertion and deletion change exactly the addressed positions" has a part that is visible in the shape of
argv.c: the three functions are index arithmetic over a NULL-terminated array, and the index expressions of
the free loop, the shift loop, the terminator, the reallocation and the reported count must agree with each
other in affine normal form.

R39.a  parsec_argv_delete: entries are freed from `start` while below BOTH the vector's length and
       start + n; the suffix is moved down by exactly n, over suffix_count = max(count - (start+n), 0) entries;
       the terminator is stored at the index where the shift loop stopped; and the amount taken from *argc is the
       number of entries that left the vector (length before - terminator index) - not the requested n, which
       may exceed what is there.
R39.b  parsec_argv_insert / parsec_argv_insert_element: the reallocation makes room for old + new + 1 pointers
       before anything is moved; the suffix (old length - start entries) is moved up by exactly the number of new
       entries, from the last one down (the ranges overlap); the terminator lands at old + new; the new entries
       are written to start .. start+new-1 from source[0 ..], after the suffix was moved.
R39.c  parsec_argv_join / parsec_argv_join_range (siblings): the buffer holds sum(strlen(piece) + 1) bytes, the
       terminator takes the last one (str[--len] = 0) and the fill loop writes exactly str[0 .. len-1], one byte
       per iteration - the joined string, its delimiters and its terminator fit the allocation exactly
       (a bounded-write clause, necessary for "join gives the original string back").
R39.d  parsec_argv_split_inter: every variable-index write into the fixed scratch buffer (and the strncpy that fills
       it) is dominated by `length <= capacity - 1`, capacity read from the declared array type; the heap copy of a
       long piece is malloc(length + 1) with the terminator at [length]; both copies take exactly `length` bytes from
       the start of the piece; split / split_with_empty differ only in the include_empty flag (0 / 1).
R39.e  parsec_argv_count (the "length" every other rule relies on): a counter from 0 and a cursor from the argument
       advance together, once per iteration, while the cursor's entry is non-NULL; the counter is what is returned.
Not decided: split / join round trips as values and command-line parsing.
"""
from sa import aff
from sa.facts import AnalysisBroken, cond_atom

U = 'parsec/utils/argv.c'
P = aff.Poly


def _for_loops(f):
    out = []
    for n in f.ast_walk():
        nd = f.nodes[n]
        if nd['k'] == 'for':
            out.append({'nid': n, 'init': f.expr(nd['init']), 'cond': f.expr(nd['cond']), 'inc': f.expr(nd['inc']), 'body': set(f.ast_walk(nd['body']))})
    return out


def _flat(e, op):
    if e.k == 'bin' and e.op == op:
        return _flat(e.ch[0], op) + _flat(e.ch[1], op)
    return [e]


def _upper_bounds(cond, var, env=None):
    """conjuncts `var < B` -> [Poly(B)]; anything else -> None"""
    out = []
    for a in _flat(cond, '&&'):
        if a.k == 'bin' and a.op == '<' and a.ch[0].s == var:
            out.append(aff.norm(a.ch[1], env))
        else:
            return None
    return out


def _idx(e):
    """(base rendering, index E) of an element access"""
    if e.k == 'idx':
        return '(%s)' % e.ch[0].s if e.ch[0].k == 'un' else e.ch[0].s, e.ch[1]
    return None, None


def run(ctx):
    ctx.explanation = ('Clause level, insertion and deletion only: the index expressions of parsec_argv_delete (free range, shift distance and extent, terminator, amount taken from *argc) '
                       'and of parsec_argv_insert / parsec_argv_insert_element (room reallocated, suffix moved up by the number of new entries from the last one down, terminator, '
                       'positions written) agree with one another in affine normal form: necessary for "change exactly the addressed positions"; parsec_argv_join / join_range allocate sum(strlen + 1) bytes, '
                       'terminate in the last one and fill exactly the bytes before it (bounded write).')
    ctx.not_decided = 'split / join round trips as values, command-line parsing; argv_delete / insert on vectors that are not NULL-terminated.'
    u = ctx.extract(U)
    ra = ctx.rule('R39.a', 'parsec_argv_delete: free range, shift, terminator and reported count agree', floor=5)
    rb = ctx.rule('R39.b', 'parsec_argv_insert[_element]: room, suffix shift (descending), terminator and written positions agree', floor=10)

    rc = ctx.rule('R39.c', 'parsec_argv_join[_range]: allocation = sum(strlen + 1), terminator in its last byte, fill bounded by it', floor=8)
    check_join(ctx, u, rc)
    re_ = ctx.rule('R39.e', 'parsec_argv_count: counter from 0 and cursor advance together while the entry is non-NULL; counter returned', floor=4)
    check_count(ctx, u, re_)
    rd = ctx.rule('R39.d', 'parsec_argv_split_inter: scratch-buffer writes bounded by its declared size, heap copy sized length + 1, exact copies; wrappers', floor=8)
    check_split(ctx, u, rd)

    # ------------------------------------------------------------------ delete
    f = u.func('parsec_argv_delete'); ctx.functions_analysed.add(f.name)
    argc, argv, start, num = [p['n'] for p in f.params]
    vec = '(*%s)' % argv
    cnt = [s_ for s_ in f.stores() if s_.rhs is not None and s_.rhs.k == 'call' and s_.rhs.n == 'parsec_argv_count' and s_.rhs.ch[0].s == '*%s' % argv]
    if len(cnt) != 1 or cnt[0].lhs.k != 'ref':
        raise AnalysisBroken('parsec_argv_delete: the length of the vector (parsec_argv_count(*argv)) is no longer taken once into a local')
    count = cnt[0].lhs.s
    loops = _for_loops(f)
    frees = f.calls('free')
    floop = [l for l in loops if any(c.e.nid in l['body'] or c.nid in l['body'] for c in frees)] if frees else []
    sh = [s_ for s_ in f.stores() if _idx(s_.lhs)[0] == vec and s_.rhs is not None and _idx(s_.rhs)[0] == vec]
    term = [s_ for s_ in f.stores() if _idx(s_.lhs)[0] == vec and s_.rhs is not None and s_.rhs.cv == 0 and s_.rhs.k != 'idx']
    dec = [s_ for s_ in f.stores() if s_.lhs.s in ('*%s' % argc, '(*%s)' % argc)]
    if len(frees) != 1 or len(floop) != 1 or len(sh) != 1 or len(term) != 1 or len(dec) != 1:
        raise AnalysisBroken('parsec_argv_delete: expected one free loop, one shift store, one terminator and one update of *argc (found %d/%d/%d/%d/%d)'
                             % (len(frees), len(floop), len(sh), len(term), len(dec)))
    # a clamp of the request itself (num = count - start when it exceeds it) is the other way to write a correct function
    clamp = [s_ for s_ in f.stores() if s_.lhs.s == num]
    clamped = False
    if clamp:
        ok = len(clamp) == 1 and clamp[0].rhs is not None and clamp[0].op == '=' and aff.norm(clamp[0].rhs) == P.atom(count) - P.atom(start)
        if ok:
            ok = False
            for a, t, _ in f.guards(clamp[0].point):
                if a.k == 'bin' and a.op in ('>', '>=', '<', '<='):
                    l, r = aff.norm(a.ch[0]), aff.norm(a.ch[1])
                    d = (l - r) if a.op in ('>', '>=') else (r - l)
                    if not t:
                        continue
                    if d == P.atom(num) + P.atom(start) - P.atom(count):
                        ok = True
        if not ok:
            raise AnalysisBroken('parsec_argv_delete assigns its parameter %s in a way this rule does not know' % num)
        clamped = all(f.precedes(clamp[0], x) or f.ordered(clamp[0], x) for x in (sh[0], term[0], dec[0]))
    fl = floop[0]
    iv = fl['init'].ch[0].s if fl['init'].k == 'asg' else None
    ub = _upper_bounds(fl['cond'], iv) if iv else None
    okf = iv is not None and aff.norm(fl['init'].ch[1]) == P.atom(start) and ub is not None and fl['inc'].k == 'un' and fl['inc'].op in ('pre++', 'post++') \
        and frees[0].args[0].s == '%s[%s]' % (vec, iv)
    ra.expect(okf and P.atom(count) in ub, 'delete:free-below-length', frees[0].loc,
              'entries must be freed from start upward and only below the length of the vector (a request reaching past the end must not free the terminator or beyond)',
              note='free loop starts at start and stays below the length')
    ra.expect(okf and (P.atom(start) + P.atom(num)) in ub, 'delete:free-below-request', frees[0].loc,
              'entries must be freed only below start + n: the entries after the deleted range are kept', note='free loop stays below start + n')
    # shift
    sl = [l for l in loops if sh[0].nid in l['body'] or getattr(sh[0], 'e', None) is not None and sh[0].e.nid in l['body']]
    if len(sl) != 1:
        raise AnalysisBroken('parsec_argv_delete: the shift store is not in exactly one for loop')
    sl = sl[0]
    sv = sl['init'].ch[0].s if sl['init'].k == 'asg' else None
    suf = [s_ for s_ in f.stores() if s_.lhs.k == 'ref' and s_.rhs is not None and s_.op == '=' and aff.norm(s_.rhs) == P.atom(count) - P.atom(start) - P.atom(num)]
    okshape = sv is not None and len(suf) == 1
    di, si = _idx(sh[0].lhs)[1], _idx(sh[0].rhs)[1]
    ra.expect(okshape and aff.norm(di) == P.atom(sv) and aff.norm(si) - aff.norm(di) == P.atom(num), 'delete:shift-distance', sh[0].loc,
              'the suffix must be moved down by exactly the number of deleted entries: argv[i] = argv[i + n]', note='suffix moved down by n')
    okext = False
    if okshape:
        sc = suf[0].lhs.s
        ub2 = _upper_bounds(sl['cond'], sv)
        zero = [s_ for s_ in f.stores() if s_.lhs.s == sc and s_.rhs is not None and s_.rhs.cv == 0 and s_.op == '=']
        okz = clamped or (len(zero) == 1 and any(t and a.k == 'bin' and a.op == '<' and a.ch[0].s == sc and a.ch[1].cv == 0 for a, t, _ in f.guards(zero[0].point)) and f.precedes(suf[0], zero[0]))
        okext = aff.norm(sl['init'].ch[1]) == P.atom(start) and ub2 == [P.atom(start) + P.atom(sc)] and okz and sl['inc'].k == 'un' and sl['inc'].op in ('pre++', 'post++')
    ra.expect(okext, 'delete:shift-extent', sh[0].loc,
              'the shift must cover start .. start + max(count - (start+n), 0) - 1 in increasing order (the ranges overlap)', note='shift covers the max(count-(start+n),0) suffix entries, ascending')
    ti = _idx(term[0].lhs)[1]
    okt = okshape and ti.s == sv and any((not t) and a.nid == sl['cond'].nid or (not t) and a.s == sl['cond'].s for a, t, _ in f.guards(term[0].point))
    ra.expect(okt, 'delete:terminator', term[0].loc, 'the terminator must be stored where the shift loop stopped (the new length)', note='NULL stored at the index where the shift stopped')
    d = dec[0]
    amount = None
    if d.op == '-=':
        amount = aff.norm(d.rhs)
    elif d.op == '=' and d.rhs is not None:
        amount = aff.norm(d.lhs) - aff.norm(d.rhs)
        if amount == aff.norm(d.lhs) - aff.norm(ti):          # *argc = <new length>
            amount = P.atom(count) - aff.norm(ti)
    if amount is None:
        raise AnalysisBroken('parsec_argv_delete updates *argc in a form this rule does not know (%s)' % d.op)
    new_len = [aff.norm(ti)]
    if okshape:
        new_len.append(P.atom(start) + P.atom(suf[0].lhs.s))
    okd = any(amount == P.atom(count) - nl for nl in new_len) or (clamped and amount == P.atom(num))
    ra.expect(okd and f.ordered(term[0], d) if okd else False, 'delete:count', d.loc,
              '*argc must be reduced by the number of entries that left the vector (length before - new length); it is reduced by %r, which differs when start + %s reaches past the end '
              '(3 entries, start 2, n 5: one entry leaves, *argc becomes -2)' % (amount, num), note='*argc reduced by length before - new length')

    # ------------------------------------------------------------------ insert, insert_element
    for fn, multi in (('parsec_argv_insert', True), ('parsec_argv_insert_element', False)):
        f = u.func(fn); ctx.functions_analysed.add(f.name)
        target, st_, source = [p['n'] for p in f.params]
        vec = '(*%s)' % target
        env = {}
        tc = [s_ for s_ in f.stores() if s_.rhs is not None and s_.rhs.k == 'call' and s_.rhs.n == 'parsec_argv_count' and s_.rhs.ch[0].s == '*%s' % target]
        if len(tc) != 1:
            raise AnalysisBroken('%s: the length of the target is no longer taken once' % fn)
        TC = P.atom(tc[0].lhs.s)
        if multi:
            scs = [s_ for s_ in f.stores() if s_.rhs is not None and s_.rhs.k == 'call' and s_.rhs.n == 'parsec_argv_count' and s_.rhs.ch[0].s == source]
            if len(scs) != 1:
                raise AnalysisBroken('%s: the length of the source is no longer taken once' % fn)
            NEW = P.atom(scs[0].lhs.s)
        else:
            NEW = P.const(1)
        ST = P.atom(st_)
        loops = _for_loops(f)
        re_ = [c for c in f.calls('realloc') if c.args[0].s == '*%s' % target]
        sh = [s_ for s_ in f.stores() if _idx(s_.lhs)[0] == vec and s_.rhs is not None and _idx(s_.rhs)[0] == vec]
        term = [s_ for s_ in f.stores() if _idx(s_.lhs)[0] == vec and s_.rhs is not None and s_.rhs.cv == 0 and s_.rhs.k != 'idx']
        cp = [s_ for s_ in f.stores() if _idx(s_.lhs)[0] == vec and s_.rhs is not None and s_.rhs.k == 'call' and s_.rhs.n == 'strdup']
        if len(re_) != 1 or len(sh) != 1 or len(term) != 1 or len(cp) != 1:
            raise AnalysisBroken('%s: expected one realloc, one shift store, one terminator, one strdup store (found %d/%d/%d/%d)' % (fn, len(re_), len(sh), len(term), len(cp)))
        sufs = [s_ for s_ in f.stores() if s_.lhs.k == 'ref' and s_.rhs is not None and s_.op == '=' and aff.norm(s_.rhs) == TC - ST]
        if len(sufs) != 1:
            raise AnalysisBroken('%s: the suffix length (target length - start) is no longer computed once' % fn)
        SC = sufs[0].lhs.s
        env = {SC: TC - ST}
        psz = 8
        rb.expect(aff.norm(re_[0].args[1]) == (TC + NEW + P.const(1)) * P.const(psz), '%s:room' % fn, re_[0].loc,
                  'the vector must be reallocated to old length + new entries + 1 pointers (found %r bytes)' % aff.norm(re_[0].args[1]), note='room for old + new + 1 pointers')
        rb.expect(f.ordered(re_[0], sh[0]) and f.ordered(re_[0], term[0]) and f.ordered(re_[0], cp[0]), '%s:room-first' % fn, re_[0].loc,
                  'the reallocation must come before every write beyond the old length', note='reallocated before anything is moved')
        sl = [l for l in loops if sh[0].nid in l['body'] or getattr(sh[0], 'e', None) is not None and sh[0].e.nid in l['body']]
        if len(sl) != 1:
            raise AnalysisBroken('%s: the shift store is not in exactly one for loop' % fn)
        sl = sl[0]
        sv = sl['init'].ch[0].s if sl['init'].k == 'asg' else None
        di, si = _idx(sh[0].lhs)[1], _idx(sh[0].rhs)[1]
        rb.expect(sv is not None and aff.norm(si) == ST + P.atom(sv) and aff.norm(di) - aff.norm(si) == NEW, '%s:shift-distance' % fn, sh[0].loc,
                  'the suffix must be moved up by exactly the number of new entries: target[start + new + i] = target[start + i]', note='suffix moved up by the number of new entries')
        c = sl['cond']
        okdesc = sv is not None and aff.norm(sl['init'].ch[1], env) == TC - ST - P.const(1) and sl['inc'].k == 'un' and sl['inc'].op in ('pre--', 'post--') \
            and c.k == 'bin' and ((c.op == '>=' and c.ch[0].s == sv and c.ch[1].cv == 0) or (c.op == '>' and c.ch[0].s == sv and aff.norm(c.ch[1]) == P.const(-1)))
        rb.expect(okdesc, '%s:shift-descending' % fn, sh[0].loc,
                  'the suffix must be moved from its last entry (old length - start - 1) down to 0: source and destination overlap, an ascending copy overwrites entries it has not moved yet',
                  note='suffix moved from the last entry down to the first, all old length - start entries')
        rb.expect(aff.norm(_idx(term[0].lhs)[1], env) == TC + NEW and f.ordered(sh[0], term[0]) or aff.norm(_idx(term[0].lhs)[1], env) == TC + NEW and not f.ordered(term[0], sh[0]), '%s:terminator' % fn, term[0].loc,
                  'the terminator must be stored at old length + new entries (found %r)' % aff.norm(_idx(term[0].lhs)[1], env), note='NULL stored at old + new')
        ci = _idx(cp[0].lhs)[1]
        if multi:
            cl = [l for l in loops if cp[0].nid in l['body'] or getattr(cp[0], 'e', None) is not None and cp[0].e.nid in l['body']]
            okc = len(cl) == 1
            if okc:
                cl = cl[0]
                cv = cl['init'].ch[0].s if cl['init'].k == 'asg' else None
                srcarg = cp[0].rhs.ch[0]
                okc = cv is not None and aff.norm(cl['init'].ch[1]) == ST and _upper_bounds(cl['cond'], cv) == [ST + NEW] and cl['inc'].k == 'un' and cl['inc'].op in ('pre++', 'post++') \
                    and aff.norm(ci) == P.atom(cv) and _idx(srcarg)[0] == source and aff.norm(_idx(srcarg)[1]) == P.atom(cv) - ST
        else:
            okc = aff.norm(ci) == ST and cp[0].rhs.ch[0].s == source
        rb.expect(okc, '%s:written-positions' % fn, cp[0].loc, 'the new entries must be copies of source[0 ..] written to start .. start + new - 1', note='positions start .. start+new-1 written from source[0 ..]')
        rb.expect(f.ordered(sh[0], cp[0]) or not f.ordered(cp[0], sh[0]) and f.precedes(sh[0], cp[0]), '%s:shift-before-write' % fn, cp[0].loc,
                  'the suffix must be moved away before the new entries overwrite its old positions', note='suffix moved before the new entries are written')


def check_join(ctx, u, rc):
    for fn in ('parsec_argv_join', 'parsec_argv_join_range'):
        f = u.func(fn); ctx.functions_analysed.add(f.name)
        acc = [s_ for s_ in f.stores() if s_.op == '+=' and s_.lhs.k == 'ref' and any(c.n == 'strlen' for c in s_.rhs.walk() if c.k == 'call')]
        if len(acc) != 1:
            raise AnalysisBroken('%s: the length is no longer accumulated by one `len += strlen(piece) + ...` statement' % fn)
        ln = acc[0].lhs.s
        piece = [c for c in acc[0].rhs.walk() if c.k == 'call' and c.n == 'strlen'][0].ch[0]
        zero = [s_ for s_ in f.stores(ln) if s_.op == '=' and s_.rhs is not None and s_.rhs.cv == 0]
        other = [s_ for s_ in f.stores(ln) if s_ not in zero and s_ is not acc[0] and s_.op not in ('--',)]
        rc.expect(aff.norm(acc[0].rhs) == P.atom('strlen(%s)' % aff.norm(piece)) + P.const(1) and bool(f.in_loop(acc[0].block)) and len(zero) == 1 and f.precedes(zero[0], acc[0]) and not other,
                  '%s:length' % fn, acc[0].loc, 'the buffer length must be the sum of strlen(piece) + 1 over the pieces, starting from 0 (one byte per delimiter, the last one for the terminator)',
                  note='len = sum(strlen(piece) + 1), from 0')
        al = [c for c in f.calls('malloc')]
        buf = [s_ for s_ in f.stores() if s_.rhs is not None and any(c.k == 'call' and c.n == 'malloc' for c in s_.rhs.walk())]
        if len(al) != 1 or len(buf) != 1:
            raise AnalysisBroken('%s: expected one malloc stored into the result' % fn)
        b = buf[0].lhs.s
        rc.expect(aff.norm(al[0].args[0]) == P.atom(ln) and f.ordered(acc[0], al[0]), '%s:allocation' % fn, al[0].loc, 'the buffer must be allocated with the accumulated length (found %s)' % al[0].args[0].s,
                  note='malloc(len) after the accumulation')
        wr = [s_ for s_ in f.stores() if s_.lhs.k == 'idx' and s_.lhs.ch[0].s == b]
        term = [s_ for s_ in wr if s_.rhs is not None and s_.rhs.cv == 0 and s_.lhs.ch[1].k == 'un' and s_.lhs.ch[1].op == 'pre--' and s_.lhs.ch[1].ch[0].s == ln]
        fill = [s_ for s_ in wr if s_ not in term]
        okt = len(term) == 1 and f.ordered(al[0], term[0]) and all(f.ordered(term[0], s_) for s_ in fill) and len([s_ for s_ in f.stores(ln) if s_.op == '--']) == 1
        rc.expect(okt, '%s:terminator' % fn, term[0].loc if term else f.where(), 'the terminator must take the last byte of the allocation (str[--len] = 0) before the fill loop, which then stops one byte earlier',
                  note='str[--len] = 0 before the fill')
        loops = [l for l in _for_loops(f) if any(s_.nid in l['body'] for s_ in fill)]
        okl = len(loops) == 1 and len(fill) == 2
        if okl:
            l = loops[0]
            iv = l['init'].ch[0].s if l['init'].k == 'asg' else (l['init'].ch[-1].ch[0].s if l['init'].k == 'bin' else None)
            okl = iv is not None and aff.norm(l['init'].ch[1]) == P.const(0) and _upper_bounds(l['cond'], iv) == [P.atom(ln)] and l['inc'].k == 'un' and l['inc'].op in ('pre++', 'post++') and l['inc'].ch[0].s == iv \
                and all(s_.lhs.ch[1].s == iv and s_.nid in l['body'] for s_ in fill) and not [s_ for s_ in f.stores(iv) if s_.nid in l['body']] \
                and fill[0].block != fill[1].block
        rc.expect(okl, '%s:fill' % fn, fill[0].loc if fill else f.where(), 'the fill loop must write exactly str[i] for i = 0 .. len-1, one byte per iteration (a delimiter or the next character)',
                  note='fill writes str[0 .. len-1], one byte per iteration')


def _le_bound(a, t, var):
    """guard (a, truth) -> largest value of var it admits, or None"""
    if a.k != 'bin' or a.op not in ('<', '<=', '>', '>='):
        return None
    l, r = a.ch
    op = a.op
    if r.s == var and l.s != var:
        l, r = r, l
        op = {'<': '>', '>': '<', '<=': '>=', '>=': '<='}[op]
    if l.s != var:
        return None
    c = aff.norm(r)
    if not c.is_const():
        return None
    c = c.const_value()
    if not t:
        op = {'<': '>=', '>': '<=', '<=': '>', '>=': '<'}[op]
    if op == '<':
        return c - 1
    if op == '<=':
        return c
    return None


def check_split(ctx, u, rd):
    import re
    f = u.func('parsec_argv_split_inter'); ctx.functions_analysed.add(f.name)
    fixed = {}
    for s_ in f.stores():
        if s_.lhs.k == 'idx' and s_.lhs.ch[0].ty:
            m = re.match(r'char\[(\d+)\]$', s_.lhs.ch[0].ty)
            if m:
                fixed[s_.lhs.ch[0].s] = int(m.group(1))
    if len(fixed) != 1:
        raise AnalysisBroken('parsec_argv_split_inter: expected one fixed-size scratch buffer, found %s' % sorted(fixed))
    buf, cap = list(fixed.items())[0]
    nvar = 0
    for s_ in f.stores():
        if s_.lhs.k != 'idx' or s_.lhs.ch[0].s != buf:
            continue
        ix = s_.lhs.ch[1]
        n = aff.norm(ix)
        if n.is_const():
            rd.expect(0 <= n.const_value() < cap, 'split:fixed-write:%s' % ix.s, s_.loc, 'write at %s[%s] outside the %d bytes of the buffer' % (buf, ix.s, cap), note='constant index inside the buffer')
            continue
        nvar += 1
        bounds = [b for b in (_le_bound(a, t, ix.s) for a, t, _ in f.guards(s_.point)) if b is not None]
        rd.expect(ix.k == 'ref' and bool(bounds) and min(bounds) <= cap - 1, 'split:fixed-write:%s' % ix.s, s_.loc,
                  '%s[%s] is written without a dominating test that %s <= %d (the buffer has %d bytes): a longer piece overruns the stack buffer' % (buf, ix.s, ix.s, cap - 1, cap),
                  note='%s[%s] written only under %s <= %d' % (buf, ix.s, ix.s, cap - 1))
    if nvar < 1:
        raise AnalysisBroken('parsec_argv_split_inter: no variable-index write into the scratch buffer')
    cps = f.calls('strncpy')
    if len(cps) != 2:
        raise AnalysisBroken('parsec_argv_split_inter: expected the two strncpy copies (scratch and heap), found %d' % len(cps))
    src = f.params[0]['n']
    for c in cps:
        dst, frm, ln = c.args
        if dst.s == buf:
            bounds = [b for b in (_le_bound(a, t, ln.s) for a, t, _ in f.guards(c.point)) if b is not None]
            rd.expect(bool(bounds) and min(bounds) <= cap - 1, 'split:copy-fixed', c.loc, 'strncpy into the %d-byte buffer with a length not known to be <= %d' % (cap, cap - 1), note='copy into the scratch buffer only under length <= %d' % (cap - 1))
        else:
            al = [s_ for s_ in f.stores(dst.s) if s_.rhs is not None and any(x.k == 'call' and x.n == 'malloc' for x in s_.rhs.walk())]
            okm = len(al) == 1 and f.precedes(al[0], c)
            if okm:
                mc = [x for x in al[0].rhs.walk() if x.k == 'call' and x.n == 'malloc'][0]
                okm = aff.norm(mc.ch[0]) == aff.norm(ln) + P.const(1)
            rd.expect(okm, 'split:copy-heap', c.loc, 'the heap copy of a long piece needs malloc(length + 1): the copy and its terminator', note='heap copy: malloc(length + 1)')
        term = [s_ for s_ in f.stores() if s_.lhs.k == 'idx' and s_.lhs.ch[0].s == dst.s and s_.rhs is not None and s_.rhs.cv == 0 and s_.lhs.ch[1].s == ln.s and s_.block == c.block and s_.idx > c.idx]
        rd.expect(frm.s == src and len(term) == 1, 'split:copy-exact:%s' % dst.s, c.loc, 'the piece must be copied from its start with exactly its length and terminated at [length]', note='%s: length bytes from the start of the piece, terminator at [length]' % dst.s)
    for fn, flag in (('parsec_argv_split', 0), ('parsec_argv_split_with_empty', 1)):
        g = u.func(fn); ctx.functions_analysed.add(g.name)
        cs = g.calls('parsec_argv_split_inter')
        ok = len(cs) == 1 and [a.s for a in cs[0].args[:2]] == [p_['n'] for p_ in g.params[:2]] and cs[0].args[2].cv == flag and len(g.returns()) == 1 and g.returns()[0].e is not None and g.returns()[0].e.k == 'call'
        rd.expect(ok, 'split:wrapper:%s' % fn, g.where(), '%s must return split_inter(string, delimiter, %d)' % (fn, flag), note='%s = split_inter(.., .., %d)' % (fn, flag))


def check_count(ctx, u, re_):
    f = u.func('parsec_argv_count'); ctx.functions_analysed.add(f.name)
    arg = f.params[0]['n']
    rets = [r for r in f.returns() if r.e is not None and r.e.cv is None]
    if len(rets) != 1 or rets[0].e.k != 'ref':
        raise AnalysisBroken('parsec_argv_count no longer returns one counter variable')
    cn = rets[0].e.s
    cur = [s_ for s_ in f.stores() if s_.op == '=' and s_.rhs is not None and s_.rhs.s == arg and s_.lhs.k == 'ref']
    init = [s_ for s_ in f.stores(cn) if s_.op == '=' and s_.rhs is not None and s_.rhs.cv == 0]
    ok = len(cur) == 1 and len(init) == 1 and not f.in_loop(init[0].block) and not f.in_loop(cur[0].block)
    re_.expect(ok, 'count:init', (init or cur or rets)[0].loc, 'the counter must start at 0 and the cursor at the vector, outside the loop', note='counter = 0, cursor = argv before the loop')
    if not ok:
        return
    cv = cur[0].lhs.s
    conds = [(b, f.cond(b)) for b in f.blocks if f.cond(b) is not None and f.in_loop(b)]
    okc = len(conds) == 1
    if okc:
        a, pol = cond_atom(conds[0][1])
        okc = a.k == 'un' and a.op == '*' and a.ch[0].s == cv and pol
    re_.expect(okc, 'count:while-entry', f.where(), 'the loop must continue exactly while the entry under the cursor is non-NULL', note='loop while *cursor')
    incs = [s_ for s_ in f.stores(cn) if s_ is not init[0]]
    adv = [s_ for s_ in f.stores(cv) if s_ is not cur[0]]
    oki = len(incs) == 1 and len(adv) == 1 and incs[0].op == '++' and adv[0].op == '++' and incs[0].block == adv[0].block and bool(f.in_loop(incs[0].block))
    re_.expect(oki, 'count:lockstep', (incs or adv or rets)[0].loc, 'counter and cursor must each advance by one, together, once per iteration', note='counter++ and cursor++ in the same step')
    okr = okc and any(a.s == cond_atom(conds[0][1])[0].s and t != cond_atom(conds[0][1])[1] for a, t, _ in f.guards(rets[0].point))
    re_.expect(okr, 'count:returns-counter', rets[0].loc, 'the counter must be returned when the NULL entry is reached', note='returns the counter at the NULL entry')
