"""C38 — runtime (MCA) parameters resolve by documented precedence (utils/mca_param*.c)."""
from sa import pathq
from sa.facts import AnalysisBroken, cond_atom

U1 = 'parsec/utils/mca_param.c'
U2 = 'parsec/utils/mca_param_cmd_line.c'
ORDER = ['lookup_override', 'lookup_env', 'lookup_file', 'lookup_default']
SRC = {'lookup_override': 'MCA_PARAM_SOURCE_OVERRIDE', 'lookup_env': 'MCA_PARAM_SOURCE_ENV', 'lookup_file': 'MCA_PARAM_SOURCE_FILE', 'lookup_default': 'MCA_PARAM_SOURCE_DEFAULT'}


def run(ctx):
    ctx.explanation = ('Static clauses: (a) in param_lookup (non read-only parameters) the sources are consulted in the order override -> environment -> file -> default, each one only on the failure edge of '
                       'all the preceding ones, and the source recorded on each success edge matches the callee; (b) read-only parameters return the default; (c) lookup_env consults synonyms only when the '
                       'primary variable gave nothing, stopping at the first hit; (d) every --mca / --gmca instance is handed to process_arg, which joins a repeated parameter as "old,new", and every collected '
                       'parameter is exported through parsec_setenv_mca_param; (e) the cached file/override flags of a registered parameter are only ever set (who-may-clear table), because lookup_file consumes the parsed-file entry it caches.')
    ctx.not_decided = 'string contents, file parsing, the environment encoding of the name.'
    u = ctx.extract(U1)
    ra = ctx.rule('R38.a', 'param_lookup precedence order and recorded source', floor=7)
    rb = ctx.rule('R38.b', 'read-only parameters resolve to the default', floor=1)
    rc = ctx.rule('R38.c', 'lookup_env: synonyms only when the primary name yields nothing', floor=2)
    rd = ctx.rule('R38.d', '--mca/--gmca: every instance processed, repeats joined old,new, all exported', floor=5)
    f = u.func('param_lookup'); ctx.functions_analysed.add(f.name)

    def ro(a, t):
        return a.k == 'mem' and a.n == 'mbp_read_only'
    calls = {n: [c for c in f.calls(n)] for n in ORDER}
    rw = {}
    for n in ORDER:
        cs = [c for c in calls[n] if f.guarded_by(c.point, lambda a, t: ro(a, t) and not t)]
        if len(cs) != 1:
            raise AnalysisBroken('param_lookup: expected one %s call on the non-read-only branch, found %d' % (n, len(cs)))
        rw[n] = cs[0]
    for i, n in enumerate(ORDER):
        c = rw[n]
        gs = f.guards(c.point)
        failed_before = {a.n for a, t, b in gs if a.k == 'call' and a.n in ORDER and not t}
        succeeded_before = {a.n for a, t, b in gs if a.k == 'call' and a.n in ORDER and t}
        ra.expect(failed_before == set(ORDER[:i]) and not succeeded_before, 'order:%s' % n, c.loc,
                  '%s must be consulted exactly when %s all failed (found: failed=%s succeeded=%s)' % (n, ORDER[:i], sorted(failed_before), sorted(succeeded_before)),
                  note='%s reached only after %s failed' % (n, ORDER[:i] or 'nothing'))
    srcvar = None
    for s_ in f.stores():
        if s_.lhs.k == 'ref' and s_.rhs is not None and s_.rhs.s == 'MCA_PARAM_SOURCE_MAX':
            srcvar = s_.lhs.s
    if srcvar is None:
        raise AnalysisBroken('param_lookup: source variable not found')
    for n in ORDER:
        c = rw[n]
        st = [s_ for s_ in f.stores(srcvar) if s_.rhs is not None and f.guarded_by(s_.point, lambda a, t: t and a.k == 'call' and a.nid == c.e.nid)]
        ra.expect(len(st) == 1 and st[0].rhs.s == SRC[n], 'source:%s' % n, (st or [c])[0].loc, 'success of %s must record %s (found %s)' % (n, SRC[n], [s_.rhs.s for s_ in st]), note='%s -> %s' % (n, SRC[n]))
    # (b)
    rod = [c for c in calls['lookup_default'] if f.guarded_by(c.point, lambda a, t: ro(a, t) and t)]
    ok = len(rod) == 1
    if ok:
        st = [s_ for s_ in f.stores(srcvar) if s_.rhs is not None and f.guarded_by(s_.point, lambda a, t: ro(a, t) and t)]
        ok = len(st) == 1 and st[0].rhs.s == SRC['lookup_default'] and f.guarded_by(st[0].point, lambda a, t: t and a.k == 'call' and a.nid == rod[0].e.nid)
        # the default lookup is the last writer of storage on the read-only branch: it comes after the diagnostic lookups
        others = [c for n in ORDER[:3] for c in calls[n] if f.guarded_by(c.point, lambda a, t: ro(a, t) and t)]
        ok = ok and all(f.ordered(c, rod[0]) for c in others)
    rb.expect(ok, 'readonly:default', rod[0].loc if rod else f.where(), 'read-only parameters must take their value from lookup_default (after the diagnostic lookups)', note='read-only: value from lookup_default, source DEFAULT')
    # true is returned only when a source was found
    for r in f.returns():
        if r.e is not None and r.e.cv == 1:
            ra.expect(f.guarded_by(r.point, lambda a, t: t and a.k == 'bin' and a.op == '!=' and srcvar in a.s), 'found:return', r.loc, 'param_lookup returns true without a source having been found', note='true only when source != MAX')

    # (c)
    f = u.func('lookup_env'); ctx.functions_analysed.add(f.name)
    ge = f.calls('getenv')
    prim = [c for c in ge if c.args[0].s.endswith('mbp_env_var_name')]
    syn = [c for c in ge if c.args[0].s.endswith('si_env_var_name')]
    if len(prim) != 1 or len(syn) != 1:
        raise AnalysisBroken('lookup_env: getenv anchors')
    envv = None
    for s_ in f.stores():
        if s_.rhs is not None and s_.rhs.nid == prim[0].e.nid:
            envv = s_.lhs.s
    rc.expect(f.guarded_by(syn[0].point, lambda a, t: a.s == envv and not t) and f.ordered(prim[0], syn[0]), 'env:synonym-guard', syn[0].loc, 'synonyms must be consulted only when the primary environment variable is not set',
              note='synonyms only when primary env == NULL')
    # loop stops at the first hit: loop condition contains NULL == env
    loopc = [f.cond(b) for b in f.blocks if f.in_loop(b) and f.cond(b) is not None]
    stop = any(c.s == envv or ('%s' % envv) in c.s.split(' ')[0:3] for c in loopc)
    lc = [b for b in f.blocks if f.term_kind(b) in ('for', '&&') and f.cond(b) is not None and cond_atom(f.cond(b))[0].s == envv]
    rc.expect(bool(lc), 'env:first-hit', syn[0].loc, 'the synonym loop must stop at the first synonym found (loop condition NULL == env)', note='synonym loop stops at first hit')
    rets = [r for r in f.returns() if r.e is not None and r.e.cv == 1]
    rc.expect(all(f.guarded_by(r.point, lambda a, t: a.s == envv and t) for r in rets) and rets, 'env:found', rets[0].loc if rets else f.where(), 'lookup_env returns true only when a value was found', note='true only when env != NULL')

    # (e) lookup_file() caches the file value on the parameter and removes it from the parsed-file list, so the
    #     cached flag of a REGISTERED parameter must never be cleared (nor the override flag, except by unset):
    #     who-may-clear table, confirmed by reading.
    re_ = ctx.rule('R38.e', 'cached file/override value flags of registered parameters are only ever set, cleared only by the reviewed functions', floor=8)
    CLEARERS = {('param_constructor', 'mbp_file_value_set'): 'object construction', ('param_constructor', 'mbp_override_value_set'): 'object construction',
                ('parsec_mca_param_unset', 'mbp_override_value_set'): 'explicit unset of the override'}
    for g in u.funcs().values():
        if not g.file.endswith('mca_param.c'):
            continue
        for s_ in g.stores():
            if s_.lhs.k == 'mem' and s_.lhs.n in ('mbp_file_value_set', 'mbp_override_value_set'):
                base = s_.lhs.ch[0]
                local_tmp = base.k == 'ref' and base.dk == 'var' and s_.lhs.op == '.'      # the entry being built on the stack
                is_true = s_.rhs is not None and s_.rhs.cv == 1
                ok = is_true or local_tmp or (g.name, s_.lhs.n) in CLEARERS
                re_.expect(ok, 'flag-clear:%s:%s' % (g.name, s_.lhs.n), s_.loc,
                           '%s stores %s into %s of a registered parameter: the cached value would be forgotten (only %s may clear these flags)' % (g.name, s_.rhs.s if s_.rhs is not None else '?', s_.lhs.s, sorted({k[0] for k in CLEARERS})),
                           note='%s: %s = %s%s' % (g.name, s_.lhs.s, s_.rhs.s if s_.rhs is not None else '?', ' (stack temporary)' if local_tmp else ''))
    # every copy of a file / override value into a registered entry sets the matching flag on the same path
    g = u.func('param_register'); ctx.functions_analysed.add(g.name)
    for kind in ('file', 'override'):
        vals = [s_ for s_ in g.stores() if s_.lhs.k == 'mem' and s_.lhs.ch[0].k == 'mem' and s_.lhs.ch[0].n == 'mbp_%s_value' % kind and s_.lhs.ch[0].ch[0].k == 'idx' and not (s_.rhs is not None and s_.rhs.cv == 0)]
        flags = [s_ for s_ in g.stores() if s_.lhs.k == 'mem' and s_.lhs.n == 'mbp_%s_value_set' % kind and s_.lhs.ch[0].k == 'idx' and s_.rhs is not None and s_.rhs.cv == 1]
        for v in vals:
            okp = any(g.postdominates(fl.point, v.point) or g.dominates(fl.point, v.point) for fl in flags)
            re_.expect(okp, 'register:%s-flag' % kind, v.loc, 're-registration copies a %s value into the existing entry without marking it as set on every path' % kind, note='re-registration: %s value copied => flag set' % kind)

    # (d)
    u2 = ctx.extract(U2)
    f = u2.func('parsec_mca_cmd_line_process_args'); ctx.functions_analysed.add(f.name)
    pa = f.calls('process_arg')
    for opt in ('mca', 'gmca'):
        cs = [c for c in pa if ('"%s"' % opt) in c.args[0].s]
        ok = len(cs) == 1 and f.in_loop(cs[0].block)
        if ok:
            c = cs[0]
            # loop bounds: i = 0 .. num_insts(opt)
            ni = [s_ for s_ in f.stores() if s_.rhs is not None and s_.rhs.k == 'call' and s_.rhs.n == 'parsec_cmd_line_get_ninsts' and ('"%s"' % opt) in s_.rhs.s]
            hdrs = f.in_loop(c.block)
            lc = [f.cond(h) for h in hdrs if f.cond(h) is not None]
            ok = len(ni) == 1 and any(x.k == 'bin' and x.op == '<' and x.ch[1].s == ni[0].lhs.s for x in lc) and ', i, 0)' in c.args[0].s and ', i, 1)' in c.args[1].s
            # the loop starts at instance 0 and advances by one
            for fr in f.stmts_of_kind('for'):
                n_ = f.nodes[fr]
                if c.nid in set(f.ast_walk(n_['body'])):
                    init = f.expr(n_['init']) if 'init' in n_ else None
                    inc = f.expr(n_['inc']) if 'inc' in n_ else None
                    ok = ok and init is not None and init.k == 'asg' and init.ch[0].s == 'i' and init.ch[1].cv == 0 and inc is not None and inc.k == 'un' and inc.op in ('pre++', 'post++') and inc.ch[0].s == 'i'
            env_target = {'mca': f.params[1]['n'], 'gmca': f.params[2]['n']}[opt]
            ae = [a for a in f.calls('add_to_env') if a.args[2].s == env_target]
            ok = ok and len(ae) == 1 and f.ordered(c, ae[0])
        rd.expect(ok, 'cmdline:%s' % opt, cs[0].loc if cs else f.where(), 'every --%s instance (0..ninsts-1, name and value) must go through process_arg and then add_to_env' % opt, note='--%s: all instances processed then exported' % opt)
    f = u2.func('process_arg'); ctx.functions_analysed.add(f.name)
    pr = f.calls('asprintf')
    ok = len(pr) == 1 and pr[0].args[1].k == 'str' and pr[0].args[1].n == '%s,%s' and pr[0].args[2].s.startswith('(*values)[') and pr[0].args[3].s == f.params[1]['n'] \
        and f.guarded_by(pr[0].point, lambda a, t: (not t) and a.k == 'call' and a.n == 'strcmp')
    rd.expect(ok, 'process_arg:join', pr[0].loc if pr else f.where(), 'a repeated parameter must be joined as "<old>,<new>"', note='repeat: asprintf("%s,%s", old, new)')
    st = [s_ for s_ in f.stores() if s_.lhs.s.startswith('(*values)[') and pr and s_.rhs.s == pr[0].args[0].s.lstrip('&')]
    rd.expect(len(st) == 1 and f.ordered(pr[0], st[0]), 'process_arg:store', st[0].loc if st else f.where(), 'the joined string must replace the stored value', note='joined value stored back')
    app = f.calls('parsec_argv_append_nosize')
    rd.expect(len(app) == 2 and {app[0].args[1].s, app[1].args[1].s} == {f.params[0]['n'], f.params[1]['n']}, 'process_arg:append', app[0].loc if app else f.where(), 'a new parameter must be appended with its value', note='new parameter appended (name, value)')
    f = u2.func('add_to_env'); ctx.functions_analysed.add(f.name)
    se = f.calls('parsec_setenv_mca_param')
    rd.expect(len(se) == 1 and f.in_loop(se[0].block) and se[0].args[0].s == '%s[i]' % f.params[0]['n'] and se[0].args[1].s == '%s[i]' % f.params[1]['n'], 'add_to_env', se[0].loc if se else f.where(),
              'every collected parameter must be exported with its own value', note='setenv_mca_param(params[i], values[i]) for all i')
    check_environ(ctx)


def check_environ(ctx):
    """--mca values reach the lookup through environ-like arrays of "NAME=value" strings (parsec_setenv_mca_param ->
    parsec_setenv).  An entry belongs to a name only if it starts with the name *and the '=' that ends it*: every
    comparison of an entry must be strncmp(entry, K, strlen(K)) with K built as "<name>=" - otherwise a parameter whose
    name is a prefix of another one replaces (or removes) the other's value and that one resolves from a lower source."""
    rf = ctx.rule('R38.f', 'environ arrays: an entry matches a name only together with its "=" terminator; --mca exports overwrite', floor=5)
    u = ctx.extract('parsec/utils/parsec_environ.c')
    for fname in ('parsec_setenv', 'parsec_unsetenv'):
        f = u.func(fname); ctx.functions_analysed.add(fname)
        name = f.params[0]['n']
        cmps = [c for c in f.calls() if c.fn in ('strncmp', 'strcmp', 'memcmp', 'strncasecmp')]
        rf.expect(bool(cmps), '%s:has-compare' % fname, f.where(), '%s must compare the entries of the array with the name' % fname, note='%s: %d entry comparison(s)' % (fname, len(cmps)))
        for c in cmps:
            ok = c.fn == 'strncmp' and len(c.args) == 3
            why = 'must be strncmp(entry, "<name>=", strlen("<name>="))'
            if ok:
                ent = [a for a in c.args[:2] if '(*%s)[' % f.params[-1]['n'] in a.s]
                key = [a for a in c.args[:2] if a not in ent]
                ok = len(ent) == 1 and len(key) == 1 and key[0].k == 'ref'
                if ok:
                    k = key[0].s
                    mk = [a for a in f.calls('asprintf') if a.args[0].s == '&' + k]
                    ok = len(mk) == 1 and mk[0].args[1].k == 'str' and mk[0].args[1].n == '%s=' and mk[0].args[2].s == name and f.dominates(mk[0].point, c.point)
                    why = 'the key %s must be built by asprintf(&%s, "%%s=", %s) before the comparison' % (k, k, name)
                    if ok:
                        ln = c.args[2]
                        if ln.k == 'ref':
                            d = [s_ for s_ in f.stores() if s_.lhs.s == ln.s]
                            ok = len(d) == 1 and d[0].rhs is not None and d[0].rhs.k == 'call' and d[0].rhs.n == 'strlen' and d[0].rhs.ch[0].s == k and f.dominates(d[0].point, c.point) \
                                and f.ordered(mk[0], d[0])
                        else:
                            ok = ln.k == 'call' and ln.n == 'strlen' and ln.ch[0].s == k
                        why = 'the compared length must be strlen(%s), the name with its "="' % k
            rf.expect(ok, '%s:compare-with-terminator' % fname, c.loc, '%s: %s (got %s)' % (fname, why, c.e.s), note='%s: strncmp(entry, "<name>=", strlen("<name>="))' % fname)
    f = ctx.extract(U1).func('parsec_setenv_mca_param'); ctx.functions_analysed.add(f.name)
    se = f.calls('parsec_setenv'); nm = f.calls('parsec_mca_var_env_name')
    ok = len(se) == 1 and len(nm) == 1 and nm[0].args[0].s == f.params[0]['n'] and nm[0].args[1].s == '&' + se[0].args[0].s and se[0].args[1].s == f.params[1]['n'] and se[0].args[2].cv == 1 \
        and se[0].args[3].s == f.params[2]['n'] and f.ordered(nm[0], se[0])
    rf.expect(ok, 'setenv_mca_param', f.where(), 'parsec_setenv_mca_param must export env_name(param)=value with overwrite into the given array', note='setenv(env_name(param), value, overwrite, env)')
