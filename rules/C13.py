"""C13 — collective activations reach each destination exactly once (remote_dep.c/.h) — clause level."""
from sa import aff, pathq, tables
from sa.facts import AnalysisBroken, cond_atom

U = 'parsec/remote_dep.c'
P = aff.Poly


def run(ctx):
    ctx.explanation = ('Static clauses: (a) remote_dep_rank_to_bit and remote_dep_bit_to_rank are mutually inverse by construction (same modulus, same word width: (rank+n-root)%n -> (bank, bit) ; (bank*W+bit+root)%n), '
                       'checked in affine normal form; mark/is_forwarded address the same bit; (b) in parsec_remote_dep_activate the root is marked before the loops; within one visit of a rank bit, a rank not yet forwarded is marked '
                       'exactly once on every path (position discovery, child, not-my-child) and an already forwarded rank is skipped before any send; a send is made only for a rank not yet forwarded, when the topology predicate '
                       'holds and the termination detector allowed the message; (c) the topology predicates are the star / chain / binomial templates (binomial: him with its leading one-bit cleared == me); DTD uses the star; '
                       '(d) a destination bit is counted (count_bits++, deps_mask |=) only under the "bit not yet set" test that also sets it, in both collectors.')
    ctx.not_decided = 'overlapping destination-set families end to end; message delivery (C14).'
    u = ctx.extract(U)
    ra = ctx.rule('R13.a', 'rank<->bit maps inverse; forwarded helpers consistent', floor=4)
    rb = ctx.rule('R13.b', 'activate: mark-once / skip / send discipline per visited rank', floor=6)
    rc = ctx.rule('R13.c', 'topology predicates match star / chain / binomial templates', floor=4)
    rd = ctx.rule('R13.d', 'destination bits counted once', floor=2)

    # ---- (a)
    f = u.func('remote_dep_rank_to_bit'); g = u.func('remote_dep_bit_to_rank')
    ctx.functions_analysed.update([f.name, g.name])
    pf = pathq.all_paths(f, track_mem=True)[0]; pg = pathq.all_paths(g, track_mem=True)[0]
    mf = pf.final_env().get('__mem__', {}); mg = pg.final_env().get('__mem__', {})
    rank, bank, bit, root = [p['n'] for p in f.params]
    N = P.atom('parsec_remote_dep_context.max_nodes_number')
    def atom_mod(a, b):
        return P.atom('(%r %% %r)' % (a, b))
    def atom_div(a, b):
        return P.atom('(%r / %r)' % (a, b))
    R = atom_mod(P.atom(rank) + N - P.atom(root), N)
    W = P.const(32)
    okf = ('*' + bank) in mf and ('*' + bit) in mf and aff.norm(mf['*' + bank]) == atom_div(R, W) and aff.norm(mf['*' + bit]) == atom_mod(R, W)
    ra.expect(okf, 'rank_to_bit', f.where(), 'rank_to_bit must be bank = ((rank + n - root) %% n) / 32, bit = (...) %% 32 (found bank=%s bit=%s)' % (mf.get('*' + bank) and mf['*' + bank].s, mf.get('*' + bit) and mf['*' + bit].s),
              note='rank -> ((rank+n-root)%%n) / W, %% W')
    rk, bk, bt, rt = [p['n'] for p in g.params]
    okg = ('*' + rk) in mg and aff.norm(mg['*' + rk]) == atom_mod(P.atom(bk) * W + P.atom(bt) + P.atom(rt), N)
    ra.expect(okg, 'bit_to_rank', g.where(), 'bit_to_rank must be rank = (bank*32 + bit + root) %% n (found %s)' % (mg.get('*' + rk) and mg['*' + rk].s), note='(bank, bit) -> (bank*W + bit + root) %% n : inverse of rank_to_bit')
    mk = u.func('remote_dep_mark_forwarded'); isf = u.func('remote_dep_is_forwarded')
    for h in (mk, isf):
        c = h.calls('remote_dep_rank_to_bit')
        ok = len(c) == 1 and c[0].args[0].s == h.params[2]['n'] and c[0].args[3].s == '%s->root' % h.params[1]['n']
        ra.expect(ok, 'forwarded:%s' % h.name, h.where(), '%s must locate the bit of `rank` relative to rdeps->root' % h.name, note='%s: bit of (rank, rdeps->root)' % h.name)
    st = [s_ for s_ in mk.stores() if s_.lhs.k == 'idx' and s_.lhs.ch[0].s.endswith('remote_dep_fw_mask') and s_.op == '|=']
    ra.expect(len(st) == 1, 'forwarded:set', mk.where(), 'mark_forwarded must OR the bit into remote_dep_fw_mask', note='mark: fw_mask[bank] |= 1 << bit')

    # ---- (b)
    f = u.func('parsec_remote_dep_activate'); ctx.functions_analysed.add(f.name)
    marks = f.calls('remote_dep_mark_forwarded'); tests = f.calls('remote_dep_is_forwarded'); sends = f.calls('remote_dep_dequeue_send')
    rootmark = [m for m in marks if not f.in_loop(m.block)]
    inner = [m for m in marks if f.in_loop(m.block)]
    rb.expect(len(rootmark) == 1 and rootmark[0].args[2].s.endswith('->root') and f.postdominates(rootmark[0].point, (f.entry, 0)) and all(f.precedes(rootmark[0], m) for m in inner), 'activate:root-mark',
              rootmark[0].loc if rootmark else f.where(), 'the root of the collective must be marked as forwarded before the destination loops', note='root marked before the loops')
    if len(tests) != 1 or len(inner) < 1 or len(sends) != 1:
        raise AnalysisBroken('activate: expected 1 is_forwarded test, 2 in-loop marks, 1 send (found %d/%d/%d)' % (len(tests), len(inner), len(sends)))
    rankv = tests[0].args[2].s
    def not_fw(a, t):
        return (not t) and a.k == 'call' and a.nid == tests[0].e.nid
    for m in inner:
        rb.expect(m.args[2].s == rankv and f.guarded_by(m.point, not_fw), 'activate:mark-guard', m.loc, 'a rank may be marked as forwarded only when it was not yet', note='mark only when !is_forwarded(rank)')
    # every visit of a not-yet-forwarded rank executes a mark before the next visit / the end of the loops
    tb = [b_ for b_ in f.blocks if f.cond(b_) is not None and cond_atom(f.cond(b_))[0].k == 'call' and cond_atom(f.cond(b_))[0].nid == tests[0].e.nid]
    ok = False
    if tb:
        a_, pol = cond_atom(f.cond(tb[0]))
        hdrs = set()
        for m in inner:
            hdrs |= f.in_loop(m.block)
        for s_, lab in f.succs(tb[0]):
            truth = lab if pol else (not lab)
            if isinstance(lab, bool) and not truth:
                ok = not _reaches_header_avoiding_all(f, s_, hdrs | f.in_loop(tb[0]), {m.block for m in inner})
    rb.expect(ok, 'activate:mark-all-paths', (inner or tests)[0].loc, 'a rank found not yet forwarded must be marked as forwarded on every path of its visit (position discovery, child, not my child)', note='visited rank marked on every path of the visit')
    for m in inner:
        others = [o for o in inner if o is not m]
        rb.expect(not any(f.reaches(m.point, o.point, acyclic=True) for o in others), 'activate:mark-once', m.loc, 'a visited rank must not be marked twice in one visit', note='at most one mark per visit')
    # the skip happens before anything else for an already-forwarded rank
    s0 = sends[0]
    rb.expect(f.guarded_by(s0.point, not_fw) and s0.args[1].s == rankv, 'activate:send-not-forwarded', s0.loc, 'an activation may be sent only to a rank not yet forwarded', note='send only to a not-yet-forwarded rank')
    permits = None
    for a, t, b in f.guards(s0.point):
        if a.k == 'ref' and t and 'permits' in a.s:
            permits = a.s
    oms = [(a, t) for a, t, b in f.guards(s0.point) if a.k == 'call' and a.n is None and a.extra is not None and a.extra.k == 'mem' and a.extra.n == 'outgoing_message_start' and t]
    rb.expect(permits is not None and len(oms) == 1, 'activate:send-guards', s0.loc, 'a send must be guarded by the topology predicate and by outgoing_message_start()', note='send iff child predicate && outgoing_message_start')
    if permits:
        defs = [s_ for s_ in f.stores(permits) if s_.rhs is not None and s_.rhs.k == 'call']
        srcs = {s_.rhs.n or (s_.rhs.extra.s if s_.rhs.extra is not None else '?') for s_ in defs}
        argok = all([a.s for a in s_.rhs.ch] == ['my_idx', 'idx'] for s_ in defs)
        dtd = [s_ for s_ in defs if f.guarded_by(s_.point, lambda a, t: t and a.k == 'bin' and a.op == '==' and 'taskpool_type' in a.s)]
        rc.expect(srcs <= {'remote_dep_bcast_star_child', 'remote_dep_bcast_child'} and argok and len(dtd) == 1 and dtd[0].rhs.n == 'remote_dep_bcast_star_child', 'activate:predicate-source', defs[0].loc if defs else f.where(),
                  'the child predicate must be the configured topology function (star for DTD) applied to (my_idx, idx)', note='predicate = topology(my_idx, idx); DTD -> star')
    # pending_ack taken before the send
    inc = [e for e in f.calls('parsec_atomic_fetch_inc_int32') if e.args[0].s.endswith('pending_ack')]
    rb.expect(inc and all(f.reaches(i.point, s0.point, acyclic=True) for i in inc) and any(f.dominates(i.point, s0.point) for i in inc), 'activate:pending-ack', inc[0].loc if inc else f.where(), 'pending_ack must be raised before a send', note='pending_ack++ before send')

    # ---- (c)
    g = u.func('remote_dep_bcast_star_child'); me = g.params[0]['n']
    vals = set()
    for pi in pathq.all_paths(g):
        rev, rexp = pi.ret()
        z = pathq.assumed(pi, '==', P.atom(me), P.const(0))
        vals.add((z, rexp.cv))
    rc.expect(vals == {(True, 1), (False, 0)}, 'star', g.where(), 'star: child iff me == 0 (found %s)' % sorted(vals, key=str), note='star: me == 0')
    g = u.func('remote_dep_bcast_chainpipeline_child'); me, him = g.params[0]['n'], g.params[1]['n']
    ones = [r for r in g.returns() if r.e.cv == 1]
    def nxt(a, t):
        r = pathq.rel(a)
        return t and r is not None and r[0] == '==' and {repr(r[1]), repr(r[2])} == {him, repr(P.atom(me) + P.const(1))}
    rc.expect(len(ones) == 1 and g.guarded_by(ones[0].point, nxt) and all(r.e.cv in (0, 1) for r in g.returns()), 'chain', g.where(), 'chain: child iff him == me + 1', note='chain: him == me + 1')
    g = u.func('remote_dep_bcast_binomial_child'); me, him = g.params[0]['n'], g.params[1]['n']
    xors = [s_ for s_ in g.stores(him) if s_.op == '^=']
    ok = len(xors) == 1
    if ok:
        maskv = xors[0].rhs.s
        md = [s_ for s_ in g.stores(maskv) if s_.rhs is not None and s_.rhs.k == 'bin' and s_.rhs.op == '<<' and s_.rhs.ch[0].cv == 1]
        ok = len(md) == 1 and g.guarded_by(xors[0].point, lambda a, t: t and a.k == 'bin' and a.op == '&' and {a.ch[0].s, a.ch[1].s} == {him, maskv})
        if ok:
            kv = md[0].rhs.ch[1].s
            # loop from the top bit downwards, leaving at the first hit
            dec = [s_ for s_ in g.stores(kv) if s_.op == '--']
            start = [s_ for s_ in g.stores(kv) if s_.rhs is not None and s_.rhs.cv == 31]
            # break right after the xor: the xor block leaves the loop
            leaves = all(not g.in_loop(t_) for t_, _ in g.succs(xors[0].block)) and not g.in_loop(xors[0].block)
            ok = len(dec) == 1 and len(start) == 1 and leaves
        final = [r for r in g.returns() if r.e.k == 'bin' and r.e.op == '==' and {r.e.ch[0].s, r.e.ch[1].s} == {him, me}]
        ok = ok and len(final) == 1 and not g.in_loop(final[0].block)
    rc.expect(ok, 'binomial', g.where(), 'binomial: child iff (him with its leading one-bit cleared) == me, scanning from bit 31 down and stopping at the first set bit', note='binomial: clear leading 1 of him, compare with me')
    z = [r for r in g.returns() if r.e.cv == 0]
    rc.expect(any(g.guarded_by(r.point, lambda a, t: pathq.asserted_zero(a, t) is not None and him in a.s) for r in z), 'binomial:root', g.where(), 'binomial: rank 0 is nobody\'s child', note='binomial: him == 0 -> not a child')

    # ---- (d)
    for unit, fn in ((u, 'parsec_gather_collective_pattern'), (ctx.extract('parsec/parsec.c'), 'parsec_release_dep_fct')):
        g = unit.func(fn); ctx.functions_analysed.add(fn)
        cnt = [s_ for s_ in g.stores() if s_.lhs.k == 'mem' and s_.lhs.n == 'count_bits' and s_.op == '++']
        dm = [s_ for s_ in g.stores() if s_.lhs.k == 'mem' and s_.lhs.n == 'deps_mask' and s_.op == '|=']
        setb = [s_ for s_ in g.stores() if s_.lhs.k == 'idx' and s_.lhs.ch[0].s.endswith('rank_bits') and s_.op == '|=']
        def newbit(a, t):
            return (not t) and a.k == 'bin' and a.op == '&' and 'rank_bits' in a.s
        ok = len(cnt) == 1 and len(dm) == 1 and len(setb) == 1 and all(g.guarded_by(x.point, newbit) for x in cnt + dm + setb)
        if ok:
            tested = [a for a, t, b in g.guards(cnt[0].point) if newbit(a, t)][0]
            ok = setb[0].lhs.s in tested.s and setb[0].rhs.s in tested.s
            r2b = g.calls('remote_dep_rank_to_bit')
            ok = ok and len(r2b) == 1 and r2b[0].args[0].s == 'dst_rank' and r2b[0].args[3].s == 'src_rank'
        rd.expect(ok, 'count:%s' % fn, cnt[0].loc if cnt else g.where(), '%s: count_bits / deps_mask must be updated only when the destination bit was not yet set, together with setting it' % fn,
                  note='%s: bit unset -> set bit, deps_mask |=, count_bits++' % fn)
    check_mask_domains(ctx)
    check_recycle_wipe(ctx, u)


def check_recycle_wipe(ctx, u):
    """remote_deps objects are recycled through a free list; remote_deps_free is the only place where the destination sets
    (rank_bits, count_bits) of the outputs are wiped.  The used outputs of a task need not be contiguous, so the wipe must look
    at every output: its loop over max_dep_count may skip an empty output but must not stop at one - a stale destination set
    is added to the next broadcast that reuses the object (extra, lost and duplicated activations)."""
    rf = ctx.rule('R13.f', 'remote_deps_free wipes the destination set of every output before recycling: the loop over the outputs has no early exit', floor=2)
    f = u.func('remote_deps_free'); ctx.functions_analysed.add(f.name)
    found = 0
    for (src, hdr) in f.back_edges():
        c = f.cond(hdr)
        if c is None or 'max_dep_count' not in c.s:
            continue
        body = {hdr, src}; st = [src]
        while st:
            x = st.pop()
            if x == hdr:
                continue
            for p_, _ in f.preds()[x]:
                if p_ not in body:
                    body.add(p_); st.append(p_)
        wipes = [e for b in body for e in f.block_events(b) if e.kind == 'store' and e.lhs.k == 'mem' and e.lhs.n == 'count_bits' and e.rhs is not None and e.rhs.cv == 0]
        if not wipes:
            continue
        found += 1
        rb = [e for b in body for e in f.block_events(b) if e.kind == 'store' and e.lhs.k == 'idx' and 'rank_bits' in e.lhs.s and e.rhs is not None and e.rhs.cv == 0]
        rf.expect(bool(rb), 'wipe:rank_bits', wipes[0].loc, 'the wipe must clear the rank_bits words of the output as well as its count', note='recycle: rank_bits words and count_bits cleared per output')
        exits = [(b, s_) for b in body if b != hdr for s_, lab in f.succs(b) if s_ not in body]
        rf.expect(not exits, 'wipe:all-outputs', f.loc(f.blocks[hdr]['cond']),
                  'the loop over the outputs is left early (%d exit(s) from its body): outputs after an empty one keep their destination sets when the object is recycled' % len(exits),
                  note='recycle: every output visited (no exit from the loop body)')
    if not found:
        raise AnalysisBroken('remote_deps_free: loop over max_dep_count that clears count_bits not found')


# ------------------------------------------------------------------------------------------------
# R13.e: two index domains for dependency bit masks
DT_FIELDS = {'outgoing_mask', 'incoming_mask', 'output_mask', 'flow_datatype_mask'}
DEP_FIELDS = {'deps_mask'}
SUCC_CALLS = ('iterate_successors', 'release_deps')
MASK_UNITS = ['parsec/remote_dep.c', 'parsec/remote_dep_mpi.c', 'parsec/parsec.c']


def _shift_bits(e):
    """[(index field, base expression)] for every `1 << X->dep_index` / `1 << X->dep_datatype_index` inside e."""
    out = []
    for x in e.walk():
        if x.k == 'bin' and x.op == '<<' and x.ch[1].k == 'mem' and x.ch[1].n in ('dep_index', 'dep_datatype_index'):
            out.append((x.ch[1].n, x.ch[1].ch[0].s))
    return out


def check_mask_domains(ctx):
    """Remote activations carry masks indexed by dep_datatype_index (one bit per output datatype: msg.output_mask,
    outgoing_mask, incoming_mask), successors are selected with masks indexed by dep_index (deps_mask, the action mask
    of iterate_successors / release_deps).  A bit built from one index must never be stored into a mask of the other
    domain, and a receiver-side conversion tests the datatype bit and sets the dep bit of the *same* dependency:
    otherwise the tree rebuilt by a forwarding rank differs from the one the root used (lost / duplicated activation)."""
    re_ = ctx.rule('R13.e', 'dependency masks: dep_index bits only in successor-selection masks, dep_datatype_index bits only in message masks; conversions pair the two indices of one dependency', floor=12)
    for un in MASK_UNITS:
        u = ctx.extract(un)
        for fname, f in u.funcs().items():
            if not f.file.endswith(un.split('/')[-1]):
                continue
            sts = [s_ for s_ in f.stores() if s_.op in ('|=', '&=', '=') and s_.rhs is not None and _shift_bits(s_.rhs)]
            if not sts:
                continue
            ctx.functions_analysed.add(fname)
            # locals that select successors: mentioned in the action-mask argument of iterate_successors / release_deps
            dep_locals = set()
            for c in f.events():
                if c.kind == 'call' and c.fn is None and c.callee is not None and c.callee.k == 'mem' and c.callee.n in SUCC_CALLS and len(c.args) >= 3:
                    dep_locals |= {x.s for x in c.args[2].walk() if x.k == 'ref' and x.dk in ('var', 'parm')}
            for s_ in sts:
                for field, base in _shift_bits(s_.rhs):
                    kind = 'DEP' if field == 'dep_index' else 'DT'
                    if s_.lhs.k == 'mem':
                        dom = 'DT' if s_.lhs.n in DT_FIELDS else 'DEP' if s_.lhs.n in DEP_FIELDS else None
                    elif s_.lhs.k == 'ref':
                        dom = 'DEP' if s_.lhs.s in dep_locals else None
                    else:
                        dom = None
                    if dom is None:
                        continue
                    re_.expect(kind == dom, 'domain:%s:%s:%s' % (fname, s_.lhs.s, field), s_.loc,
                               '%s: a bit indexed by %s is stored into %s, a mask indexed by %s' % (fname, field, s_.lhs.s, 'dep_index (successor selection)' if dom == 'DEP' else 'dep_datatype_index (message / datatype)'),
                               note='%s: %s %s 1 << %s->%s' % (fname, s_.lhs.s, s_.op, base, field))
                    if dom == 'DEP' and s_.lhs.k == 'ref':
                        # conversion site: the guard tests the datatype index of the same dependency
                        def same_dep(a, t, base=base):
                            return t is True and any(x.k == 'mem' and x.n == 'dep_datatype_index' and x.ch[0].s == base for x in a.walk())
                        re_.expect(f.guarded_by(s_.point, same_dep), 'convert:%s:%s' % (fname, s_.lhs.s), s_.loc,
                                   '%s: the dep_index bit of %s must be set under a test of the dep_datatype_index of the same dependency' % (fname, base),
                                   note='%s: %s set under a test of %s->dep_datatype_index' % (fname, s_.lhs.s, base))


def _reaches_header_avoiding_all(f, start_block, hdrs, mark_blocks):
    from collections import deque
    seen = {start_block}; dq = deque([start_block])
    while dq:
        b = dq.popleft()
        if b in mark_blocks:
            continue
        if (b in hdrs and b != start_block) or b == f.exit:
            return True
        for s_, _ in f.succs(b):
            if s_ not in seen:
                seen.add(s_); dq.append(s_)
    return False


def _reaches_header_avoiding(f, start_block, hdrs, mark):
    """can control go from start_block back to a loop header (next visit) or out of the loops without executing `mark`?"""
    from collections import deque
    seen = {start_block}; dq = deque([start_block])
    while dq:
        b = dq.popleft()
        if b == mark.block:
            continue
        if b in hdrs and b != start_block:
            return True
        for s_, _ in f.succs(b):
            if s_ not in seen:
                seen.add(s_); dq.append(s_)
    return False
