"""Shared DTD tile-chain rules (C03, C17)."""
from sa.facts import lockset_analysis, AnalysisBroken
from sa.tables import BASE_LOCKS

TILE_USER_FIELDS = ('task', 'flow_index', 'op_type', 'alive')


def tile_user_accesses(f):
    """loads / stores of X->last_user.<f> / X->last_writer.<f> (shared tile state, not the local snapshots)."""
    out = []
    for ev in f.events():
        lv = None
        if ev.kind == 'store':
            lv = ev.lhs
        elif ev.kind == 'load':
            lv = ev.e
        if lv is None or lv.k != 'mem' or lv.n not in TILE_USER_FIELDS:
            continue
        b = lv.ch[0]
        if b.k == 'mem' and b.n in ('last_user', 'last_writer') and b.op == '->':
            out.append((ev, lv, b.ch[0].s, b.n))
    return out


def lock_name(tile):
    return 'lu:%s->last_user' % tile


def check_guarded(f, rule):
    """every access to the shared last_user/last_writer of a tile happens under that tile's lock;
    construction macro SET_LAST_ACCESSOR excepted (tile not yet published)."""
    ls = lockset_analysis(f, BASE_LOCKS)
    n = 0
    for ev, lv, tile, which in tile_user_accesses(f):
        if ev.macro == 'SET_LAST_ACCESSOR':
            continue
        must = ls.must_before(ev)
        if must is None:
            continue
        n += 1
        rule.expect(lock_name(tile) in must, '%s:%s:%s.%s' % (f.name, ev.kind, which, lv.n), ev.loc,
                    '%s: %s of %s without holding the tile lock' % (f.name, ev.kind, lv.s), note='%s %s %s under tile lock' % (f.name, ev.kind, lv.s))
    return ls, n


def check_pairing(f, ls, rule):
    for rev, must, may, loc in ls.exits():
        held = [l for l in may if l.startswith('lu:')]
        rule.expect(not held, '%s:exit-locked' % f.name, loc, '%s may return holding %s' % (f.name, held), note='%s: tile lock released at exit' % f.name)
    for ev in f.calls('parsec_dtd_last_user_unlock'):
        must = ls.must_before(ev)
        if must is None:
            continue
        l = BASE_LOCKS.lockname(BASE_LOCKS.release['parsec_dtd_last_user_unlock'], ev)
        rule.expect(l in must, '%s:unlock-unheld' % f.name, ev.loc, '%s unlocks a tile lock that is not held on every path' % f.name, note='%s: unlock of held tile lock' % f.name)


def check_snapshot_update_atomic(f, rule, this_task):
    """snapshot (copy of tile->last_user.task into a local) and the update tile->last_user.task = this_task
    are made in ONE critical section: no path lock -> update that skips a snapshot or crosses an unlock."""
    acc = tile_user_accesses(f)
    updates = [(ev, tile, which) for ev, lv, tile, which in acc if ev.kind == 'store' and lv.n == 'task' and ev.rhs is not None and ev.rhs.s == this_task]
    n = 0
    for uev, tile, which in updates:
        snaps = [ev for ev, lv, t2, w2 in acc if ev.kind == 'load' and lv.n == 'task' and t2 == tile and w2 == which
                 and any(s_.kind == 'store' and s_.rhs is not None and s_.rhs.s == lv.s and s_.lhs.k == 'mem' and s_.lhs.ch[0].k == 'ref'
                         for s_ in f.block_events(ev.block))]
        locks = [l for l in f.calls('parsec_dtd_last_user_lock') if l.args[0].s.lstrip('&') == '%s->last_user' % tile]
        unlocks = [u for u in f.calls('parsec_dtd_last_user_unlock') if u.args[0].s.lstrip('&') == '%s->last_user' % tile]
        if not locks or not snaps:
            rule.bad('%s:no-snapshot:%s' % (f.name, which), uev.loc, '%s: %s->%s updated without a locked snapshot of the previous value' % (f.name, tile, which))
            continue
        avoid = [s.point for s in snaps] + [u.point for u in unlocks]
        bad = [l for l in locks if f.reaches(l.point, uev.point, avoiding=avoid, acyclic=True)]
        n += 1
        rule.expect(not bad, '%s:split-cs:%s' % (f.name, which), uev.loc,
                    '%s: %s->%s.task = %s reachable from a lock acquisition without passing a snapshot of the previous user in the same critical section' % (f.name, tile, which, this_task),
                    note='%s: snapshot of %s and update in one critical section' % (f.name, which))
    return n


def _contains(f, root, target):
    return target in set(f.ast_walk(root)) if root is not None and root >= 0 else False


def check_self_hold_release(ctx, rule, key='self-hold'):
    """A DTD task that names one tile in two flows, READ first and WRITE later, holds a reader on the copy its own write flow
    waits for (the writer is deferred with AGAIN while readers > 0).  parsec_insert_dtd_task drops that self-hold when it meets
    the second flow: under `last_user.task == this_task` with an INPUT previous access, the reader released must be the one taken
    by the *earlier* flow - data[last_user.flow_index].data_in; the current flow's data_in is not set yet at that point, so
    testing / releasing it leaves the hold in place and the task is re-run for ever."""
    from sa.facts import AnalysisBroken
    f = ctx.extract('parsec/interfaces/dtd/insert_function.c').func('parsec_insert_dtd_task'); ctx.functions_analysed.add(f.name)
    rels = [e for e in f.calls('parsec_dtd_data_copy_reader_release')]
    def self_guard(a, t):
        return t is True and a.k == 'bin' and a.op == '==' and any(x.s.endswith('last_user.task') for x in a.ch)
    def not_alive(a, t):
        # TASK_IS_ALIVE == last_user.alive is false: the predecessor completed, its data_in for the current flow is not set yet
        return t is False and a.k == 'bin' and a.op == '==' and any(x.s.endswith('last_user.alive') for x in a.ch)
    mine = [e for e in rels if f.guarded_by(e.point, self_guard) and f.guarded_by(e.point, not_alive)]
    if not mine:
        rule.bad('%s:release-missing' % key, f.where(), 'parsec_insert_dtd_task no longer releases the reader a task holds on a tile it names twice (READ then WRITE) when the predecessor has completed: the write flow waits for readers == 0 for ever')
        return
    for e in mine:
        arg = e.args[0]
        idx = [x for x in arg.walk() if x.k == 'idx']
        ok = bool(idx) and all('last_user.flow_index' in x.ch[1].s for x in idx) and arg.s.endswith('.data_in')
        # the NULL test that guards it is on the same expression
        tested = f.guarded_by(e.point, lambda a, t: t is True and a.s == arg.s)
        rule.expect(ok and tested, '%s:release-earlier-flow' % key, e.loc,
                    'when the previous user of the tile is the task itself (READ then WRITE on one tile), the reader to release is the one of the earlier flow, data[last_user.flow_index].data_in, tested non-NULL; found %s'
                    % arg.s, note='self-hold: reader of data[last_user.flow_index].data_in released')
