"""C11 — four-counter distributed termination (termdet/fourcounter) — clause level, weak."""
from sa import aff, pathq, tables
from sa.facts import AnalysisBroken, lockset_analysis, cond_atom
from sa.tables import BASE_LOCKS

U = 'parsec/mca/termdet/fourcounter/termdet_fourcounter_module.c'
PFX = 'parsec_termdet_fourcounter_'
FIELDS = ('state', 'messages_sent', 'messages_received', 'acc_sent', 'acc_received', 'last_acc_sent_at_root', 'last_acc_received_at_root', 'nb_child_left')
REC = 'parsec_termdet_fourcounter_monitor_s'
# helpers that are only ever entered with the monitor write lock held (checked: every call site holds it)
REQUIRES_LOCK = (PFX + 'send_up_messages', PFX + 'check_state_message_received', PFX + 'check_state_workload_changed')
DELAYED = 'list:parsec_termdet_fourcounter_delayed_messages'
EXCEPTIONS = {(PFX + 'msg_dispatch', 'load', 'state'): 'NOT_READY pre-test; re-tested under the delayed-message list lock, which taskpool_ready takes after publishing BUSY'}
P = aff.Poly


def monitor_accesses(f):
    out = []
    for ev in f.events():
        lv = ev.lhs if ev.kind == 'store' else (ev.e if ev.kind == 'load' else None)
        if lv is not None and lv.k == 'mem' and lv.n in FIELDS and lv.rec in (REC, 'parsec_termdet_fourcounter_monitor_t'):
            out.append((ev, lv))
    return out


def run(ctx):
    ctx.explanation = ('Static clauses (peripheral necessary conditions, not the wave protocol itself): (a) lock discipline — every access to the monitor\'s state and counters is made under its rw_lock (helpers that require the lock are '
                       'only called with it held; taskpool_state reads under the read lock); the delayed-message list lock is released only by a holder: no function unlocks it without having locked it on every path, and lock/unlock '
                       'are paired on all exits; (b) counting — messages_sent++ on every path of outgoing_message_start, messages_received++ on every path of incoming_message_end, the process adds its own counters to the accumulators '
                       'when it reports, children\'s reports are added and nb_child_left decremented in msg_up; (c) the root decides termination on the conjunction (two identical consecutive waves) && (sent == received) and resets the '
                       'accumulators otherwise; the remembered wave is updated every time; (d) the tree is the binary heap (children 2r+1, 2r+2 < n; parent (r-1)>>1; root rank 0); (e) the callback is invoked only after state = TERMINATED.')
    ctx.not_decided = 'safety and liveness of the wave protocol under message delays — the real content of C11.'
    u = ctx.extract(U)
    ra = ctx.rule('R11.a', 'monitor fields under rw_lock; delayed-message lock released only by its holder', floor=40)
    rb = ctx.rule('R11.b', 'message and wave counting', floor=6)
    rc = ctx.rule('R11.c', 'root decision: two identical waves and sent == received; accumulators reset after every inconclusive wave', floor=4)
    rd = ctx.rule('R11.d', 'binary-heap topology', floor=4)
    re_ = ctx.rule('R11.e', 'callback only after TERMINATED', floor=2)
    rf = ctx.rule('R11.f', 'msg_dispatch: a message reaches dispatch_taskpool only after the latest lookup was tested registered, monitored and not NOT_READY; otherwise it is delayed under the list lock', floor=5)
    from rules.C12 import check_dispatch
    check_dispatch(ctx, u, rf, PFX + 'msg_dispatch', PFX + 'msg_dispatch_taskpool')
    funcs = {n: f for n, f in u.funcs().items() if f.file.endswith('termdet_fourcounter_module.c')}

    # ---- (a) rw_lock
    for name, f in sorted(funcs.items()):
        acc = monitor_accesses(f)
        if not acc:
            continue
        ctx.functions_analysed.add(name)
        init = frozenset()
        if name in REQUIRES_LOCK:
            init = frozenset({'wr:%s->rw_lock' % f.params[0]['n']})
        if name == PFX + 'monitor_taskpool':
            for ev, lv in acc:
                ra.ok(ev.loc, '%s: %s initialised before the monitor is published' % (name, lv.n))
            continue
        ls = lockset_analysis(f, BASE_LOCKS, init=init)
        for ev, lv in acc:
            must = ls.must_before(ev)
            if must is None:
                continue
            held = any(l.endswith('->rw_lock') for l in must)
            if not held and (name, ev.kind, lv.n) in EXCEPTIONS:
                ra.ok(ev.loc, '%s: %s %s — exception: %s' % (name, ev.kind, lv.n, EXCEPTIONS[(name, ev.kind, lv.n)]))
                continue
            ra.expect(held, '%s:%s:%s' % (name, ev.kind, lv.n), ev.loc, '%s: %s of monitor field %s without the monitor rw_lock' % (name, ev.kind, lv.n), note='%s: %s %s under rw_lock' % (name, ev.kind, lv.n))
        for rev, must, may, loc in ls.exits():
            extra = [l for l in may if l not in init]
            ra.expect(not extra and init <= must, '%s:exit-lock' % name, loc, '%s changes the set of held locks (%s)' % (name, sorted(may)), note='%s: lock state restored at return' % name)
    for name, f in sorted(funcs.items()):
        for c in f.calls(REQUIRES_LOCK):
            ls = lockset_analysis(f, BASE_LOCKS, init=frozenset({'wr:%s->rw_lock' % f.params[0]['n']}) if name in REQUIRES_LOCK else frozenset())
            must = ls.must_before(c) or frozenset()
            ra.expect(any(l.startswith('wr:') for l in must), '%s:helper-unlocked' % name, c.loc, '%s calls %s without the monitor write lock' % (name, c.fn), note='%s -> %s with wr lock held' % (name, c.fn.replace(PFX, '')))
    # ---- (a) delayed list lock
    for name, f in sorted(funcs.items()):
        locks = [c for c in f.calls(('parsec_list_lock', 'parsec_list_unlock')) if 'delayed_messages' in c.args[0].s]
        if not locks:
            continue
        ls = lockset_analysis(f, BASE_LOCKS)
        for c in locks:
            if c.fn == 'parsec_list_unlock':
                must = ls.must_before(c)
                ra.expect(must is not None and DELAYED in must, '%s:unlock-unheld' % name, c.loc,
                          '%s releases the delayed-message list lock without holding it on every path (it would release it out of another thread\'s hands)' % name, note='%s: unlocks a lock it holds' % name)
        for rev, must, may, loc in ls.exits():
            ra.expect(DELAYED not in may, '%s:exit-delayed-locked' % name, loc, '%s may return holding the delayed-message list lock' % name, note='%s: delayed list lock released at return' % name)
        # list mutations under the lock
        for c in f.calls(('parsec_list_nolock_remove', 'parsec_list_nolock_push_back')):
            if 'delayed_messages' in c.args[0].s:
                ra.expect(DELAYED in (ls.must_before(c) or ()), '%s:list-unlocked' % name, c.loc, '%s edits the delayed-message list without its lock' % name, note='%s: list edit under lock' % name)
        # the walk over the list (reads of the iterator's next pointer) happens under the lock
        for ev in f.loads():
            if ev.e.k == 'mem' and ev.e.n == 'list_next' and f.in_loop(ev.block):
                must = ls.must_before(ev)
                if must is not None:
                    ra.expect(DELAYED in must, '%s:walk-unlocked' % name, ev.loc, '%s walks the delayed-message list without its lock' % name, note='%s: list walk under lock' % name)

    # ---- (b)
    f = u.func(PFX + 'outgoing_message_start')
    inc = [s_ for s_ in f.stores() if s_.lhs.k == 'mem' and s_.lhs.n == 'messages_sent' and s_.op == '++']
    rb.expect(len(inc) == 1 and f.postdominates(inc[0].point, (f.entry, 0)) and not f.in_loop(inc[0].block), 'count:sent', inc[0].loc if inc else f.where(), 'every outgoing application message must be counted exactly once', note='outgoing: messages_sent++ on every path')
    f = u.func(PFX + 'incoming_message_end')
    inc = [s_ for s_ in f.stores() if s_.lhs.k == 'mem' and s_.lhs.n == 'messages_received' and s_.op == '++']
    rb.expect(len(inc) == 1 and f.postdominates(inc[0].point, (f.entry, 0)) and not f.in_loop(inc[0].block), 'count:received', inc[0].loc if inc else f.where(), 'every incoming application message must be counted exactly once', note='incoming: messages_received++ on every path')
    f = u.func(PFX + 'send_up_messages'); tpm = f.params[0]['n']
    own = [s_ for s_ in f.stores() if s_.lhs.k == 'mem' and s_.lhs.n in ('acc_sent', 'acc_received') and s_.op == '+=']
    ok = len(own) == 2 and {(s_.lhs.n, s_.rhs.s) for s_ in own} == {('acc_sent', '%s->messages_sent' % tpm), ('acc_received', '%s->messages_received' % tpm)} and all(f.postdominates(s_.point, (f.entry, 0)) for s_ in own)
    rb.expect(ok, 'count:own', own[0].loc if own else f.where(), 'a reporting process must add its own sent/received counters to the accumulators', note='report: acc_* += messages_*')
    up = [s_ for s_ in f.stores() if s_.lhs.s.endswith('.nb_sent') or s_.lhs.s.endswith('.nb_received')]
    ok = len(up) == 2 and {(s_.lhs.s.split('.')[-1], s_.rhs.s) for s_ in up} == {('nb_sent', '%s->acc_sent' % tpm), ('nb_received', '%s->acc_received' % tpm)} and all(f.precedes(o, x) for o in own for x in up)
    rb.expect(ok, 'count:up-message', up[0].loc if up else f.where(), 'the UP message must carry the accumulators (after the process added its own counters)', note='UP carries acc_sent / acc_received')
    reset = [s_ for s_ in f.stores() if s_.lhs.k == 'mem' and s_.lhs.n == 'nb_child_left' and s_.rhs is not None and s_.rhs.k == 'call' and s_.rhs.n == PFX + 'topology_nb_children']
    rb.expect(len(reset) == 1, 'count:children-reset', reset[0].loc if reset else f.where(), 'the number of awaited children must be re-armed for the next wave', note='next wave: nb_child_left = nb_children')
    f = u.func(PFX + 'msg_up'); msg = f.params[0]['n']
    add = [s_ for s_ in f.stores() if s_.lhs.k == 'mem' and s_.lhs.n in ('acc_sent', 'acc_received') and s_.op == '+=']
    dec = [s_ for s_ in f.stores() if s_.lhs.k == 'mem' and s_.lhs.n == 'nb_child_left' and s_.op == '--']
    chk = f.calls(PFX + 'check_state_message_received')
    ok = len(add) == 2 and {(s_.lhs.n, s_.rhs.s) for s_ in add} == {('acc_sent', '%s->nb_sent' % msg), ('acc_received', '%s->nb_received' % msg)} and len(dec) == 1 and len(chk) == 1 and all(f.precedes(x, chk[0]) for x in add + dec)
    rb.expect(ok, 'count:child-report', add[0].loc if add else f.where(), 'a child report must be accumulated and the child counted before the state is re-examined', note='msg_up: acc_* += msg->nb_*; nb_child_left--; then check')

    # ---- (c)
    f = u.func(PFX + 'send_up_messages')
    res = [s_ for s_ in f.stores() if s_.lhs.s.endswith('.result') and s_.rhs is not None and s_.rhs.cv != 1]
    okc = False
    if len(res) == 1:
        parts = []
        def flat(e):
            if e.k == 'bin' and e.op == '&&':
                flat(e.ch[0]); flat(e.ch[1])
            else:
                parts.append(e)
        flat(res[0].rhs)
        eqs = set()
        for p_ in parts:
            if p_.k == 'bin' and p_.op == '==':
                eqs.add(frozenset((p_.ch[0].s.split('->')[-1], p_.ch[1].s.split('->')[-1])))
        okc = eqs == {frozenset(('last_acc_sent_at_root', 'acc_sent')), frozenset(('last_acc_received_at_root', 'acc_received')), frozenset(('acc_sent', 'acc_received'))} and len(parts) == 3
    rc.expect(okc, 'root:decision', res[0].loc if res else f.where(), 'the root must declare termination only when the wave equals the previous wave and sent == received', note='result = (last_sent == sent) && (last_recv == recv) && (sent == recv)')
    last = [s_ for s_ in f.stores() if s_.lhs.k == 'mem' and s_.lhs.n.startswith('last_acc_')]
    okl = len(last) == 2 and {(s_.lhs.n, s_.rhs.s.split('->')[-1]) for s_ in last} == {('last_acc_sent_at_root', 'acc_sent'), ('last_acc_received_at_root', 'acc_received')} and res and all(f.ordered(res[0], s_) for s_ in last) \
        and all(f.guarded_by(s_.point, lambda a, t: t and a.k == 'call' and a.n == PFX + 'topology_is_root') for s_ in last)
    rc.expect(okl, 'root:remember-wave', last[0].loc if last else f.where(), 'the root must remember each wave (after deciding) for the comparison with the next one', note='last_acc_* = acc_* after the decision, every wave')
    zero = [s_ for s_ in f.stores() if s_.lhs.k == 'mem' and s_.lhs.n in ('acc_sent', 'acc_received') and s_.rhs is not None and s_.rhs.cv == 0]
    okz = len(zero) == 2 and all(f.guarded_by(s_.point, lambda a, t: (not t) and a.s.endswith('.result')) for s_ in zero) and all(f.precedes(x, s_) for x in last for s_ in zero)
    rc.expect(okz, 'root:reset', zero[0].loc if zero else f.where(), 'when the wave is inconclusive the accumulators must be reset (after the wave was remembered)', note='inconclusive wave: acc_* = 0')

    # a process below the root: the contribution it sent up is forgotten when the verdict of that wave arrives,
    # whatever its own state is then - otherwise it is counted again in the next wave
    fd = u.func(PFX + 'msg_down')
    zero = [s_ for s_ in fd.stores() if s_.lhs.k == 'mem' and s_.lhs.n in ('acc_sent', 'acc_received') and s_.rhs is not None and s_.rhs.cv == 0]
    def only_verdict(s_):
        for a, t, b in fd.guards(s_.point):
            if fd.term_kind(b) in ('for', 'while', 'do'):
                continue
            if not (a.s.endswith('->result') and t is False):
                return False
        return fd.guarded_by(s_.point, lambda a, t: (not t) and a.s.endswith('->result'))
    okz = sorted(s_.lhs.n for s_ in zero) == ['acc_received', 'acc_sent'] and all(only_verdict(s_) for s_ in zero)
    rc.expect(okz, 'down:reset', zero[0].loc if zero else fd.where(),
              'on a negative verdict the accumulators of the finished wave must be reset on every path (idle or busy): a busy process would count its last contribution twice in the next wave',
              note='negative verdict: acc_* = 0 whatever the local state')

    # ---- (d)
    f = u.func(PFX + 'topology_nb_children')
    me = None
    vals = set()
    for pi in pathq.all_paths(f):
        rev, rexp = pi.ret()
        conds = []
        for a, t, _ in pi.assumes():
            r = pathq.rel(a)
            if r is not None and r[0] == '<':
                conds.append((repr(r[1]), repr(r[2]).split('->')[-1], t))
        vals.add((rexp.cv, tuple(sorted(conds))))
    def has(v, needle):
        return any(cv == v and all(n in cs for n in needle) for cv, cs in vals)
    r_ = '%s->context->my_rank' % f.params[0]['n']
    okd = len(vals) == 3 and has(2, [('2 + 2*%s' % r_, 'nb_nodes', True)]) and has(1, [('2 + 2*%s' % r_, 'nb_nodes', False), ('1 + 2*%s' % r_, 'nb_nodes', True)]) and has(0, [('1 + 2*%s' % r_, 'nb_nodes', False)])
    rd.expect(okd, 'topology:nb_children', f.where(), 'nb_children must be |{c in {2r+1, 2r+2} : c < n}| (found %s)' % sorted(vals, key=str), note='children = #{2r+1, 2r+2 < n}')
    f = u.func(PFX + 'topology_child')
    rr = f.returns()
    rd.expect(len(rr) == 1 and _resolved(f, rr[0]) == P.const(2) * P.atom('%s->context->my_rank' % f.params[0]['n']) + P.atom(f.params[1]['n']) + P.const(1), 'topology:child', f.where(), 'child i must be 2r + i + 1', note='child(i) = 2r + i + 1')
    f = u.func(PFX + 'topology_parent')
    rr = f.returns()
    okp = len(rr) == 1 and rr[0].e.k == 'bin' and rr[0].e.op == '>>' and rr[0].e.ch[1].cv == 1 and _resolved_e(f, rr[0], rr[0].e.ch[0]) == P.atom('%s->context->my_rank' % f.params[0]['n']) - P.const(1)
    rd.expect(okp, 'topology:parent', f.where(), 'parent must be (r - 1) >> 1', note='parent = (r-1) >> 1')
    f = u.func(PFX + 'topology_is_root')
    rr = f.returns()
    rd.expect(len(rr) == 1 and rr[0].e.k == 'bin' and rr[0].e.op == '==' and rr[0].e.ch[1].cv == 0 and rr[0].e.ch[0].s.endswith('my_rank'), 'topology:root', f.where(), 'the root of the tree is rank 0', note='root: my_rank == 0')

    # ---- (e)
    for name in (PFX + 'send_up_messages', PFX + 'msg_down'):
        f = u.func(name)
        cbs = [e for e in f.calls() if e.fn is None and e.callee is not None and e.callee.k == 'mem' and e.callee.n == 'callback']
        term = [s_ for s_ in f.stores() if s_.lhs.k == 'mem' and s_.lhs.n == 'state' and s_.rhs.s.endswith('TERMINATED')]
        ok = len(cbs) == 1 and len(term) == 1 and f.precedes(term[0], cbs[0]) and f.guarded_by(cbs[0].point, lambda a, t: t and a.s.endswith('result'))
        re_.expect(ok, '%s:callback' % name, cbs[0].loc if cbs else f.where(), '%s: the termination callback must run only after state = TERMINATED, on a positive decision' % name, note='%s: TERMINATED then callback, only on result' % name.replace(PFX, ''))


def _env_at(f, rev):
    for pi in pathq.all_paths(f):
        for e, v in pi.steps:
            if e is rev:
                return v
    return {}


def _resolved(f, rev):
    return aff.norm(rev.e.subst(_env_at(f, rev)))


def _resolved_e(f, rev, e):
    return aff.norm(e.subst(_env_at(f, rev)))
