"""C23 — PTG task keys identify task instances uniquely (clause level, generated code).

R23.a  __jdf2c_make_key_<T> is a mixed-radix encoding: one digit (value_p - T_p_min) per
       parameter of the class, every parameter once; the weight of a digit is the product of the
       T_q_range of the parameters encoded before it.
R23.b  every digit is bounded by its radix: T_p_min / T_p_range are assigned in internal_init
       from accumulators as (min, max - min + 1) and the accumulators are folded with every value
       the parameter takes in the enumeration nest (imin/imax of the range ends before the loop
       over p, or of the value itself for a parameter defined by an expression).
R23.c  key_print inverts the encoding: parameters are decoded in encoding order with
       '% own range + own min' followed by '/ own range', and the decoded parameters are what is
       printed, in declaration order.
"""
import re
from sa import gen
from sa.facts import AnalysisBroken
from rules import gencommon as gc
from rules.gencommon import nexpr


def _params(u, prog, fields):
    out = []
    e = fields.get('params')
    if e is None or e.k != 'init':
        return out
    for c in e.ch:
        for r in c.walk():
            if r.k == 'ref' and r.n.startswith('symb_'):
                out.append(r.n)
    return out


def _factors(e):
    if e.k == 'bin' and e.op == '*':
        return _factors(e.ch[0]) + _factors(e.ch[1])
    return [e]


def q_C23(u, prog):
    rec = gc.Rec()
    classes = gc.task_classes(u)
    funcs = u.funcs()
    for cname, (g, fields) in classes.items():
        mk = fields.get('make_key')
        mkname = None
        if mk is not None:
            for r in mk.walk():
                if r.k == 'ref':
                    mkname = r.n
        if mkname != '__jdf2c_make_key_' + cname:
            rec.info('ud-make-key', '%s: user-defined make_key (%s)' % (cname, mkname))
            continue
        symb = _params(u, prog, fields)
        pre = None
        params = []
        for s in symb:
            pfx = 'symb_%s_%s_' % (prog.name, cname)
            if not s.startswith(pfx):
                rec.broken('%s: parameter symbol %s not understood' % (cname, s))
                params = None
                break
            params.append(s[len(pfx):])
        if params is None:
            continue
        key = '%s:%s' % (prog.name, cname)
        fk = u.func(mkname)
        loc = gc.ploc(prog, mkname)
        if not params:
            continue
        # ---------------- R23.a
        digits = []       # (param, [range-of params])
        okshape = True
        for st in [e for e in fk.events() if e.kind == 'store' and e.lhs.s == '__parsec_id']:
            if st.op == '=' and st.rhs is not None and st.rhs.cv == 0:
                continue
            if st.op != '+=':
                okshape = False; break
            fs = _factors(st.rhs)
            dig = [f for f in fs if f.k == 'bin' and f.op == '-']
            rest = [f for f in fs if not (f.k == 'bin' and f.op == '-')]
            if len(dig) != 1:
                okshape = False; break
            l, r = dig[0].ch
            ml = re.fullmatch(r'assignment->(\w+)\.value', l.s)
            mr = re.fullmatch(r'__parsec_tp->%s_(\w+)_min' % re.escape(cname), r.s)
            if not ml or not mr:
                okshape = False; break
            ws = []
            for f in rest:
                mw = re.fullmatch(r'__parsec_tp->%s_(\w+)_range' % re.escape(cname), f.s)
                if not mw:
                    okshape = False; break
                ws.append(mw.group(1))
            if not okshape:
                break
            digits.append((ml.group(1), mr.group(1), ws, fk.line_of(st.nid)))
        if not okshape:
            rec.broken('%s: make_key is not a sum of (value - min) * ranges terms' % loc)
            continue
        order = [d[0] for d in digits]
        rec.expect(sorted(order) == sorted(params) and len(set(order)) == len(order), 'R23.a', key + ':params', loc,
                   'make_key encodes %s but the parameters of %s are %s: two instances differing in a missing parameter share a key'
                   % (order, cname, params), note='%s: every parameter has one digit' % cname)
        for i, (p, pm, ws, ln) in enumerate(digits):
            rec.expect(p == pm, 'R23.a', key + ':%s:offset' % p, loc + ':%d' % ln,
                       'digit of %s is offset by the minimum of %s' % (p, pm), note='%s.%s offset by its own minimum' % (cname, p))
            rec.expect(sorted(ws) == sorted(order[:i]), 'R23.a', key + ':%s:weight' % p, loc + ':%d' % ln,
                       'digit of %s is weighted by the ranges of %s, expected the ranges of the parameters encoded before it %s (keys collide or overflow into the next digit)'
                       % (p, ws, order[:i]), note='%s.%s weight = product of preceding ranges' % (cname, p))
        # ---------------- R23.b
        cnt = sorted([f for f in funcs if f.endswith('_%s_internal_init' % cname)], key=len)
        if not cnt:
            rec.bad('R23.b', key + ':no-init', loc, 'no internal_init assigns the ranges used by make_key')
            continue
        fc = u.func(cnt[0])
        locc = gc.ploc(prog, fc.name)
        evs = fc.events()
        for p in order:
            smin = [e for e in evs if e.kind == 'store' and e.lhs.s == '__parsec_tp->%s_%s_min' % (cname, p)]
            srng = [e for e in evs if e.kind == 'store' and e.lhs.s == '__parsec_tp->%s_%s_range' % (cname, p)]
            if not rec.expect(len(smin) == 1 and len(srng) == 1, 'R23.b', key + ':%s:assigned' % p, locc,
                              'minimum / range of %s must be assigned exactly once by internal_init (found %d / %d)' % (p, len(smin), len(srng)),
                              note='%s.%s min and range assigned once' % (cname, p)):
                continue
            mn, rg = smin[0].rhs, srng[0].rhs
            amin = '__jdf2c_%s_min' % p; amax = '__jdf2c_%s_max' % p
            acc_form = mn.s == amin and re.sub(r'[() ]', '', rg.s) in ('%s-%s+1' % (amax, amin), '1+%s-%s' % (amax, amin))
            if acc_form:
                # accumulators folded with every value: before the loop over p (range) or with p itself (expression)
                fold_min = [e for e in evs if e.kind == 'store' and e.lhs.s == amin and e.rhs is not None and e.rhs.k == 'call']
                fold_max = [e for e in evs if e.kind == 'store' and e.lhs.s == amax and e.rhs is not None and e.rhs.k == 'call']
                def folds(es, fn_, acc, withs):
                    for e in es:
                        c = e.rhs
                        if c.n == fn_ and len(c.ch) == 2 and {c.ch[0].s, c.ch[1].s} == {acc, withs}:
                            return e
                    return None
                lmin = '__%s_min' % p; lmax = '__%s_max' % p
                e1 = folds(fold_min, 'parsec_imin', amin, lmin); e2 = folds(fold_max, 'parsec_imax', amax, lmax)
                d1 = folds(fold_min, 'parsec_imin', amin, p); d2 = folds(fold_max, 'parsec_imax', amax, p)
                if e1 is not None and e2 is not None:
                    # __p_min = imin(start, end), __p_max = imax(start, end), and the loop over p follows
                    l1 = [e for e in evs if e.kind == 'store' and e.lhs.s == lmin and e.rhs is not None and e.rhs.k == 'call' and e.rhs.n == 'parsec_imin']
                    l2 = [e for e in evs if e.kind == 'store' and e.lhs.s == lmax and e.rhs is not None and e.rhs.k == 'call' and e.rhs.n == 'parsec_imax']
                    se = {'__jdf2c_%s_start' % p, '__jdf2c_%s_end' % p}
                    ok = len(l1) == 1 and len(l2) == 1 and {a.s for a in l1[0].rhs.ch} == se and {a.s for a in l2[0].rhs.ch} == se
                    # the loop over p starts at _start and tests against _end (R01.a checks the rest)
                    loops = [x for x in fc.ast_walk() if fc.nodes[x]['k'] == 'for' and fc.nodes[x].get('init', -1) >= 0
                             and fc.expr(fc.nodes[x]['init']).s == '%s = __jdf2c_%s_start' % (p, p)]
                    ok = ok and len(loops) == 1 and ('__jdf2c_%s_end' % p) in fc.expr(fc.nodes[loops[0]]['cond']).s
                    if ok:
                        # the folds happen before the loop, in the same compound, after start/end are set
                        ok = fc.line_of(e1.nid) <= fc.line_of(loops[0]) and fc.line_of(e2.nid) <= fc.line_of(loops[0])
                    rec.expect(ok, 'R23.b', key + ':%s:fold-range' % p, locc,
                               'range accumulators of %s are not folded with imin/imax(start, end) of the loop over %s' % (p, p),
                               note='%s.%s: min/max folded with both ends of every loop over it' % (cname, p))
                elif d1 is not None and d2 is not None:
                    # folded with the value itself: must be inside the enumeration nest, after p is defined, not behind the predicate guard
                    defs = [e for e in evs if e.kind == 'store' and e.lhs.s == p and e.op == '=']
                    ok = bool(defs) and all(fc.line_of(dd.nid) <= fc.line_of(d1.nid) for dd in defs)
                    guarded = any('_pred' in (fc.macro_of(fc.blocks[b]['cond']) or '') for _, _, b in fc.guards(d1.point) if 'cond' in fc.blocks[b])
                    rec.expect(ok and not guarded, 'R23.b', key + ':%s:fold-value' % p, locc,
                               'accumulators of %s must be folded with its value for every point of the execution space (after its definition, before the rank predicate)' % p,
                               note='%s.%s: min/max folded with every value (parameter defined by an expression)' % (cname, p))
                else:
                    rec.bad('R23.b', key + ':%s:unfolded' % p, locc,
                            'the range of %s is computed from accumulators that are never folded with its values' % p)
            else:
                # constant (min, range): sound only if the parameter is that constant
                defs = [e for e in evs if e.kind == 'store' and e.lhs.s == p and e.op == '=']
                const_ok = mn.cv is not None and rg.cv == 1 and defs and all(d.rhs is not None and d.rhs.cv == mn.cv for d in defs)
                dexpr = defs[0].rhs.s if defs else '?'
                rec.expect(const_ok, 'R23.b', key + ':%s:radix' % p, locc,
                           'parameter %s = %s is given minimum %s and range %s although its digit in make_key is its value: the digit is not below its radix, '
                           'key_print decodes %s as %s and shifts every later parameter (jdf_generate_internal_init, need_min_max)'
                           % (p, norm(dexpr), mn.s, rg.s, p, mn.s),
                           note='%s.%s constant parameter with radix 1' % (cname, p))
        # ---------------- R23.c
        kf = fields.get('key_functions')
        kfname = None
        if kf is not None:
            for r in kf.walk():
                if r.k == 'ref':
                    kfname = r.n
        kg = u.glob(kfname) if kfname else None
        kp = None
        if kg is not None:
            try:
                f = kg.fields().get('key_print')
                for r in f.walk():
                    if r.k == 'ref':
                        kp = r.n
            except Exception:
                pass
        if kp is None or kp not in funcs or kfname != '__jdf2c_key_fns_' + cname:
            rec.info('ud-key-print', '%s: key functions %s are user-defined' % (cname, kfname))
            continue
        fp = u.func(kp)
        locp = gc.ploc(prog, kp)
        pe = fp.events()
        dec = []
        shape = True
        pending = None
        for e in pe:
            if e.kind != 'store':
                continue
            if e.lhs.k == 'ref' and e.lhs.n in params and e.rhs is not None and '__parsec_key' in e.rhs.s:
                r = e.rhs
                ok = r.k == 'bin' and r.op == '+'
                if ok:
                    a, b = r.ch
                    if not (a.k == 'bin' and a.op == '%'):
                        a, b = b, a
                    ok = a.k == 'bin' and a.op == '%' and a.ch[0].s == '__parsec_key'
                if not ok:
                    shape = False; break
                mr_ = re.fullmatch(r'__parsec_tp->%s_(\w+)_range' % re.escape(cname), a.ch[1].s)
                mm_ = re.fullmatch(r'__parsec_tp->%s_(\w+)_min' % re.escape(cname), b.s)
                if not mr_ or not mm_:
                    shape = False; break
                pending = [e.lhs.n, mr_.group(1), mm_.group(1), None, fp.line_of(e.nid)]
                dec.append(pending)
            elif e.lhs.s == '__parsec_key' and e.rhs is not None and e.op in ('=', '/='):
                r = e.rhs
                if e.op == '=' and r.k == 'bin' and r.op == '/' and r.ch[0].s == '__parsec_key':
                    d = r.ch[1]
                elif e.op == '/=':
                    d = r
                elif e.op == '=' and '__parsec_key_' in r.s:
                    continue
                else:
                    shape = False; break
                md = re.fullmatch(r'__parsec_tp->%s_(\w+)_range' % re.escape(cname), d.s)
                if not md or pending is None or pending[3] is not None:
                    shape = False; break
                pending[3] = md.group(1)
        if not shape:
            rec.broken('%s: key_print is not a sequence of "%% range + min" / "/ range" steps' % locp)
            continue
        rec.expect([d[0] for d in dec] == order, 'R23.c', key + ':decode-order', locp,
                   'key_print decodes %s but make_key encodes %s (least significant first)' % ([d[0] for d in dec], order),
                   note='%s: decode order = encode order' % cname)
        for d in dec:
            rec.expect(d[0] == d[1] == d[2] == d[3], 'R23.c', key + ':%s:decode' % d[0], locp + ':%d' % d[4],
                       '%s is decoded with range of %s, minimum of %s, then the key is divided by the range of %s' % (d[0], d[1], d[2], d[3]),
                       note='%s.%s decoded with its own range and minimum' % (cname, d[0]))
        pr = [e for e in pe if e.kind == 'call' and e.fn == 'snprintf']
        if rec.expect(len(pr) == 1, 'R23.c', key + ':print', locp, 'key_print must format the key once', note='%s: one snprintf' % cname):
            args = [a.s for a in pr[0].args[3:]]
            fmt = pr[0].args[2]
            rec.expect(args == params and fmt.k == 'str' and fmt.n.count('%d') == len(params) and fmt.n.startswith(cname + '('), 'R23.c',
                       key + ':print-args', locp, 'key_print prints %s with format %s, expected the parameters %s of %s' % (args, fmt.s, params, cname),
                       note='%s: prints its parameters in declaration order' % cname)
    return rec


def norm(s):
    return gc.norm_s(s)


def run(ctx):
    ctx.level = 'translation_validation'
    ctx.explanation = ('Clause level, on the C emitted by a parsec-ptgpp rebuilt from the current sources for every JDF of the build '
                       'plus /verif/corpus (both dependency back-ends in the thorough tier): make_key is a mixed-radix encoding over all '
                       'parameters (R23.a), every digit is bounded by its radix because min/range come from accumulators folded with every '
                       'value of the enumeration (R23.b) - together: injective on the execution space - and key_print inverts it and '
                       'prints the parameters (R23.c).')
    ctx.not_decided = 'programs outside the corpus; user-defined make_key / hash_struct functions; 64-bit overflow of the product of ranges.'
    g = gen.Gen(ctx)
    ra = ctx.rule('R23.a', 'make_key: one digit per parameter, weight = product of preceding ranges', 150)
    rb = ctx.rule('R23.b', 'digits bounded: min/range from accumulators folded with every value of the parameter', 80)
    rc = ctx.rule('R23.c', 'key_print decodes in encoding order with own range/min and prints the parameters', 150)
    progs = [p for p in g.programs(ctx.tier) if not p.expect_fail]
    res = g.scan(progs, q_C23)
    infos = gc.apply_records(ctx, {'R23.a': ra, 'R23.b': rb, 'R23.c': rc}, res)
    for k, v in infos.items():
        ctx.note('%s: %s' % (k, '; '.join('%s %s' % x for x in v[:12])))
    gc.raise_pending(ctx)
