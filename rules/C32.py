"""C32 — the concurrent hash table (class/parsec_hash_table.c) — lock discipline across resizes, clause level."""
from sa import tables, pathq
from sa.facts import AnalysisBroken, lockset_analysis, LockTable, cond_atom
from sa.tables import BASE_LOCKS

U = 'parsec/class/parsec_hash_table.c'
PFX = 'parsec_hash_table_'


def bucket_field_writes(f):
    """stores / ++ / -- on  X->buckets[h].first_item | cur_len  and  item->next_item ; returns (event, bucket-lock-name or None)"""
    out = []
    for ev in f.events():
        if ev.kind != 'store':
            continue
        l = ev.lhs
        if l.k == 'mem' and l.n in ('first_item', 'cur_len') and l.ch[0].k == 'idx' and l.ch[0].ch[0].s.endswith('->buckets'):
            out.append((ev, '%s.lock' % l.ch[0].s))
        elif l.k == 'mem' and l.n == 'next_item':
            out.append((ev, None))
    return out


def run(ctx):
    ctx.explanation = ('Static lock-discipline clauses: (a) lock_bucket[_handle] take the table read lock and then the bucket lock and return holding both; unlock_bucket_handle_impl releases the bucket lock then the read lock on '
                       'every path (reverse order); the locked wrappers insert/find/remove follow the same order with pairing on all exits; (b) ht->rw_hash is written only by init, fini and resize; resize is called only inside a '
                       'write-lock region after re-checking that the head is still the one observed under the read lock; (c) in the old-table walkers every write to a bucket\'s first_item / cur_len and to an item\'s next_item '
                       'happens with that old bucket locked, and the lock is released on every exit (including the return inside the loop); (d) an item unlinked from an old table by find is re-inserted in the top table '
                       'before the old bucket is unlocked; an old table is unlinked from the chain only by the CAS made by the thread that emptied its last used bucket; (e, thorough) external callers pair lock_bucket*/unlock_bucket*.')
    ctx.not_decided = 'linearizability across resizes.'
    u = ctx.extract(U)
    ra = ctx.rule('R32.a', 'lock order rd -> bucket, release in reverse, pairing', floor=8)
    rb = ctx.rule('R32.b', 'rw_hash written only by init/fini/resize; resize only write-locked after re-check', floor=4)
    rc = ctx.rule('R32.c', 'old-table buckets mutated only under their bucket lock; unlocked on every exit', floor=8)
    rd = ctx.rule('R32.d', 'migrated item re-inserted before unlock; old table unlinked only by the emptier', floor=3)

    # ---- (a)
    for name in (PFX + 'lock_bucket', PFX + 'lock_bucket_handle'):
        f = u.func(name); ctx.functions_analysed.add(name)
        ht = f.params[0]['n']
        ls = lockset_analysis(f, BASE_LOCKS)
        rd_ = f.calls('parsec_atomic_rwlock_rdlock'); bl = f.calls('parsec_atomic_lock')
        ok = len(rd_) == 1 and len(bl) == 1 and f.precedes(rd_[0], bl[0]) and bl[0].args[0].s.startswith('&%s->rw_hash->buckets[' % ht) and bl[0].args[0].s.endswith('.lock')
        ex = ls.exits()
        ok = ok and all(len(must) == 2 and must == may and ('rd:%s->rw_lock' % ht) in must for _, must, may, _ in ex) and bool(ex)
        ra.expect(ok, '%s:order' % name, f.where(), '%s must take the read lock, then the bucket lock of the current table, and return holding exactly both' % name, note='%s: rdlock -> bucket lock, returns holding both' % name)
        # the bucket index is the hash computed with the CURRENT table's nb_bits, read under the read lock
        nb = [l for l in f.loads() if l.e.s.endswith('rw_hash->nb_bits')]
        ra.expect(bool(nb) and all(('rd:%s->rw_lock' % ht) in (ls.must_before(l) or ()) for l in nb), '%s:hash-under-rdlock' % name, (nb or [rd_[0]])[0].loc,
                  'the bucket hash must be computed from rw_hash->nb_bits read under the read lock', note='%s: nb_bits read under the read lock' % name)
    f = u.func(PFX + 'unlock_bucket_handle_impl'); ctx.functions_analysed.add(f.name)
    ht = f.params[0]['n']
    bu = f.calls('parsec_atomic_unlock'); ru = f.calls('parsec_atomic_rwlock_rdunlock')
    ok = len(bu) == 1 and len(ru) == 1 and f.precedes(bu[0], ru[0]) and f.postdominates(ru[0].point, (f.entry, 0)) and f.postdominates(bu[0].point, (f.entry, 0))
    ra.expect(ok, 'unlock:order', bu[0].loc if bu else f.where(), 'unlock_bucket_handle must release the bucket lock and then the read lock on every path', note='unlock: bucket unlock -> rdunlock on all paths')
    for name in (PFX + 'insert_impl', PFX + 'find', PFX + 'remove'):
        g = u.func(name); ctx.functions_analysed.add(name)
        ls = lockset_analysis(g, BASE_LOCKS)
        for rev, must, may, loc in ls.exits():
            ra.expect(not may, '%s:exit-locked' % name, loc, '%s may return holding %s' % (name, sorted(may)), note='%s: all locks released at return' % name)
        rd_ = g.calls('parsec_atomic_rwlock_rdlock'); bl = g.calls('parsec_atomic_lock'); bu = g.calls('parsec_atomic_unlock'); ru = g.calls('parsec_atomic_rwlock_rdunlock')
        ok = len(rd_) == 1 and len(bl) == 1 and len(bu) == 1 and len(ru) == 1 and g.precedes(rd_[0], bl[0]) and g.precedes(bl[0], bu[0]) and g.precedes(bu[0], ru[0])
        inner = [c for c in g.calls() if c.fn and c.fn.startswith(PFX + 'nolock_')]
        ok = ok and inner and all(g.precedes(bl[0], c) and g.precedes(c, bu[0]) for c in inner)
        ra.expect(ok, '%s:order' % name, g.where(), '%s must be rdlock -> bucket lock -> nolock operation -> bucket unlock -> rdunlock' % name, note='%s: nolock operation inside rd + bucket locks' % name)

    # ---- (f) the locked entry points read the current table (pointer, size, buckets) only inside the rw_lock region:
    #          a bucket index computed from a table observed before the read lock can belong to a table that was resized away
    rf = ctx.rule('R32.f', 'locked entry points read rw_hash / nb_bits / buckets only under rw_lock', floor=15)
    for name in (PFX + 'insert_impl', PFX + 'find', PFX + 'remove', PFX + 'lock_bucket', PFX + 'lock_bucket_handle'):
        g = u.func(name); ctx.functions_analysed.add(name)
        ls = lockset_analysis(g, BASE_LOCKS)
        for l in g.loads():
            if not (l.e.k == 'mem' and l.e.n in ('rw_hash', 'nb_bits', 'buckets')):
                continue
            must = ls.must_before(l)
            if must is None:
                continue
            rf.expect(any(x.endswith('->rw_lock') for x in must), '%s:%s-unlocked' % (name, l.e.n), l.loc,
                      '%s reads %s outside the rw_lock region: the table can be resized between this read and the lock, and the bucket index / head derived from it is stale' % (name, l.e.s),
                      note='%s: %s read under rw_lock' % (name, l.e.n))

    # ---- (g) chain walks with a trailing pointer: each walk of a bucket chain starts with the trailing pointer reset, in the
    #          same loop iteration - a predecessor left over from the previous (younger) table makes the unlink patch the wrong chain
    from rules import gencommon as gcm
    rg = ctx.rule('R32.g', 'bucket-chain walks: the trailing (predecessor) pointer is reset where each chain walk starts', floor=2)
    for name, g in sorted(u.funcs().items()):
        if not g.file.endswith('parsec_hash_table.c'):
            continue
        preds = {s_.lhs.ch[0].s for s_ in g.stores() if s_.lhs.k == 'mem' and s_.lhs.n == 'next_item' and s_.lhs.ch[0].k == 'ref'}
        # trailing pointers: locals that are also assigned from the walking pointer
        starts = [s_ for s_ in g.stores() if s_.lhs.k == 'ref' and s_.rhs is not None and s_.rhs.k == 'mem' and s_.rhs.n == 'first_item']
        if not preds or not starts:
            continue
        par = gcm.parent_map(g)
        def loops(nid):
            out = []
            for a in gcm.ancestors(par, nid):
                nd = g.nodes[a]
                if nd['k'] not in ('for', 'while', 'do'):
                    continue
                # a statement in the init clause of a for loop runs once, before the loop: it is not inside it
                if nd['k'] == 'for' and nd.get('init', -1) >= 0 and nid in set(g.ast_walk(nd['init'])):
                    continue
                out.append(a)
            return out
        for pvar in sorted(preds):
            trail = [s_ for s_ in g.stores(pvar) if s_.rhs is not None and s_.rhs.k == 'ref' and any(st.lhs.s == s_.rhs.s for st in starts)]
            if not trail:
                continue        # not a trailing pointer of a chain walk
            ctx.functions_analysed.add(name)
            for st in starts:
                if not any(t.rhs.s == st.lhs.s for t in trail):
                    continue
                if not loops(st.nid) :
                    continue    # a single walk: the declaration initialiser is enough (checked below)
                resets = [r for r in g.stores(pvar) if r.rhs is not None and r.rhs.cv == 0 and g.dominates(r.point, st.point) and loops(r.nid)[:len(loops(st.nid))] == loops(st.nid)]
                rg.expect(bool(resets), 'walk-reset:%s:%s' % (name, pvar), st.loc,
                          '%s starts walking a bucket chain (%s) inside a loop over the tables without resetting its trailing pointer %s in that iteration: the predecessor of the previous table is used to unlink in this one (the item stays findable, its successors hang off two chains)'
                          % (name, st.e.s if st.e is not None else st.lhs.s, pvar), note='%s: %s reset where the walk of each chain starts' % (name, pvar))

    # ---- (b)
    writers = {}
    for g in u.funcs().values():
        if not g.file.endswith('parsec_hash_table.c'):
            continue
        for s_ in g.stores():
            if s_.lhs.k == 'mem' and s_.lhs.n == 'rw_hash':
                writers.setdefault(g.name, []).append(s_)
    allowed = {PFX + 'init', PFX + 'fini', PFX + 'resize'}
    for name, sts in writers.items():
        rb.expect(name in allowed, 'rw_hash-writer:%s' % name, sts[0].loc, '%s writes ht->rw_hash (only init, fini and resize may)' % name, note='%s writes rw_hash' % name)
    ncalls = 0
    for g in u.funcs().values():
        for c in g.calls(PFX + 'resize'):
            ncalls += 1
            ht = c.args[0].s
            ls = lockset_analysis(g, BASE_LOCKS)
            must = ls.must_before(c) or frozenset()
            def recheck(a, t):
                return t and a.k == 'bin' and a.op == '==' and any(x.s == '%s->rw_hash' % ht for x in a.ch)
            gs = [(a, t, b) for a, t, b in g.guards(c.point) if recheck(a, t)]
            locked_test = False; snap_ok = False
            for a, t, b in gs:
                lds = [e for e in g.block_events(b) if e.kind == 'load' and e.e.s == '%s->rw_hash' % ht]
                locked_test = bool(lds) and all(('wr:%s->rw_lock' % ht) in (ls.must_before(e) or ()) for e in lds)
                other = [x for x in a.ch if x.s != '%s->rw_hash' % ht]
                if other and other[0].k == 'ref':
                    src = [s_ for s_ in g.stores(other[0].s) if s_.rhs is not None and s_.rhs.s == '%s->rw_hash' % ht]
                    rdun = g.calls('parsec_atomic_rwlock_rdunlock')
                    # the snapshot is taken while the read lock is held: either acquired in this function, or (unlock
                    # function, entered with the lock held by contract) before this function releases it
                    snap_ok = len(src) == 1 and (any(l.startswith('rd:') for l in (ls.must_before(src[0]) or ())) or (len(rdun) == 1 and g.precedes(src[0], rdun[0])))
            rb.expect(('wr:%s->rw_lock' % ht) in must and locked_test and snap_ok, 'resize-call:%s' % g.name, c.loc,
                      '%s: resize must be called under the write lock, after re-checking (under that lock) that rw_hash is still the head snapshotted under the read lock' % g.name,
                      note='%s: resize under wrlock after head re-check' % g.name)
    if ncalls < 2:
        raise AnalysisBroken('expected >= 2 resize call sites, found %d' % ncalls)

    # ---- (c) + (d)
    for name in (PFX + 'nolock_remove_from_old_tables', PFX + 'nolock_find_in_old_tables'):
        f = u.func(name); ctx.functions_analysed.add(name)
        ls = lockset_analysis(f, BASE_LOCKS)
        bl = f.calls('parsec_atomic_lock')
        if len(bl) != 1:
            raise AnalysisBroken('%s: expected one bucket lock site' % name)
        lock = BASE_LOCKS.lockname(BASE_LOCKS.acquire['parsec_atomic_lock'], bl[0])
        n = 0
        for ev, lk in bucket_field_writes(f):
            must = ls.must_before(ev)
            if must is None:
                continue
            n += 1
            rc.expect(lock in must and (lk is None or lk == lock), '%s:unlocked-write' % name, ev.loc, '%s: %s written without holding the lock of that old-table bucket' % (name, ev.lhs.s), note='%s: %s under old bucket lock' % (name, ev.lhs.s))
        if n < 3:
            raise AnalysisBroken('%s: expected >= 3 bucket mutations, found %d' % (name, n))
        for rev, must, may, loc in ls.exits():
            rc.expect(not may, '%s:exit-locked' % name, loc, '%s may return holding %s' % (name, sorted(may)), note='%s: bucket lock released at return' % name)
        # each loop iteration over the tables ends unlocked: the lock is released before moving to the next table
        adv = [s_ for s_ in f.stores() if s_.lhs.k == 'ref' and s_.rhs is not None and s_.rhs.k == 'mem' and s_.rhs.n == 'next' and s_.rhs.ch[0].s == s_.lhs.s]
        for a_ in adv:
            must = ls.may_before(a_)
            rc.expect(must is not None and not must, '%s:next-table-locked' % name, a_.loc, '%s moves to the next old table while still holding a bucket lock' % name, note='%s: unlocked before next table' % name)
        # old table unlinked from the chain only by the thread that emptied its last used bucket
        cas = f.calls('parsec_atomic_cas_ptr')
        dec = [e for e in f.calls('parsec_atomic_fetch_dec_int32') if e.args[0].s.endswith('used_buckets')]
        for c in cas:
            def last_bucket(a, t):
                z = None
                r = pathq.rel(a)
                return t and r is not None and r[0] == '==' and ('1' in (repr(r[1]), repr(r[2])))
            def emptied(a, t):
                return pathq.asserted_zero(a, t) is not None
            ok = c.args[0].s.endswith('->next') and f.guarded_by(c.point, last_bucket) and f.guarded_by(c.point, emptied) and any(f.precedes(d, c) for d in dec)
            rd.expect(ok, '%s:unlink-old-table' % name, c.loc, '%s: an old table may be unlinked only after this thread brought cur_len to 0 and used_buckets from 1 to 0' % name, note='%s: CAS unlink guarded by cur_len == 0 and old used_buckets == 1' % name)
    f = u.func(PFX + 'nolock_find_in_old_tables')
    ins = f.calls(PFX + 'nolock_insert'); unl = f.calls('parsec_atomic_unlock')
    found_ret = [r for r in f.returns() if r.e is not None and r.e.cv != 0]
    ok = len(ins) == 1 and found_ret and all(f.dominates(ins[0].point, r.point) for r in found_ret)
    if ok:
        item = ins[0].args[1].s
        unlink = [s_ for s_ in f.stores() if s_.rhs is not None and s_.rhs.s == '%s->next_item' % item and s_.lhs.k != 'ref']
        inner_unlock = [x for x in unl if any(f.dominates(x.point, r.point) for r in found_ret) and f.in_loop(ins[0].block) & f.in_loop(x.block) or any(f.dominates(x.point, r.point) and f.precedes(ins[0], x) for r in found_ret)]
        ok = len(unlink) == 2 and all(f.ordered(s_, ins[0]) for s_ in unlink) and any(f.precedes(ins[0], x) for x in unl)
    rd.expect(ok, 'find_old:migrate', ins[0].loc if ins else f.where(), 'an item found in an old table must be unlinked there and inserted in the top table before the old bucket is unlocked and the item returned', note='found item: unlink -> insert in top table -> unlock -> return')

    # ---- (e) thorough: external callers
    if ctx.tier == 'thorough':
        re_ = ctx.rule('R32.e', 'external callers pair lock_bucket* with unlock_bucket* on all paths', floor=10)
        hits = ctx.scan(ctx.all_units(), q_pairs, main_only=True)
        for fn, file, loc, ok, why in hits:
            re_.expect(ok, 'caller:%s' % fn, loc, '%s: %s' % (fn, why), note='%s: bucket lock paired' % fn)


def q_pairs(unit):
    out = []
    for f in unit.funcs().values():
        if f.name.startswith('parsec_hash_table_'):
            continue
        if not f.calls(set(tables.HT_LOCKS.acquire)):
            continue
        ls = lockset_analysis(f, tables.HT_LOCKS)
        bad = [(loc, sorted(may)) for rev, must, may, loc in ls.exits() if may]
        if bad:
            out.append((f.name, f.file, bad[0][0], False, 'may return holding %s' % bad[0][1]))
        else:
            out.append((f.name, f.file, f.where(), True, ''))
    return out
