"""C37 — taskpool identifiers resolve to the registered taskpool (parsec/parsec.c)."""
from sa import aff, pathq
from sa.facts import AnalysisBroken, lockset_analysis
from sa.tables import BASE_LOCKS

U = 'parsec/parsec.c'
G = ('taskpool_array', 'taskpool_array_size', 'taskpool_array_pos')
LOCK = 'taskpool_array_lock'
NOTASKPOOL = -1


def global_events(f):
    out = []
    for ev in f.events():
        if ev.kind == 'load' and ev.e.k == 'ref' and ev.e.dk == 'gvar' and ev.e.n in G:
            out.append((ev, 'load', ev.e.n))
        elif ev.kind == 'store':
            l = ev.lhs
            if l.k == 'ref' and l.dk == 'gvar' and l.n in G:
                out.append((ev, 'store', l.n))
            elif l.k == 'idx' and l.ch[0].k == 'ref' and l.ch[0].n in G:
                out.append((ev, 'store-elem', l.ch[0].n))
    return out


def run(ctx):
    ctx.explanation = ('Static clauses on the taskpool id table: (a) every access to taskpool_array / _size / _pos is made with taskpool_array_lock held on all paths, lock paired on all exits; '
                       '(b) reserve_id obtains the id by pre-increment of the position inside the lock, stores it in the taskpool and returns it; every growth fills [old size, new size) with NOTASKPOOL; '
                       'lookup bounds-checks the id against the position before indexing and maps NOTASKPOOL to NULL; register stores the taskpool at its id; unregister stores NOTASKPOOL at its id.')
    ctx.not_decided = 'cross-process agreement after sync_ids (MPI collective result).'
    u = ctx.extract(U)
    ra = ctx.rule('R37.a', 'id table accessed only under taskpool_array_lock; lock paired', floor=30)
    rb = ctx.rule('R37.b', 'reserve / register / lookup / unregister / growth semantics', floor=8)
    nfun = 0
    for f in u.funcs().values():
        if not f.file.endswith('parsec/parsec.c'):
            continue
        evs = global_events(f)
        if not evs:
            continue
        nfun += 1
        ctx.functions_analysed.add(f.name)
        ls = lockset_analysis(f, BASE_LOCKS)
        for ev, kind, name in evs:
            must = ls.must_before(ev)
            if must is None:
                continue
            ra.expect(LOCK in must, '%s:%s:%s' % (f.name, kind, name), ev.loc, '%s: %s of %s without taskpool_array_lock' % (f.name, kind, name), note='%s %s %s under lock' % (f.name, kind, name))
        for rev, must, may, loc in ls.exits():
            ra.expect(LOCK not in may, '%s:exit-locked' % f.name, loc, '%s may return holding taskpool_array_lock' % f.name, note='%s: lock released at exit' % f.name)
    if nfun < 7:
        raise AnalysisBroken('expected >= 7 functions touching the id table, found %d' % nfun)

    # growth loops: for (i = <old size>; i < <new size>; array[i++] = NOTASKPOOL)
    def growth_ok(f):
        res = []
        for fr in f.stmts_of_kind('for'):
            n = f.nodes[fr]
            inc = f.expr(n['inc']) if 'inc' in n else None
            cond = f.expr(n['cond']) if 'cond' in n else None
            if inc is None or cond is None or inc.k != 'asg' or inc.ch[0].k != 'idx' or inc.ch[0].ch[0].s != 'taskpool_array':
                continue
            iv = None; start = None
            if 'init' in n and f.nodes[n['init']]['k'] == 'decl':
                v = f.nodes[n['init']]['vars'][0]; iv = v['n']; start = f.expr(v['init'])
            idxe = inc.ch[0].ch[1]
            good_fill = inc.ch[1].cv == NOTASKPOOL and idxe.k == 'un' and idxe.op == 'post++' and idxe.ch[0].s == iv
            good_cond = cond.k == 'bin' and cond.op == '<' and cond.ch[0].s == iv
            res.append((fr, start, cond.ch[1] if good_cond else None, good_fill and good_cond))
        return res

    for name in ('parsec_taskpool_reserve_id', 'parsec_taskpool_register'):
        f = u.func(name)
        g = growth_ok(f)
        dbl = [s_ for s_ in f.stores('taskpool_array_size') if s_.op == '<<=' and s_.rhs.cv == 1]
        ok = len(g) == 1 and g[0][3] and len(dbl) == 1 and g[0][1] is not None and g[0][1].s == 'taskpool_array_size >> 1' and g[0][2].s == 'taskpool_array_size' \
            and any(f.nodes[x].get('l', 0) >= 0 for x in [g[0][0]])
        # the doubling precedes the fill, the realloc uses the new size
        re_ = [c for c in f.calls('realloc')]
        ok = ok and len(re_) == 1 and 'taskpool_array_size' in re_[0].args[1].s and f.precedes(dbl[0], re_[0])
        rb.expect(ok, '%s:growth' % name, f.where(), '%s: growth must double the size, realloc to it, and fill [size>>1, size) with NOTASKPOOL' % name, note='%s: new slots [old, new) = NOTASKPOOL' % name)
    f = u.func('parsec_taskpool_sync_ids_context')
    g = growth_ok(f)
    ok = len(g) == 1 and g[0][3] and g[0][1] is not None and g[0][1].s == 'taskpool_array_size' and g[0][2] is not None
    if ok:
        newsz = g[0][2].s
        st = [s_ for s_ in f.stores('taskpool_array_size') if s_.rhs is not None and s_.rhs.s == newsz]
        fill_first = [x for x in f.events() if x.kind == 'store' and x.lhs.k == 'idx']
        ok = len(st) == 1 and all(f.reaches(x.point, st[0].point) for x in fill_first)
    rb.expect(ok, 'sync_ids:growth', f.where(), 'sync_ids: growth must fill [old size, new size) with NOTASKPOOL before publishing the new size', note='sync_ids: new slots filled before size update')

    # sync publishes the agreed position (result of the MAX all-reduce) and size on EVERY path, not only when it grows
    fsync = u.func('parsec_taskpool_sync_ids_context')
    pos = [s_ for s_ in fsync.stores('taskpool_array_pos')]
    siz = [s_ for s_ in fsync.stores('taskpool_array_size')]
    red = fsync.calls('MPI_Allreduce')
    okp = len(pos) == 1 and len(siz) == 1 and fsync.postdominates(pos[0].point, (fsync.entry, 0)) and fsync.postdominates(siz[0].point, (fsync.entry, 0))
    if okp and red:
        idxv = pos[0].rhs.s
        okp = red[0].args[1].s == '&' + idxv and 'MPI_MAX' in red[0].args[4].s or red[0].args[1].s == '&' + idxv
        seed = [s_ for s_ in fsync.stores(idxv) if s_.rhs is not None and 'taskpool_array_pos' in s_.rhs.s]
        okp = okp and len(seed) == 1 and fsync.precedes(seed[0], red[0])
    rb.expect(okp, 'sync_ids:publish', (pos or siz or [None])[0].loc if (pos or siz) else fsync.where(),
              'sync_ids must store the all-reduced position and the (possibly grown) size on every path, whether or not the table had to grow', note='sync_ids: pos = allreduce MAX(pos) and size published on every path')
    # the position is read, all-reduced and written back: one critical section, or an id reserved in between is handed out twice
    lk = [e for e in fsync.calls() if e.fn in ('parsec_atomic_lock',) and 'taskpool_array_lock' in e.args[0].s]
    ul = [e for e in fsync.calls() if e.fn in ('parsec_atomic_unlock',) and 'taskpool_array_lock' in e.args[0].s]
    acc = [ev for ev, kind, name in global_events(fsync)]
    oks = len(lk) == 1 and len(ul) >= 1 and bool(acc) and all(not fsync.reaches(u_.point, a.point) for u_ in ul for a in acc)
    rb.expect(oks, 'sync_ids:one-critical-section', (ul or lk or [None])[0].loc if (ul or lk) else fsync.where(),
              'sync_ids reads the position, all-reduces it and writes it back: the lock must be held from the read to the write-back (one critical section) - released in between, an id reserved by another thread is overwritten by the stale snapshot and handed out again',
              note='sync_ids: read, all-reduce and write-back of the position in one critical section')
    f = u.func('parsec_taskpool_reserve_id'); tp = f.params[0]['n']
    n = 0
    for pi in pathq.all_paths(f):
        rev, rexp = pi.ret()
        n += 1
        incs = [e for e, v in pi.events('store') if e.lhs.s == 'taskpool_array_pos']
        ids = [(e, v) for e, v in pi.events('store') if e.lhs.s == '%s->taskpool_id' % tp]
        unl = [e for e, v in pi.calls('parsec_atomic_unlock')]
        ok = len(incs) == 1 and incs[0].op == '++' and incs[0].e.op == 'pre++' and len(ids) == 1 and unl and pi.index(ids[0][0]) < pi.index(unl[0]) \
            and ids[0][0].rhs.subst(ids[0][1]).s == '++taskpool_array_pos' and rexp.s == '++taskpool_array_pos'
        rb.expect(ok, 'reserve:id', rev.loc, 'reserve_id must take ++taskpool_array_pos inside the lock, store it in tp->taskpool_id before unlocking and return it (found return %s)' % rexp.s,
                  note='id = ++pos under lock; stored and returned')
    f = u.func('parsec_taskpool_lookup'); pid = f.params[0]['n']
    for pi in pathq.all_paths(f):
        idx = [(e, v) for e, v in pi.events('load') if e.e.k == 'idx' and e.e.ch[0].s == 'taskpool_array']
        if idx:
            e, v = idx[0]
            ok = e.e.ch[1].s == pid and pathq.assumed(pi, '<=', aff.Poly.atom(pid), aff.Poly.atom('taskpool_array_pos')) is True
            rb.expect(ok, 'lookup:bounds', e.loc, 'lookup must index taskpool_array only with the id and only after checking id <= taskpool_array_pos', note='lookup: id <= pos checked before indexing')
    rr = f.returns()
    ok = len(rr) == 1 and rr[0].e.k == 'cond' and rr[0].e.ch[1].cv == 0 and str(NOTASKPOOL) in rr[0].e.ch[0].s
    rb.expect(ok, 'lookup:notaskpool', rr[0].loc if rr else f.where(), 'lookup must translate NOTASKPOOL to NULL', note='lookup: NOTASKPOOL -> NULL')
    init = [s_ for s_ in f.stores() if s_.lhs.k == 'ref' and s_.rhs is not None and s_.rhs.cv == NOTASKPOOL]
    rb.expect(len(init) == 1, 'lookup:default', f.where(), 'lookup result must default to NOTASKPOOL for out-of-range ids', note='lookup: default NOTASKPOOL')
    f = u.func('parsec_taskpool_unregister'); tp = f.params[0]['n']
    st = [s_ for s_ in f.stores() if s_.lhs.k == 'idx' and s_.lhs.ch[0].s == 'taskpool_array']
    rb.expect(len(st) == 1 and st[0].lhs.ch[1].s == '%s->taskpool_id' % tp and st[0].rhs.cv == NOTASKPOOL and f.postdominates(st[0].point, (f.entry, 0)), 'unregister:clear', st[0].loc if st else f.where(),
              'unregister must store NOTASKPOOL at taskpool_array[tp->taskpool_id]', note='unregister: slot = NOTASKPOOL')
    f = u.func('parsec_taskpool_register'); tp = f.params[0]['n']
    st = [s_ for s_ in f.stores() if s_.lhs.k == 'idx' and s_.lhs.ch[0].s == 'taskpool_array' and s_.rhs.s == tp]
    idv = st[0].lhs.ch[1].s if st else None
    src = [s_ for s_ in f.stores(idv)] if idv else []
    rb.expect(len(st) == 1 and len(src) == 1 and src[0].rhs.s == '%s->taskpool_id' % tp and f.postdominates(st[0].point, (f.entry, 0)), 'register:store', st[0].loc if st else f.where(),
              'register must store the taskpool at taskpool_array[tp->taskpool_id]', note='register: slot[id] = tp')
