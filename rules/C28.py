"""C28 — the zone allocator is a correct best-fit allocator (utils/zone_malloc.c) — clause level."""
from sa import aff, pathq, sym
from sa.facts import AnalysisBroken, lockset_analysis, cond_atom
from sa.tables import BASE_LOCKS

U = 'parsec/utils/zone_malloc.c'
TREE_CALLS = ('parsec_rbtree_find', 'parsec_rbtree_find_or_larger', 'parsec_rbtree_insert', 'parsec_rbtree_remove', 'parsec_rbtree_update_node', 'parsec_rbtree_foreach')
LIST_CALLS = ('parsec_list_nolock_pop_front', 'parsec_list_nolock_push_front', 'parsec_list_nolock_remove', 'parsec_list_nolock_is_empty', 'parsec_lifo_nolock_push', 'parsec_lifo_pop')
SEG_FIELDS = ('status', 'nb_units', 'nb_prev')
PURE = ('SEGMENT_AT_TID',)


def chunk_key(pi, idx, L):
    """key under which the chunk list L (resolved expression) is filed in the tree at step idx of the path"""
    ev, env = pi.steps[idx]
    mem = env.get('__mem__', {})
    k = mem.get('%s->nb_units' % L.s)
    if k is not None:
        return aff.norm(k), 're-keyed (fl->nb_units = %s)' % k.s
    if L.k == 'call' and L.n == 'parsec_rbtree_find':
        return aff.norm(L.ch[1]), 'found with key %s' % L.ch[1].s
    if L.k == 'call' and L.n == 'allocate_chunk_list':
        return aff.norm(L.ch[1]), 'allocated for key %s' % L.ch[1].s
    return None, 'unknown provenance %s' % L.s


def _run(ctx):
    ctx.explanation = ('Static clauses on zone_malloc.c, decided per enumerated path with symbolic tracking of the segment / chunk-list cells the function itself writes (syntactically different cells assumed distinct: '
                       'prev, current and next segments have different indices): (a) gdata->lock paired on all exits and every tree / list / segment access inside it; (b) best fit: the candidate list comes from '
                       'find_or_larger(tree, ceil(size/unit)); (c) key consistency: every free segment is pushed on a chunk list whose tree key equals the segment\'s nb_units at that point (key from find / '
                       'allocate+insert / successful update_node followed by fl->nb_units = same key); (d) a chunk list left empty is re-keyed-and-refilled or removed from the tree and retired, on every path; '
                       '(e) split and merge arithmetic: sizes add up, nb_prev links updated, zone_free leaves the merged segment with the pre-computed merged size, returned address = base + tid * unit.')
    ctx.not_decided = 'non-overlap for arbitrary histories (follows from these clauses only by an inductive argument that is not mechanised here).'
    u = ctx.extract(U)
    ra = ctx.rule('R28.a', 'gdata->lock pairing; tree/list/segment accesses inside the lock', floor=30)
    rb = ctx.rule('R28.b', 'best fit via find_or_larger(ceil(size/unit)); address = base + tid*unit', floor=2)
    rc = ctx.rule('R28.c', 'segments filed under the key equal to their size', floor=6)
    rd = ctx.rule('R28.d', 'emptied chunk lists re-keyed+refilled or removed+retired', floor=3)
    re_ = ctx.rule('R28.e', 'split / merge arithmetic', floor=6)

    for name in ('zone_malloc', 'zone_free', 'zone_in_use', 'zone_debug'):
        f = u.func(name); ctx.functions_analysed.add(name)
        g = f.params[0]['n']
        lock = '%s->lock' % g
        ls = lockset_analysis(f, BASE_LOCKS)
        for rev, must, may, loc in ls.exits():
            ra.expect(lock not in may, '%s:exit-locked' % name, loc, '%s may return holding the zone lock' % name, note='%s: lock released at return' % name)
        for ev in f.events():
            touch = False
            if ev.kind == 'call' and ev.fn in TREE_CALLS + LIST_CALLS:
                touch = True
            lv = ev.lhs if ev.kind == 'store' else (ev.e if ev.kind == 'load' else None)
            if lv is not None and lv.k == 'mem' and lv.n in SEG_FIELDS and lv.rec in ('segment', 'segment_t', 'zone_malloc_chunk_list_t'):
                touch = True
            if touch:
                must = ls.must_before(ev)
                if must is None:
                    continue
                ra.expect(lock in must, '%s:unlocked:%s' % (name, ev.kind), ev.loc, '%s: allocator state accessed without the zone lock (%s)' % (name, ev.e.s if ev.e is not None else ev.lhs.s), note='%s: %s under lock' % (name, ev.kind))

    # ---------------- zone_malloc ----------------
    f = u.func('zone_malloc'); g = f.params[0]['n']; size = f.params[1]['n']
    npaths = 0
    for pi in pathq.all_paths(f, max_paths=50000, track_mem=True, pure_calls=PURE):
        rev, rexp = pi.ret()
        if rev is None:
            continue
        npaths += 1
        env_end = [v for e, v in pi.steps if e is rev][0]
        pops = pi.calls('parsec_list_nolock_pop_front')
        fol = pi.calls('parsec_rbtree_find_or_larger')
        if not pops:
            # failure returns
            continue
        # (b)
        e, v = fol[0]
        want = aff.norm(sym.resolve(e.args[1], v))
        ceil = want
        okb = len(fol) == 1 and e.args[0].s == '&%s->rbtree' % g and 'unit_size' in repr(want) and size in repr(want) and '/' in repr(want)
        pe, pv = pops[0]
        lst = sym.resolve(pe.args[0], pv)
        okb = okb and lst.s == '&%s->list' % sym.resolve(e.e, v).s
        rb.expect(okb, 'malloc:best-fit', e.loc, 'the segment must be popped from the list returned by find_or_larger(tree, ceil(size / unit_size))', note='candidate = find_or_larger(ceil(size/unit))')
        cur = sym.resolve(pe.e, pv)     # the popped segment
        # returned address
        ra_ = sym.resolve(rev.e, env_end)
        tid = aff.norm(sym.resolve(f.expr(_var(f, 'current_tid')), env_end)) if _var(f, 'current_tid') is not None else None
        rb.expect('%s->base' % g in ra_.s and 'unit_size' in ra_.s, 'malloc:address', rev.loc, 'returned address must be base + tid * unit_size', note='address = base + current_tid * unit_size')
        mem_end = env_end.get('__mem__', {})
        split = pathq.assumed(pi, '<', want, aff.Poly.atom('%s->nb_units' % cur.s))
        if split is None:
            split = pathq.assumed(pi, '>', aff.Poly.atom('%s->nb_units' % cur.s), want)
        pushes = pi.calls('parsec_list_nolock_push_front')
        status = mem_end.get('%s->status' % cur.s)
        re_.expect(status is not None and _is(status, 'SEGMENT_FULL'), 'malloc:status', rev.loc, 'the returned segment must be marked SEGMENT_FULL', note='allocated segment marked FULL')
        emptied = any(a.s.startswith('parsec_list_nolock_is_empty') and t for a, t, _ in pi.assumes())
        L0 = sym.resolve(e.e, v)
        removed = [x for x, w in pi.calls('parsec_rbtree_remove') if sym.resolve(x.args[1], w).s == '&%s->super' % L0.s]
        retired = [x for x, w in pi.calls('parsec_lifo_nolock_push') if L0.s in sym.resolve(x.args[1], w).s]
        upd_ok = [(x, w) for x, w in pi.calls('parsec_rbtree_update_node') if sym.resolve(x.args[1], w).s == '&%s->super' % L0.s and
                  any(a.k == 'bin' and a.op == '==' and 'parsec_rbtree_update_node' in a.s and t for a, t, _ in pi.assumes())]
        if split:
            # (e) split arithmetic
            new = None
            for pe2, pv2 in pushes:
                new = sym.resolve(pe2.args[1], pv2)
            if len(pushes) != 1 or new is None:
                re_.bad('malloc:split-push', rev.loc, 'a split must file exactly one remainder segment (found %d pushes)' % len(pushes)); continue
            seg = new.s[1:-len('->super')] if new.s.startswith('&') and new.s.endswith('->super') else new.s
            nb_new = mem_end.get('%s->nb_units' % seg); nb_cur = mem_end.get('%s->nb_units' % cur.s); prev_new = mem_end.get('%s->nb_prev' % seg); st_new = mem_end.get('%s->status' % seg)
            old = aff.Poly.atom('%s->nb_units' % cur.s)
            ok = nb_new is not None and nb_cur is not None and aff.norm(nb_new) + aff.norm(nb_cur) == old and aff.norm(nb_cur) == want and prev_new is not None and aff.norm(prev_new) == want \
                and st_new is not None and _is(st_new, 'SEGMENT_EMPTY')
            re_.expect(ok, 'malloc:split-sizes', pushes[0][0].loc, 'split: remainder.nb_units + allocated.nb_units must equal the old size, remainder.nb_prev = allocated size, remainder EMPTY '
                       '(found new=%s cur=%s prev=%s status=%s)' % (nb_new and nb_new.s, nb_cur and nb_cur.s, prev_new and prev_new.s, st_new and st_new.s), note='split: sizes add up, nb_prev and status set')
            # the remainder starts right after the allocated part; the following segment's back link shrinks by the allocated size
            ok2 = ('+ %s' % 'nb_units') in seg or repr(want) in repr(aff.norm(_tid_of(seg)))
            nxt = [k for k in mem_end if k.endswith('->nb_prev') and k != '%s->nb_prev' % seg]
            nxt_tests = [t for a, t, _ in pi.assumes() if a.s.startswith('SEGMENT_AT_TID') and ('%s->nb_units' % cur.s) in a.s]
            if not nxt_tests:
                re_.bad('malloc:split-next-prev', pushes[0][0].loc, 'split: the segment following the allocated one is never looked at, its nb_prev back link is not maintained')
            has_next = any(nxt_tests)
            if has_next:
                okn = len(nxt) == 1 and aff.norm(mem_end[nxt[0]]) == aff.Poly.atom(nxt[0]) - want
                re_.expect(okn, 'malloc:split-next-prev', pushes[0][0].loc, 'split: the following segment\'s nb_prev must shrink by the allocated size', note='split: next.nb_prev -= allocated')
            # (c) key of the list receiving the remainder
            pe2, pv2 = pushes[0]
            L = sym.resolve(pe2.args[0], pv2)
            Ls = L.s[1:-len('->list')] if L.s.startswith('&') and L.s.endswith('->list') else L.s
            Lexp = _find_expr(L, Ls)
            key, why = chunk_key(pi, pi.index(pe2), Lexp)
            size_at_push = pv2.get('__mem__', {}).get('%s->nb_units' % seg)
            okk = key is not None and size_at_push is not None and key == aff.norm(size_at_push)
            rc.expect(okk, 'malloc:key', pe2.loc, 'remainder of size %s filed on a chunk list %s' % (size_at_push.s if size_at_push is not None else '?', why), note='remainder filed under key == its size (%s)' % why.split(' (')[0])
            if Lexp.k == 'call' and Lexp.n == 'allocate_chunk_list':
                ins = [x for x, w in pi.calls('parsec_rbtree_insert') if sym.resolve(x.args[1], w).s == '&%s->super' % Ls and pi.index(x) < pi.index(pe2)]
                rc.expect(len(ins) == 1, 'malloc:insert-new-list', pe2.loc, 'a freshly allocated chunk list must be inserted in the tree before use', note='new chunk list inserted in the tree')
            if Ls == L0.s:
                # re-keyed original list: update_node succeeded with the same key that is then stored
                rc.expect(len(upd_ok) == 1 and aff.norm(sym.resolve(upd_ok[0][0].args[2], upd_ok[0][1])) == key, 'malloc:rekey', pe2.loc, 'the emptied list may be reused only after a successful update_node to the same key', note='reused list re-keyed by successful update_node')
        else:
            re_.expect(not pushes, 'malloc:nosplit-push', rev.loc, 'no remainder may be filed when the segment fits exactly', note='exact fit: nothing filed')
        # (d)
        if emptied:
            reused = bool(upd_ok) and any(sym.resolve(x.args[0], w).s == '&%s->list' % L0.s for x, w in pushes)
            gone = len(removed) == 1 and len(retired) == 1
            rd.expect(reused != gone, 'malloc:empty-list', rev.loc, 'the chunk list emptied by this allocation must be either re-keyed and refilled or removed from the tree and retired (reused=%s removed=%d retired=%d)' % (reused, len(removed), len(retired)),
                      note='emptied list: re-keyed+refilled xor removed+retired')
        else:
            rd.expect(not removed and not retired and not upd_ok, 'malloc:nonempty-list', rev.loc, 'a chunk list that still holds segments must stay in the tree unchanged', note='non-empty list untouched')
    if npaths == 0:
        raise AnalysisBroken('zone_malloc: no path')

    # ---------------- zone_free ----------------
    f = u.func('zone_free'); g = f.params[0]['n']
    npaths = 0
    for pi in pathq.all_paths(f, max_paths=200000, track_mem=True, pure_calls=PURE):
        pushes = pi.calls('parsec_list_nolock_push_front')
        rev_env = pi.steps[-1][1]
        if not pushes:
            continue          # error returns
        npaths += 1
        pe, pv = pushes[-1]
        seg = sym.resolve(pe.args[1], pv)
        segs = seg.s[1:-len('->super')] if seg.s.startswith('&') else seg.s
        mem = pv.get('__mem__', {})
        size_at_push = mem.get('%s->nb_units' % segs)
        size_p = aff.norm(size_at_push) if size_at_push is not None else aff.Poly.atom('%s->nb_units' % segs)
        L = sym.resolve(pe.args[0], pv)
        Ls = L.s[1:-len('->list')] if L.s.startswith('&') and L.s.endswith('->list') else L.s
        Lexp = _find_expr(L, Ls)
        key, why = chunk_key(pi, pi.index(pe), Lexp)
        rc.expect(len(pushes) == 1 and key is not None and key == size_p, 'free:key', pe.loc, 'merged free segment of size %r filed on a chunk list %s' % (size_p, why), note='merged segment filed under key == its size (%s)' % why.split(' (')[0])
        if Lexp.k == 'call' and Lexp.n == 'allocate_chunk_list':
            ins = [x for x, w in pi.calls('parsec_rbtree_insert') if sym.resolve(x.args[1], w).s == '&%s->super' % Ls and pi.index(x) < pi.index(pe)]
            rc.expect(len(ins) == 1, 'free:insert-new-list', pe.loc, 'a freshly allocated chunk list must be inserted in the tree before use', note='new chunk list inserted in the tree')
        # merged size pre-computation agrees with the final size
        mv = _var(f, 'merged_nb_units')
        if mv is not None:
            merged = aff.norm(sym.resolve(f.expr(mv), pv))
            re_.expect(merged == size_p, 'free:merged-size', pe.loc, 'the pre-computed merged size %r differs from the size of the segment finally filed %r' % (merged, size_p), note='merged_nb_units == final segment size')
        st = mem.get('%s->status' % segs)
        # status EMPTY of the freed segment (it may be filed under prev's identity after a merge: prev is EMPTY by assumption)
        # (d) every list emptied on this path is re-keyed (and is the list receiving the push) or removed + retired
        emptied = []
        for e2, v2 in pi.calls('parsec_list_nolock_is_empty'):
            r = sym.resolve(e2.e, v2)
            if any(a.s == r.s and t for a, t, _ in pi.assumes()):
                emptied.append(sym.resolve(e2.args[0], v2).s)
        for lst in emptied:
            Lx = lst[1:-len('->list')] if lst.startswith('&') and lst.endswith('->list') else lst
            rem = [x for x, w in pi.calls('parsec_rbtree_remove') if sym.resolve(x.args[1], w).s == '&%s->super' % Lx]
            ret = [x for x, w in pi.calls('parsec_lifo_nolock_push') if Lx in sym.resolve(x.args[1], w).s]
            upd = [(x, w) for x, w in pi.calls('parsec_rbtree_update_node') if sym.resolve(x.args[1], w).s == '&%s->super' % Lx]
            upd_won = [x for x, w in upd if any(a.k == 'bin' and a.op == '==' and sym.resolve(x.e, w).s in a.s and t for a, t, _ in pi.assumes())]
            reused = bool(upd_won) and Ls == Lx
            gone = len(rem) == 1 and len(ret) == 1
            rd.expect(reused != gone, 'free:empty-list', pe.loc, 'a chunk list emptied by a merge must be re-keyed and receive the merged segment, or be removed from the tree and retired (reused=%s removed=%d retired=%d updates=%d won=%d list=%s target=%s)' % (reused, len(rem), len(ret), len(upd), len(upd_won), Lx[:60], Ls[:60]),
                      note='emptied list: re-keyed+refilled xor removed+retired')
    if npaths == 0:
        raise AnalysisBroken('zone_free: no path')
    # nb_prev maintenance and status in zone_free (dominance level)
    st = [s_ for s_ in f.stores() if s_.lhs.k == 'mem' and s_.lhs.n == 'status' and _is(s_.rhs, 'SEGMENT_EMPTY')]
    re_.expect(len(st) == 1 and all(f.dominates(st[0].point, p.point) for p in f.calls('parsec_list_nolock_push_front')), 'free:status', st[0].loc if st else f.where(), 'the freed segment must be marked EMPTY before it is filed', note='freed segment marked EMPTY')
    dbl = [r for r in f.returns() if f.guarded_by(r.point, lambda a, t: t and a.k == 'bin' and a.op == '==' and 'status' in a.s and any(_is(c, 'SEGMENT_EMPTY') for c in a.ch))]
    re_.expect(len(dbl) >= 1, 'free:double-free', f.where(), 'freeing an EMPTY segment must be refused', note='double free refused')
    # every store to a chunk list key is justified by a successful update_node with the same value
    for name in ('zone_malloc', 'zone_free'):
        f = u.func(name)
        for s_ in f.stores():
            if s_.lhs.k == 'mem' and s_.lhs.n == 'nb_units' and s_.lhs.rec == 'zone_malloc_chunk_list_t':
                L = s_.lhs.ch[0].s
                ok = f.guarded_by(s_.point, lambda a, t: t and a.k == 'bin' and a.op == '==' and 'parsec_rbtree_update_node' in a.s and ('&%s->super' % L) in a.s and s_.rhs.s in a.s and 'PARSEC_SUCCESS' in a.s)
                rc.expect(ok, '%s:key-store' % name, s_.loc, '%s: chunk list key stored without a successful update_node(tree, &%s->super, %s)' % (name, L, s_.rhs.s), note='%s: key store justified by successful update_node' % name)


def _is(e, macro):
    return e is not None and (e.s == macro or e.n == macro)


def _var(f, name):
    for nid, n in enumerate(f.nodes):
        if n.get('k') == 'ref' and n.get('n') == name:
            return nid
    return None


def _tid_of(seg):
    from sa.facts import E
    return E('ref', n=seg)


def _find_expr(L, Ls):
    """the expression denoting the chunk list inside &<list>->list"""
    for x in L.walk():
        if x.s == Ls:
            return x
    return L



def run(ctx):
    _run(ctx)
    from rules import whowrites
    whowrites.thorough(ctx, 'C28')
