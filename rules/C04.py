"""C04 — DTD never runs conflicting accesses at the same time."""
from sa import pathq, tables, aff
from sa.facts import AnalysisBroken, cond_atom, field_accesses

U = 'parsec/interfaces/dtd/insert_function.c'
HELPERS = ('parsec_dtd_data_copy_reader_count', 'parsec_dtd_data_copy_reader_retain', 'parsec_dtd_data_copy_reader_release')
# one named exception per (function, access kind), with the reason
EXCEPTIONS = {('parsec_dtd_tile_of', 'store'): 'readers = 0 while creating the tile, before parsec_dtd_tile_insert publishes it'}
DTD_UNITS = ['parsec/interfaces/dtd/insert_function.c', 'parsec/interfaces/dtd/overlap_strategies.c', 'parsec/interfaces/dtd/parsec_dtd_data_flush.c',
             'parsec/interfaces/dtd/insert_function.c']


def q_readers(unit):
    out = []
    for f in unit.funcs().values():
        for ac in field_accesses(f, ('readers',), rec='parsec_data_copy_s'):
            out.append((f.name, ac.kind, ac.ev.loc, f.file))
    return out


def _loop_headers(f):
    return {h for _, h in f.back_edges()}


def run(ctx):
    ctx.explanation = ('Static clauses: (a) data_lookup_of_dtd_task examines every flow (no DONE return inside the loop) and every flow whose access has the OUTPUT bit returns AGAIN while the copy\'s reader count '
                       'is positive; (b) in the DTD units the reader counter of a data copy is touched only through the three atomic helpers, whose returned value is the post-value (count: current value); '
                       '(c) an AGAIN from prepare_input re-schedules the same task exactly once and never completes it (shared with C16).')
    ctx.not_decided = 'retain/release balance across functions (global counting) and reader-group concurrency.'
    u = ctx.extract(U)
    ra = ctx.rule('R04.a', 'writer waits (AGAIN) while readers > 0; all flows examined', floor=3)
    rb = ctx.rule('R04.b', 'reader counter touched only through atomic helpers returning the post-value', floor=4)
    rc = ctx.rule('R04.c', 'AGAIN from prepare_input: rescheduled once, not completed', floor=1)
    rd = ctx.rule('R04.d', 'chain walk behind a writer: the reader hold is decided on the current task, never on the operation type / flow index already advanced to the next task in line; self-hold released through the earlier flow', floor=4)
    f = u.func('data_lookup_of_dtd_task'); ctx.functions_analysed.add(f.name)
    rets = f.returns()
    again = [r for r in rets if r.e is not None and r.e.s == 'PARSEC_HOOK_RETURN_AGAIN']
    done = [r for r in rets if r.e is not None and r.e.s == 'PARSEC_HOOK_RETURN_DONE']
    if not again or not done:
        raise AnalysisBroken('data_lookup_of_dtd_task: AGAIN/DONE returns not found')
    loop_conds = {f.cond(b).s for b in f.blocks if f.term_kind(b) in ('for', 'while', 'do') and f.cond(b) is not None}
    if not loop_conds:
        raise AnalysisBroken('data_lookup_of_dtd_task: per-flow loop not found')
    ra.expect(all(f.guarded_by(r.point, lambda a, t: a.s in loop_conds and not t) for r in done), 'lookup:done-in-loop', done[0].loc,
              'RETURN_DONE reachable before the per-flow loop has run to completion: later flows would not be examined', note='DONE only after all flows were examined')
    def readers_pos(a, t):
        r = pathq.rel(a)
        return t and r is not None and r[0] == '<' and r[1] == aff.Poly.const(0) and 'parsec_dtd_data_copy_reader_count' in repr(r[2])
    def is_output(a, t):
        return t and a.k == 'bin' and a.op == '&' and 'PARSEC_OUTPUT' in a.s
    for r in again:
        ra.expect(f.guarded_by(r.point, readers_pos), 'lookup:again-guard', r.loc, 'AGAIN must be returned exactly when the reader count of the copy is > 0', note='AGAIN when reader_count(copy) > 0')
    # every path through a loop iteration with the OUTPUT bit set and readers > 0 returns AGAIN: the reader test is guarded only by the OUTPUT test (and copy != NULL)
    tests = [e for e in f.calls('parsec_dtd_data_copy_reader_count')]
    if not tests:
        raise AnalysisBroken('reader_count test missing')
    for t in tests:
        extra = [g for g in f.guards(t.point) if not is_output(g[0], g[1]) and not (g[0].k == 'ref' and g[1]) and g[0].s not in loop_conds]
        ok = any(is_output(a, tr) for a, tr, b in f.guards(t.point)) and not extra
        ra.expect(ok, 'lookup:reader-test-guard', t.loc, 'the reader-count test must be reached for every non-NULL copy accessed with the OUTPUT bit (extra guards: %s)' % [(g[0].s, g[1]) for g in extra],
                  note='reader test guarded only by copy != NULL and (OUTPUT & op)')
        # the copy tested is the flow's input copy
        arg = t.args[0].s
        src = [s_ for s_ in f.stores(arg) if s_.rhs is not None]
        ra.expect(len(src) == 1 and src[0].rhs.s.endswith('.data_in') and 'current_dep' in src[0].rhs.s or len(src) == 1 and src[0].rhs.s.endswith('.data_in'), 'lookup:copy', t.loc,
                  'reader test must be on the flow\'s own data_in copy', note='tested copy = data[flow].data_in')
    # (b)
    for name in HELPERS:
        g = u.func(name); ctx.functions_analysed.add(name)
        rr = g.returns()
        calls = [e for e in g.calls() if e.fn and tables.is_rmw(e.fn) and e.args[0].s.endswith('readers')]
        ok = len(rr) == 1 and len(calls) == 1
        if ok:
            pi = pathq.all_paths(g)[0]
            rev, rexp = pi.ret()
            call = [c for c, v in pi.calls() if c is calls[0]]
            cexp = calls[0].e
            if name.endswith('count'):
                ok = tables.atomic_kind(calls[0].fn) == 'fetch_add' and calls[0].args[1].cv == 0 and rexp.s == cexp.s
            elif name.endswith('retain'):
                ok = tables.atomic_kind(calls[0].fn) == 'fetch_inc' and tables.is_post_value(rexp, cexp)
            else:
                ok = tables.atomic_kind(calls[0].fn) == 'fetch_dec' and tables.is_post_value(rexp, cexp)
        rb.expect(ok, 'helper:%s' % name, g.where(), '%s must perform one atomic update of readers and return the resulting count' % name, note='%s: atomic, returns post-value' % name)
    srcs = ctx.all_units(lambda p: '/interfaces/dtd/' in p or p.endswith('remote_dep_mpi.c') or p.endswith('remote_dep.c')) if ctx.tier == 'thorough' else sorted(set(DTD_UNITS))
    hits = ctx.scan(srcs, q_readers, main_only=False)
    seen = set()
    for fn, kind, loc, file in hits:
        if (fn, kind, loc) in seen:
            continue
        seen.add((fn, kind, loc))
        if '/interfaces/dtd/' not in file:
            continue
        if (fn, kind) in EXCEPTIONS:
            rb.ok(loc, '%s: %s — exception: %s' % (fn, kind, EXCEPTIONS[(fn, kind)]))
            continue
        rb.expect(fn in HELPERS and kind.startswith('atomic:'), 'readers:%s:%s' % (fn, kind.split(':')[0]), loc, 'DTD code touches data_copy->readers directly in %s (%s); only the atomic helpers may' % (fn, kind),
                  note='%s: %s' % (fn, kind))
    # (c) shared with C16
    from rules import C16
    us = ctx.extract('parsec/scheduling.c')
    C16.check_task_progress(ctx, rc, us, only='prepare_input')
    from rules.C03 import check_chain_index
    check_chain_index(ctx, rd)
    from rules import dtdcommon as _D
    _D.check_self_hold_release(ctx, rd, 'self-hold')
