"""Who-may-write rules (thorough tier): every store, increment or atomic read-modify-write of a
protected field anywhere in the program (all units of the compile database) is made by a function of
the reviewed writer table.  The table is frozen per property with one reason per entry."""
import functools

ATOMIC_PREFIXES = ('parsec_atomic_', '__sync_', '__atomic_')


def q_writes(spec, unit):
    """spec: tuple of (record-substring or '', tuple(field names)); returns [(func, file, loc, rec, field, kind)]"""
    out = []
    for f in unit.funcs().values():
        for ev in f.events():
            lvs = []
            if ev.kind == 'store':
                lvs.append((ev.lhs, 'store' if ev.op == '=' else ev.op))
            elif ev.kind == 'call' and ev.fn and ev.fn.startswith(ATOMIC_PREFIXES) and not ev.fn.endswith(('_load', 'rmb', 'wmb', 'mfence')):
                for a in (ev.args or ())[:1]:
                    if a.k == 'un' and a.op == '&':
                        lvs.append((a.ch[0], ev.fn))
            for lv, kind in lvs:
                if lv.k != 'mem':
                    continue
                for rec, fields in spec:
                    if lv.n in fields and (not rec or rec in (lv.rec or '')):
                        out.append((f.name, f.file, ev.loc, lv.rec or '', lv.n, kind))
    return out


def check(ctx, rule, spec, writers, what):
    """writers: {function name: reason}.  Scans every unit of the compile database."""
    hits = ctx.scan(ctx.all_units(), functools.partial(q_writes, tuple((r, tuple(fs)) for r, fs in spec)), main_only=False)
    seen = set()
    for fn, file, loc, rec, field, kind in hits:
        if (fn, loc, field) in seen:
            continue
        seen.add((fn, loc, field))
        rule.expect(fn in writers, 'writer:%s:%s' % (fn, field), loc,
                    '%s writes %s.%s (%s) but is not in the reviewed writer table of %s' % (fn, rec, field, kind, what),
                    note='%s writes %s: %s' % (fn, field, writers.get(fn, '')))
    return hits


# ---------------------------------------------------------------------------------------
# frozen writer tables (reviewed against the tree; one reason per writer)
# ---------------------------------------------------------------------------------------
TABLES = {
 'C25': ('R25.w', 'usagecnt / usagelmt / retained written only by the three repository operations', (('data_repo_entry', ('usagecnt', 'usagelmt', 'retained')),), {
     '__data_repo_lookup_entry_and_create': 'initialises a fresh entry / retains a found one, under the bucket lock',
     '__data_repo_entry_addto_usage_limit': 'adds the announced uses and releases the creator hold, under the bucket lock',
     '__data_repo_entry_used_once': 'counts one use, under the bucket lock'}),
 'C36': ('R36.w', 'tree links and colours written only by the red-black tree module', (('rbtree', ('parent', 'color')),), {
     'parsec_rbtree_insert': 'links the new node', 'parsec_rbtree_insert_fixup': 'recolours', 'parsec_rbtree_delete_fixup': 'recolours',
     'parsec_rbtree_remove': 'relinks around the removed node', 'parsec_rbtree_transplant': 'v->parent = u->parent',
     'parsec_rbtree_left_rotate': 'rotation', 'parsec_rbtree_right_rotate': 'rotation', 'parsec_rbtree_node_construct': 'constructor', 'parsec_rbtree_init': 'sentinel'}),
 'C28': ('R28.w', 'zone segments written only by zone_malloc_init / zone_malloc / zone_free', (('segment', ('nb_units', 'nb_prev', 'status')), ('zone_malloc', ('segments', 'next_tid'))), {
     'zone_malloc_init': 'builds the single free run', 'zone_malloc': 'splits a free run', 'zone_free': 'frees and merges', 'zone_malloc_fini': 'teardown'}),
 'C27': ('R27.w', 'arena accounting written only by the arena module', (('parsec_arena', ('used', 'released', 'max_used', 'max_released')),), {
     'parsec_arena_construct_ex': 'constructor', 'parsec_arena_get_chunk': 'limit-side increment / cache pop', 'parsec_arena_release_chunk': 'cache push / decrement',
     'parsec_arena_allocate_device_private': 'count > 1 accounting and rollback'}),
 'C41': ('R41.w', 'info object arrays (storage and size) written only by info.c', (('info_object_array', ('infos', 'known_infos')),), {
     'parsec_info_object_array_constructor': 'constructor', 'parsec_info_object_array_destructor': 'destructor', 'parsec_info_object_array_init': 'initial size',
     'parsec_ioa_resize_and_rdlock': 'growth under the write lock'}),
 'C29': ('R29.w', 'future status written only by the future classes', (('future', ('status',)),), {
     'parsec_base_future_construct': 'constructor', 'parsec_base_future_init': 'init', 'parsec_base_future_set': 'completion (CAS guarded)',
     'parsec_countable_future_construct': 'constructor', 'parsec_countable_future_init': 'init', 'parsec_countable_future_set': 'completion on the last count',
     'parsec_datacopy_future_construct': 'constructor', 'parsec_datacopy_future_init': 'init', 'parsec_datacopy_future_set': 'completion',
     'parsec_datacopy_future_get_or_trigger_internal': 'test-and-set of TRIGGERED under the future lock'}),
 'C10': ('R10.w', 'the termination monitor word of a taskpool written only by the termination detectors and the taskpool constructor', (('termdet_monitor', ('monitor',)),), {
     '__parsec_taskpool_constructor': 'initial NULL', 'parsec_termdet_local_monitor_taskpool': 'NOT_READY', 'parsec_termdet_local_taskpool_ready': 'CAS NOT_READY -> BUSY',
     'parsec_termdet_local_taskpool_addto_nb_tasks': 'CAS BUSY -> TERMINATING (through the shared helper)', 'parsec_termdet_local_taskpool_addto_runtime_actions': 'same',
     'parsec_termdet_local_taskpool_set_nb_tasks': 'same', 'parsec_termdet_local_taskpool_set_runtime_actions': 'same', 'parsec_termdet_local_termination_detected': 'TERMINATED',
     'parsec_termdet_fourcounter_monitor_taskpool': 'installs its monitor structure', 'parsec_termdet_fourcounter_unmonitor_taskpool': 'clears it',
     'parsec_termdet_user_trigger_monitor_taskpool': 'installs its monitor structure', 'parsec_termdet_user_trigger_unmonitor_taskpool': 'clears it'}),
}


def thorough(ctx, prop, floor=2):
    """adds the who-may-write rule of `prop` in the thorough tier"""
    if ctx.tier != 'thorough' or prop not in TABLES:
        return
    rid, desc, spec, writers = TABLES[prop]
    r = ctx.rule(rid, desc + ' (whole program)', floor)
    check(ctx, r, spec, writers, prop)
