"""C12 — user-triggered termination reaches every process exactly once (termdet/user_trigger)."""
from sa import aff, pathq, tables
from sa.facts import AnalysisBroken, cond_atom

U = 'parsec/mca/termdet/user_trigger/termdet_user_trigger_module.c'
P = aff.Poly


def run(ctx):
    ctx.explanation = ('The broadcast in parsec_termdet_signal_termination is matched (by affine normalisation of its expressions, not by text) against the binary-heap template: r = (me - root + n) % n; children = '
                       '|{c in {2r+1, 2r+2} : c < n}|; for i in [0, children): send to (2r+i+1 + root) % n.  For this template exactly-once delivery to every process holds for every n and every root (argument in DESIGN.md §6: '
                       'every shifted rank c >= 1 has the unique parent floor((c-1)/2) < c, rotation by root is a bijection). Also decided: exactly one send site, inside that loop; the state becomes TERMINATED before the sends; '
                       'the forwarded message carries the root received; the receiver records the root before triggering its own termination; the trigger fires only when BUSY and the pending count produced by the caller\'s own update is 0.')
    ctx.not_decided = 'message transport (C14); an equivalent but differently shaped formula is reported as analysis-broken (exit 2), not as a violation.'
    u = ctx.extract(U)
    ra = ctx.rule('R12.a', 'broadcast expressions match the binary-heap template', floor=5)
    rb = ctx.rule('R12.b', 'single send site in the loop; TERMINATED first; root propagated; trigger guards', floor=6)
    f = u.func('parsec_termdet_signal_termination'); ctx.functions_analysed.add(f.name)
    tp = f.params[0]['n']
    sends = [e for e in f.calls() if e.fn is None and e.callee is not None and e.callee.k == 'mem' and e.callee.n == 'send_am']
    if len(sends) != 1:
        ra.bad('template:sends', f.where(), 'expected exactly one send_am site in signal_termination, found %d' % len(sends)); return
    send = sends[0]
    pis = [pi for pi in pathq.all_paths(f) if pi.calls() and any(e is send for e, v in pi.calls())]
    if not pis:
        raise AnalysisBroken('no path through the send')
    pi = pis[0]
    env = [v for e, v in pi.steps if e is send][0]
    me = P.atom('%s->context->my_rank' % tp); n = P.atom('%s->context->nb_nodes' % tp)
    # root as read from the monitor
    rootv = None
    for s_ in f.stores():
        if s_.lhs.s.endswith('.root') and s_.rhs is not None and s_.rhs.s.endswith('->root'):
            rootv = s_.rhs
    if rootv is None:
        raise AnalysisBroken('msg.root = monitor->root not found')
    root = aff.norm(rootv.subst(env))
    def mod(a, b):
        return P.atom('(%r %% %r)' % (a, b))
    R = mod(me - root + n, n)
    # r
    rvar = None
    for s_ in f.stores():
        if s_.lhs.k == 'ref' and s_.rhs is not None and s_.rhs.k == 'bin' and s_.rhs.op == '%' and 'my_rank' in s_.rhs.s:
            rvar = s_
    if rvar is None:
        raise AnalysisBroken('shifted rank definition not found')
    got = aff.norm(rvar.rhs.subst({k: v for k, v in env.items() if k != rvar.lhs.s}))
    ra.expect(got == R, 'template:shifted-rank', rvar.loc, 'shifted rank is %r, template needs %r' % (got, R), note='r = (me - root + n) %% n')
    r = P.atom(rvar.lhs.s)
    # number of children
    nbv = None
    for s_ in f.stores():
        if s_.lhs.k == 'ref' and s_.rhs is not None and s_.rhs.k == 'cond':
            nbv = s_
    ok = False
    if nbv is not None:
        c1, a1, rest = nbv.rhs.ch
        def lt(c, lhs):
            rr = pathq.rel(c)
            return rr is not None and rr[0] == '<' and rr[1] == lhs and rr[2] == n
        ok = lt(c1, P.const(2) * r + P.const(2)) and a1.cv == 2 and rest.k == 'cond' and lt(rest.ch[0], P.const(2) * r + P.const(1)) and rest.ch[1].cv == 1 and rest.ch[2].cv == 0
    ra.expect(ok, 'template:children-count', nbv.loc if nbv is not None else f.where(), 'number of children must be |{c in {2r+1, 2r+2} : c < n}|', note='children = (2r+2 < n) ? 2 : (2r+1 < n) ? 1 : 0')
    # the loop
    okl = False; iv = None
    for fr in f.stmts_of_kind('for'):
        nd = f.nodes[fr]
        if send.nid not in set(f.ast_walk(nd['body'])):
            continue
        if 'init' in nd and f.nodes[nd['init']]['k'] == 'decl':
            v = f.nodes[nd['init']]['vars'][0]; iv = v['n']; start = f.expr(v['init'])
        else:
            ie = f.expr(nd['init']); iv = ie.ch[0].s; start = ie.ch[1]
        cond = f.expr(nd['cond']); inc = f.expr(nd['inc'])
        okl = start.cv == 0 and cond.k == 'bin' and cond.op == '<' and cond.ch[0].s == iv and nbv is not None and cond.ch[1].s == nbv.lhs.s and inc.k == 'un' and inc.op in ('post++', 'pre++') and inc.ch[0].s == iv
    ra.expect(okl, 'template:loop', send.loc, 'the send loop must run i = 0 .. children-1 with unit step', note='for i in [0, children)')
    # destination
    dst = send.args[2]
    gotd = aff.norm(dst.subst(env))
    I = aff.norm(env[iv]) if iv in env else P.atom(iv)
    wantd = mod(P.const(2) * R + I + P.const(1) + root, n)
    ra.expect(gotd == wantd, 'template:destination', send.loc, 'destination is %r, template needs %r' % (gotd, wantd), note='destination = (2r + i + 1 + root) %% n')
    ra.expect(send.args[3].s.startswith('&') and f.in_loop(send.block), 'template:send-in-loop', send.loc, 'the only send must be inside the child loop', note='single send_am inside the loop')

    # ---- (b)
    st = [s_ for s_ in f.stores() if s_.lhs.k == 'mem' and s_.lhs.n == 'state' and 'TERMINATED' in (s_.rhs.s + (s_.rhs.n or ''))]
    rb.expect(len(st) == 1 and f.precedes(st[0], send) and f.postdominates(st[0].point, (f.entry, 0)), 'signal:state-first', st[0].loc if st else f.where(), 'state must become TERMINATED before any notification is sent', note='state = TERMINATED before the sends')
    cb = [e for e in f.calls() if e.fn is None and e.callee is not None and e.callee.k == 'mem' and e.callee.n == 'callback']
    rb.expect(len(cb) == 1 and f.postdominates(cb[0].point, (f.entry, 0)) and not f.in_loop(cb[0].block), 'signal:callback-once', cb[0].loc if cb else f.where(), 'the local termination callback must run exactly once per signal', note='callback once')
    g = u.func('parsec_termdet_user_trigger_msg_dispatch_taskpool'); ctx.functions_analysed.add(g.name)
    rs = [s_ for s_ in g.stores() if s_.lhs.k == 'mem' and s_.lhs.n == 'root' and s_.rhs is not None and s_.rhs.s.endswith('->root')]
    trig = [e for e in g.calls() if e.fn is None and e.callee is not None and e.callee.k == 'mem' and e.callee.n == 'taskpool_set_nb_tasks']
    rb.expect(len(rs) == 1 and len(trig) == 1 and g.precedes(rs[0], trig[0]) and trig[0].args[1].cv == 0, 'dispatch:root-before-trigger', rs[0].loc if rs else g.where(),
              'a received notification must record the sender\'s root before triggering the local termination', note='root recorded, then set_nb_tasks(0)')
    g = u.func('parsec_termdet_user_trigger_taskpool_set_nb_tasks'); ctx.functions_analysed.add(g.name)
    rs = [s_ for s_ in g.stores() if s_.lhs.k == 'mem' and s_.lhs.n == 'root']
    rb.expect(len(rs) == 1 and rs[0].rhs.s.endswith('my_rank') and g.guarded_by(rs[0].point, lambda a, t: t and a.k == 'bin' and a.op == '==' and 'root' in a.s and (a.ch[1].cv is not None or a.ch[0].cv is not None)), 'trigger:own-root', rs[0].loc if rs else g.where(),
              'a process becomes the root only when no root was received', note='root = my_rank only when unknown')
    for name in ('parsec_termdet_user_trigger_taskpool_set_runtime_actions', 'parsec_termdet_user_trigger_taskpool_addto_runtime_actions'):
        g = u.func(name); ctx.functions_analysed.add(name)
        for c in g.calls('parsec_termdet_signal_termination'):
            busy = g.guarded_by(c.point, lambda a, t: t and a.k == 'bin' and a.op == '==' and 'state' in a.s and 'BUSY' in (a.ch[1].n or a.ch[1].s or '') + (a.ch[0].n or a.ch[0].s or ''))
            zero = False
            for a, t, b in g.guards(c.point):
                z = pathq.asserted_zero(a, t)
                if z is None:
                    continue
                rm = [e for e in g.calls() if e.fn and tables.is_rmw(e.fn) and e.args[0].s.endswith('nb_pending_actions')]
                for e in rm:
                    if tables.atomic_kind(e.fn) == 'cas':
                        if aff.norm(e.args[2]) == z:
                            zero = True
                    elif tables.post_value(_resolve_local(g, e)) == _resolve_poly(g, z, e):
                        zero = True
            rb.expect(busy and zero, '%s:trigger-guard' % name, c.loc, '%s must broadcast only when BUSY and the pending count produced by its own update is 0' % name, note='%s: signal only when BUSY and own post-value == 0' % name.split('_taskpool_')[1])
    rc = ctx.rule('R12.c', 'msg_dispatch: the notification reaches dispatch_taskpool only after the latest lookup was tested registered, monitored and not NOT_READY; otherwise it is delayed under the list lock', floor=6)
    check_dispatch(ctx, u, rc, 'parsec_termdet_user_trigger_msg_dispatch', 'parsec_termdet_user_trigger_msg_dispatch_taskpool')
    # taskpool_ready: the tasks are counted as one pending action BEFORE the taskpool becomes BUSY and the parked notifications are
    # replayed: the replay takes that action away (set_nb_tasks(0) -> addto_runtime_actions(-1)) and the zero crossing is what signals
    g = u.func('parsec_termdet_user_trigger_taskpool_ready'); ctx.functions_analysed.add(g.name)
    inc = [e for e in g.calls() if e.fn and tables.is_rmw(e.fn) and tables.atomic_kind(e.fn) in ('fetch_inc', 'fetch_add') and e.args[0].s.endswith('nb_pending_actions')]
    busy = [s_ for s_ in g.stores() if s_.lhs.k == 'mem' and s_.lhs.n == 'state' and 'BUSY' in ''.join(sorted(gcn(g, s_.rhs)))]
    replay = g.calls('parsec_termdet_user_trigger_msg_dispatch_taskpool')
    ok = len(inc) == 1 and len(busy) == 1 and len(replay) >= 1 and g.postdominates(inc[0].point, (g.entry, 0)) and g.precedes(inc[0], busy[0]) and all(g.ordered(busy[0], r) for r in replay) \
        and all(g.ordered(inc[0], r) for r in replay)
    rc.expect(ok, 'ready:count-then-busy-then-replay', inc[0].loc if inc else g.where(),
              'taskpool_ready must count the tasks as a pending action, then become BUSY, then replay the parked notifications: replayed first, the -1 of the notification meets no +1, no zero crossing is seen and the termination is never signalled (nor forwarded)',
              note='ready: nb_pending_actions++ -> state = BUSY -> replay of parked notifications')


def _resolve_local(g, e):
    return e.e


def _resolve_poly(g, z, e):
    """z is expressed with the local that holds the fetch result (ov + v): substitute the local by the call"""
    for s_ in g.stores():
        if s_.rhs is not None and s_.rhs.nid == e.e.nid and s_.lhs.k == 'ref':
            atom = s_.lhs.s
            t = {}
            for mono, c in z.t.items():
                t[tuple(sorted(repr(aff.norm(e.e)) if a == atom else a for a in mono))] = c
            return aff.Poly(t)
    return z


def check_dispatch(ctx, u, rc, fname, target):
    """A notification may be applied to a taskpool only when that taskpool is registered, monitored and READY; otherwise it is
    parked in the delayed list that taskpool_ready replays.  On every path of msg_dispatch to msg_dispatch_taskpool, the three
    tests (tp != NULL, monitor != NULL, state != NOT_READY) must have been made on the *latest* lookup of the taskpool: applied
    to a taskpool that is not ready, the notification is consumed without effect and never replayed - the rank and its subtree
    of the broadcast get no termination."""
    f = u.func(fname); ctx.functions_analysed.add(f.name)
    npaths = 0; bad = {}
    for pi in pathq.all_paths(f, feasible_only=False):
        calls = pi.calls(target)
        if not calls:
            continue
        npaths += 1
        cev, cenv = calls[0]
        tpv = cev.args[0].s
        # index of the last definition of the taskpool variable before the call
        last = -1
        for i, (ev, env) in enumerate(pi.steps):
            if ev is cev:
                break
            if ev.kind == 'store' and ev.lhs.s == tpv:
                last = i
        seen = {'null': None, 'monitor': None, 'state': None}
        for i, (ev, env) in enumerate(pi.steps):
            if ev is cev:
                break
            if i <= last or ev.kind != 'assume' or not isinstance(ev.op, bool):
                continue
            atom, pol = cond_atom(ev.e)
            truth = ev.op if pol else (not ev.op)
            a = atom.s
            if atom.k == 'ref' and a == tpv:
                seen['null'] = truth            # tp is non-NULL
            elif atom.k == 'mem' and atom.n == 'monitor' and tpv in a:
                seen['monitor'] = truth
            elif atom.k == 'bin' and atom.op == '==' and '->state' in a and 'NOT_READY' in ''.join(sorted(gcn(f, atom))):
                seen['state'] = not truth       # state is not NOT_READY
        for k, v in seen.items():
            if v is not True:
                bad.setdefault(k, pi.id)
    rc.expect(npaths >= 1, 'dispatch:paths', f.where(), 'no path of msg_dispatch reaches msg_dispatch_taskpool', note='%d paths to dispatch_taskpool' % npaths)
    names = {'null': 'the taskpool is registered (tp != NULL)', 'monitor': 'it is monitored (tdm.monitor != NULL)', 'state': 'its state is not NOT_READY'}
    for k in ('null', 'monitor', 'state'):
        rc.expect(k not in bad, 'dispatch:tested:%s' % k, f.where(),
                  'msg_dispatch applies the notification on a path where the latest lookup of the taskpool was not tested for: %s (path %s)' % (names[k], bad.get(k)),
                  note='before dispatch_taskpool, on the latest lookup: %s' % names[k])
    # the parked message is pushed under the list lock
    from sa.facts import lockset_analysis
    from sa.tables import BASE_LOCKS
    ls = lockset_analysis(f, BASE_LOCKS)
    push = [e for e in f.calls() if e.fn in ('parsec_list_nolock_push_back', 'parsec_list_nolock_push_front', 'parsec_list_push_back')]
    ok = len(push) == 1 and (push[0].fn == 'parsec_list_push_back' or any('delayed_messages' in l for l in (ls.must_before(push[0]) or ())))
    rc.expect(ok, 'dispatch:park-locked', push[0].loc if push else f.where(), 'the delayed notification must be appended to the delayed list under its lock', note='delayed message appended under the list lock')


def gcn(f, e):
    from rules import gencommon as gc
    return gc.macro_names(f, e) | {x.s for x in e.walk() if x.k == 'ref'}
