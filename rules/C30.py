"""C30 — the lock-free LIFO (class/lifo.h, 128-bit CAS branch) — clause level."""
from sa import aff, tables, pathq
from sa.facts import AnalysisBroken, cond_atom, field_accesses

U = 'parsec/class/parsec_lifo.c'
HEAD_ITEM = 'lifo_head.data.item'
HEAD_CNT = 'lifo_head.data.guard.counter'
UPD = 'parsec_update_counted_pointer'
# functions allowed to write lifo_head (file suffix, function): reviewed
WRITERS = {
    'parsec_lifo_push': 'CAS on the item pointer', 'parsec_lifo_chain': 'CAS on the item pointer', 'parsec_lifo_pop': 'counted 128-bit CAS', 'parsec_lifo_try_pop': 'counted 128-bit CAS',
    'parsec_lifo_nolock_push': 'nolock variant', 'parsec_lifo_nolock_chain': 'nolock variant', 'parsec_lifo_nolock_pop': 'nolock variant',
    'parsec_update_counted_pointer': 'the counted CAS itself', 'parsec_lifo_construct': 'construction', 'lifo_chain_sorted': 'llp scheduler sorted merge (checked by R30.e)',
}


def q_head(unit):
    out = []
    for f in unit.funcs().values():
        for ev in f.events():
            lv = None
            if ev.kind == 'store':
                lv = ev.lhs
            elif ev.kind == 'call':
                for a in ev.args or ():
                    if a.k == 'un' and a.op == '&' and 'lifo_head' in a.s:
                        lv = a.ch[0]
            if lv is not None and 'lifo_head' in lv.s:
                out.append((f.name, f.file, ev.kind, ev.loc))
    return out


def loads_of(f, suffix):
    return [l for l in f.loads() if l.e.s.endswith(suffix)]


def success(f, call):
    """predicate: guard = this call returned true"""
    def p(a, t):
        return t and a.k == 'call' and a.nid == call.e.nid
    return p


def run(ctx):
    ctx.explanation = ('Static protocol clauses for the configured (128-bit CAS) LIFO: (a) pop/try_pop snapshot the counter, then rmb, then the item, and remove with one counted CAS (counter+1, item->list_next) on that '
                       'snapshot; the popped item is returned / unlinked only on CAS success; NULL only when the snapshot item is NULL (or, try_pop, the CAS failed); (b) push/chain store the snapshot head into the '
                       '(tail\'s) list_next, wmb, then CAS the same snapshot to the new head, retrying in a loop and returning only on success; (c) the counted CAS installs counter+1 and compares the full 128-bit '
                       'snapshot; (d) lifo_head is written only by a frozen set of functions; (e) the llp sorted merge updates the head only through the counted CAS on a snapshot of the same iteration (or the '
                       'single-writer reset), and restores the ring after a failed push.')
    ctx.not_decided = 'linearizability and ABA-freedom as such; memory-model reasoning beyond presence and order of the barriers.'
    u = ctx.extract(U)
    ra = ctx.rule('R30.a', 'pop / try_pop: counter -> rmb -> item snapshot, counted CAS, result only on success', floor=8)
    rb = ctx.rule('R30.b', 'push / chain: link to snapshot, wmb, CAS same snapshot, retry loop', floor=6)
    rc = ctx.rule('R30.c', 'counted CAS installs counter+1 over the 128-bit snapshot', floor=1)
    rd = ctx.rule('R30.d', 'lifo_head written only by the reviewed functions', floor=6)
    re_ = ctx.rule('R30.e', 'llp lifo_chain_sorted: head updated only by counted CAS on a fresh snapshot', floor=3)

    f = u.func(UPD); ctx.functions_analysed.add(UPD)
    cas = f.calls('parsec_atomic_cas_int128')
    old = f.params[1]['n']; item = f.params[2]['n']; addr = f.params[0]['n']
    ok = len(cas) == 1 and cas[0].args[0].s == '&%s->value' % addr and cas[0].args[1].s == '%s.value' % old
    # the new element: counter = old.counter + 1, item = item
    inits = [s_ for s_ in f.stores() if s_.rhs is not None and s_.rhs.k == 'init']
    cnt_ok = False
    if inits:
        def leaves(e):
            if e.k == 'init':
                for c in e.ch:
                    yield from leaves(c)
            else:
                yield e
        lv = list(leaves(inits[0].rhs))
        cnt_ok = any(aff.norm(x) == aff.Poly.atom('%s.data.guard.counter' % old) + aff.Poly.const(1) for x in lv) and any(x.s == item for x in lv)
        ok = ok and cas[0].args[2].s == '%s.value' % inits[0].lhs.s
    r = f.returns()
    rc.expect(ok and cnt_ok and len(r) == 1 and r[0].e.nid == cas[0].e.nid if cas and r else False, 'counted-cas', f.where(),
              'parsec_update_counted_pointer must CAS(&addr->value, old.value, {old.counter+1, item}.value) and return its result', note='CAS128(addr, old, {old.counter + 1, item})')

    for name in ('parsec_lifo_pop', 'parsec_lifo_try_pop'):
        f = u.func(name); ctx.functions_analysed.add(name)
        lc = loads_of(f, HEAD_CNT); li = loads_of(f, HEAD_ITEM); rmb = f.calls('parsec_atomic_rmb'); upd = f.calls(UPD)
        if len(lc) != 1 or len(li) != 1 or len(upd) != 1:
            raise AnalysisBroken('%s: snapshot anchors (counter load %d, item load %d, update %d)' % (name, len(lc), len(li), len(upd)))
        ra.expect(len(rmb) >= 1 and f.precedes(lc[0], rmb[0]) and f.precedes(rmb[0], li[0]), name + ':snapshot-order', li[0].loc,
                  '%s must read the counter, then rmb, then the item pointer' % name, note='%s: counter -> rmb -> item' % name)
        snap = upd[0].args[1].s
        st_c = [s_ for s_ in f.stores('%s.data.guard.counter' % snap) if s_.rhs.s.endswith(HEAD_CNT)]
        st_i = [s_ for s_ in f.stores('%s.data.item' % snap) if s_.rhs.s.endswith(HEAD_ITEM) or (s_.rhs.k == 'asg')]
        itemvar = None
        for s_ in f.stores():
            if s_.lhs.k == 'ref' and s_.rhs is not None and (s_.rhs.s.endswith(HEAD_ITEM) or (s_.rhs.k == 'asg' and s_.rhs.ch[1].s.endswith(HEAD_ITEM))):
                itemvar = s_.lhs.s
        ok = len(st_c) == 1 and itemvar is not None and upd[0].args[0].s.endswith('lifo_head') and upd[0].args[2].s == '%s->list_next' % itemvar \
            and f.precedes(lc[0], upd[0]) and f.precedes(li[0], upd[0])
        ra.expect(ok, name + ':cas-on-snapshot', upd[0].loc, '%s must remove with update_counted_pointer(&lifo_head, <snapshot of this iteration>, item->list_next)' % name,
                  note='%s: counted CAS(snapshot -> item->list_next)' % name)
        win = success(f, upd[0])
        for r in f.returns():
            if r.e is not None and r.e.cv == 0:
                okn = f.guarded_by(r.point, lambda a, t: a.s == itemvar and not t) or (name.endswith('try_pop') and f.guarded_by(r.point, lambda a, t: (not t) and a.k == 'call' and a.nid == upd[0].e.nid))
                ra.expect(okn, name + ':null-return', r.loc, '%s returns NULL although the snapshot item was not NULL' % name, note='%s: NULL only for an empty snapshot%s' % (name, ' or failed CAS' if name.endswith('try_pop') else ''))
            else:
                ra.expect(r.e is not None and r.e.s == itemvar and f.guarded_by(r.point, win), name + ':return-without-cas', r.loc, '%s returns an item without having won the CAS' % name, note='%s: item returned only after winning the CAS' % name)
        cl = [s_ for s_ in f.stores('%s->list_next' % itemvar)]
        ra.expect(len(cl) == 1 and cl[0].rhs.cv == 0 and f.guarded_by(cl[0].point, win), name + ':unlink', cl[0].loc if cl else f.where(),
                  '%s must clear item->list_next only after winning the CAS' % name, note='%s: item->list_next = NULL after success' % name)
        if name == 'parsec_lifo_pop':
            ra.expect(bool(f.in_loop(upd[0].block)), name + ':retry', upd[0].loc, 'pop must retry after a failed CAS', note='pop retries in a loop')

    for name, linkbase in (('parsec_lifo_push', 1), ('parsec_lifo_chain', 1)):
        f = u.func(name); ctx.functions_analysed.add(name)
        li = loads_of(f, HEAD_ITEM); cas = [c for c in f.calls('parsec_atomic_cas_ptr') if c.args[0].s.endswith(HEAD_ITEM)]; wmb = f.calls('parsec_atomic_wmb')
        if len(li) < 1 or len(cas) != 1:
            raise AnalysisBroken('%s: head load / CAS anchors missing' % name)
        nxt = cas[0].args[1].s
        src = [s_ for s_ in f.stores(nxt) if s_.rhs is not None and s_.rhs.s.endswith(HEAD_ITEM)]
        new = cas[0].args[2].s
        link = [s_ for s_ in f.stores() if s_.lhs.k == 'mem' and s_.lhs.n == 'list_next' and s_.rhs is not None and s_.rhs.s == nxt]
        ok = len(src) == 1 and len(link) == 1 and new == f.params[1]['n'] and f.in_loop(cas[0].block) and f.precedes(src[0], link[0]) and f.precedes(link[0], cas[0])
        if name == 'parsec_lifo_push':
            ok = ok and link[0].lhs.ch[0].s == new
        else:
            tail = link[0].lhs.ch[0].s if link else ''
            ts = [s_ for s_ in f.stores(tail) if s_.rhs is not None and s_.rhs.s == '%s->list_prev' % new]
            ok = ok and len(ts) == 1
        rb.expect(ok, name + ':link', (link or cas)[0].loc, '%s must store the head snapshot into the new (tail) element\'s list_next and CAS that same snapshot to the new head, inside the retry loop' % name,
                  note='%s: x->list_next = snapshot; CAS(head, snapshot, new)' % name)
        rb.expect(any(f.precedes(link[0], w) and f.precedes(w, cas[0]) for w in wmb) if link else False, name + ':wmb', cas[0].loc, '%s: no write barrier between linking and publishing' % name, note='%s: wmb between link and CAS' % name)
        win = success(f, cas[0])
        rets = f.returns()
        exits_ok = all(f.guarded_by(r.point, win) for r in rets) if rets else False
        # void function: the only way out of the loop is the success edge
        edges = []
        for b in f.blocks:
            c = f.cond(b)
            if c is not None:
                a, pol = cond_atom(c)
                if a.k == 'call' and a.nid == cas[0].e.nid:
                    edges.append((b, pol))
        rb.expect(bool(edges) and not f.reachable_without_edges(f.exit, edges), name + ':exit', cas[0].loc, '%s can finish without a successful CAS' % name, note='%s: leaves only through the CAS success edge' % name)

    # (d)
    srcs = ctx.all_units() if ctx.tier == 'thorough' else [U, 'parsec/mca/sched/llp/sched_llp_module.c', 'parsec/mempool.c', 'parsec/mca/sched/ll/sched_ll_module.c', 'parsec/class/parsec_object.c']
    seen = set()
    for fn, file, kind, loc in ctx.scan(srcs, q_head, main_only=False):
        if (fn, loc) in seen:
            continue
        seen.add((fn, loc))
        rd.expect(fn in WRITERS, 'writer:%s' % fn, loc, '%s writes lifo_head but is not in the reviewed writer table' % fn, note='%s: %s' % (fn, WRITERS.get(fn, '')))

    # (e)
    ul = ctx.extract('parsec/mca/sched/llp/sched_llp_module.c')
    f = ul.func('lifo_chain_sorted'); ctx.functions_analysed.add(f.name)
    upd = f.calls(UPD)
    if len(upd) < 3:
        raise AnalysisBroken('lifo_chain_sorted: expected 3 counted CAS sites, found %d' % len(upd))
    for c in upd:
        snap = c.args[1].s
        stc = [s_ for s_ in f.stores('%s.data.guard.counter' % snap) if s_.rhs.s.endswith(HEAD_CNT) and f.precedes(s_, c)]
        sti = [s_ for s_ in f.stores() if s_.lhs.s == '%s.data.item' % snap and f.precedes(s_, c)]
        # snapshot of the same loop iteration: same innermost loop
        same_iter = any(f.in_loop(s_.block) & f.in_loop(c.block) for s_ in stc) and any(f.in_loop(s_.block) & f.in_loop(c.block) for s_ in sti)
        re_.expect(bool(stc) and bool(sti) and same_iter and c.args[0].s.endswith('lifo_head'), 'llp:cas-snapshot', c.loc, 'counted CAS in lifo_chain_sorted not preceded by a snapshot of counter and item in the same iteration',
                   note='counted CAS on a snapshot taken in the same iteration')
    plain = [s_ for s_ in f.stores() if 'lifo_head' in s_.lhs.s]
    def single(a, t):
        return a.s == 'single_writer' and t
    re_.expect(all(f.guarded_by(s_.point, single) for s_ in plain) and len(plain) == 2, 'llp:plain-head-write', plain[0].loc if plain else f.where(),
               'plain writes of lifo_head in lifo_chain_sorted are only allowed in the single_writer branch', note='plain head reset only when single_writer')
    if len(plain) == 2:
        cnt = [s_ for s_ in plain if s_.lhs.s.endswith('counter')]; itm = [s_ for s_ in plain if s_.lhs.s.endswith('item')]
        wmb = f.calls('parsec_atomic_wmb')
        re_.expect(len(cnt) == 1 and len(itm) == 1 and any(f.precedes(cnt[0], w) and f.precedes(w, itm[0]) for w in wmb), 'llp:reset-order', itm[0].loc if itm else f.where(),
                   'single-writer reset must bump the counter, wmb, then publish the list', note='single writer: counter++ ; wmb ; item = list')
    # ring restored after a failed front push
    front = [c for c in upd if c.args[2].s == f.params[1]['n']]
    rest = [s_ for s_ in f.stores() if s_.lhs.s == '%s->list_prev->list_next' % f.params[1]['n'] and s_.rhs is not None and s_.rhs.s == f.params[1]['n']]
    re_.expect(len(front) == 1 and len(rest) == 1 and f.guarded_by(rest[0].point, lambda a, t: (not t) and a.k == 'call' and a.nid == front[0].e.nid), 'llp:restore-ring', rest[0].loc if rest else f.where(),
               'after a failed front push the ring must be closed again (ring->list_prev->list_next = ring)', note='ring restored after failed CAS')
