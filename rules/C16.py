"""C16 — deferred tasks are re-run, never lost or duplicated.
Runtime half: __parsec_task_progress (scheduling.c).  Generated-code half (chunked startup): see gen rules."""
from sa import pathq, aff
from sa.facts import AnalysisBroken

DONE, AGAIN, ASYNC = 'PARSEC_HOOK_RETURN_DONE', 'PARSEC_HOOK_RETURN_AGAIN', 'PARSEC_HOOK_RETURN_ASYNC'


def check_task_progress(ctx, rule, u, only=None):
    f = u.func('__parsec_task_progress'); ctx.functions_analysed.add(f.name)
    task = f.params[1]['n']; dist = f.params[2]['n']; es = f.params[0]['n']
    vals = {}
    for nid in f.stmts_of_kind('case'):
        v = f.expr(f.nodes[nid]['val'])
        vals[v.cv] = v.s
    if not {DONE, AGAIN, ASYNC} <= set(vals.values()):
        raise AnalysisBroken('__parsec_task_progress: case labels DONE/AGAIN/ASYNC not found (%s)' % vals)
    n = 0
    EVENTS = {'__parsec_schedule', '__parsec_execute', '__parsec_complete_execution', '__parsec_task_progress'}
    for pi in pathq.all_paths(f, max_paths=50000, inline=u, inline_names=set(u.funcs()) - EVENTS):
        sws = pi.switches()
        if not sws:
            continue
        outer = vals.get(sws[0][1], sws[0][1])
        inner = vals.get(sws[1][1], sws[1][1]) if len(sws) > 1 else None
        prep = [e for e, v in pi.calls() if e.fn is None and e.callee is not None and e.callee.k == 'mem' and e.callee.n == 'prepare_input']
        execs = pi.calls('__parsec_execute')
        comp = [(e, v) for e, v in pi.calls('__parsec_complete_execution') if e.args[1].subst(v).s == task]
        sched = [(e, v) for e, v in pi.calls('__parsec_schedule')]
        status = [(e, v) for e, v in pi.events('store') if e.lhs.k == 'mem' and e.lhs.n == 'status' and e.lhs.ch[0].subst(v).s == task]
        rev, rexp = pi.ret()
        loc = (sched or comp or [(rev, None)])[0][0].loc if (sched or comp or rev) else f.where()
        key = '%s/%s' % (outer, inner)
        n += 1
        def sched_ok():
            if len(sched) != 1:
                return False
            e, v = sched[0]
            return e.args[1].subst(v).s == task and aff.norm(e.args[2].subst(v)) == aff.Poly.atom(dist) + aff.Poly.const(1) and e.args[0].subst(v).s == es
        if outer == AGAIN:
            if only in (None, 'prepare_input'):
                rule.expect(sched_ok() and not comp and not execs and len(prep) == 1, 'progress:prepare-again', loc,
                            'AGAIN from prepare_input must re-schedule the same task exactly once (distance+1) and neither execute nor complete it (sched=%d complete=%d exec=%d)' % (len(sched), len(comp), len(execs)),
                            note='prepare_input AGAIN: one __parsec_schedule(es, task, distance+1), no execute/complete')
        elif outer == DONE and only is None:
            if inner == DONE:
                rule.expect(len(comp) == 1 and not sched, 'progress:done', loc, 'DONE must complete the task exactly once and not re-schedule it (complete=%d sched=%d)' % (len(comp), len(sched)),
                            note='hook DONE: one __parsec_complete_execution, no schedule')
            elif inner == AGAIN:
                ok = sched_ok() and not comp and len(execs) == 1
                hook = [e for e, v in status if e.rhs is not None and (e.rhs.s == 'PARSEC_TASK_STATUS_HOOK' or e.rhs.n == 'PARSEC_TASK_STATUS_HOOK') and pi.index(e) < pi.index(sched[0][0])] if sched else []
                rule.expect(ok and len(hook) == 1, 'progress:hook-again', loc,
                            'AGAIN from the hook must mark the task STATUS_HOOK (so prepare_input is not repeated), re-schedule it exactly once and not complete it (sched=%d complete=%d status=%d)' % (len(sched), len(comp), len(hook)),
                            note='hook AGAIN: status = HOOK, one __parsec_schedule(es, task, distance+1), no complete')
            elif inner == ASYNC:
                rule.expect(not comp and not sched, 'progress:hook-async', loc, 'ASYNC must neither complete nor re-schedule the task', note='hook ASYNC: neither complete nor schedule')
        elif outer == ASYNC and only is None:
            rule.expect(not comp and not sched and not execs, 'progress:prepare-async', loc, 'ASYNC from prepare_input must neither execute, complete nor re-schedule', note='prepare_input ASYNC: nothing')
        if only is None and execs:
            rule.expect(outer == DONE, 'progress:exec-guard', execs[0][0].loc, '__parsec_execute reached although prepare_input did not return DONE (%s)' % outer, note='execute only after prepare_input DONE')
    if n == 0:
        raise AnalysisBroken('__parsec_task_progress: no path analysed')
    # prepare_input is skipped only for tasks already past that stage
    pcs = [e for e in f.calls() if e.fn is None and e.callee is not None and e.callee.k == 'mem' and e.callee.n == 'prepare_input']
    if only is None:
        rule.expect(len(pcs) == 1 and f.guarded_by(pcs[0].point, lambda a, t: t and a.k == 'bin' and a.op == '<=' and a.ch[0].s == '%s->status' % task and (a.ch[1].s == 'PARSEC_TASK_STATUS_PREPARE_INPUT' or a.ch[1].n == 'PARSEC_TASK_STATUS_PREPARE_INPUT')),
                    'progress:prepare-guard', pcs[0].loc if pcs else f.where(), 'prepare_input must run iff status <= PREPARE_INPUT', note='prepare_input iff status <= PREPARE_INPUT')


def run(ctx):
    ctx.explanation = ('Static clauses: (a) in __parsec_task_progress every path classified by the switch labels taken — AGAIN (from prepare_input or the hook) re-schedules the same task exactly once at distance+1 and never '
                       'completes it; the hook-AGAIN path marks STATUS_HOOK first; DONE completes exactly once and does not re-schedule; ASYNC does neither; execute only after prepare DONE. '
                       '(b) on the startup functions emitted by a parsec-ptgpp rebuilt from the current sources for the corpus (JDFs of the build + /verif/corpus): the enumeration state lives in the task (this_task->locals) and is re-read on entry, the resume label chain ends right after the generated instance inside the innermost loop, the chunk is scheduled before AGAIN is returned.')
    ctx.not_decided = 'behaviour for all chunk parameters; how many times a body asks to be re-run.'
    u = ctx.extract('parsec/scheduling.c')
    ra = ctx.rule('R16.a', '__parsec_task_progress: AGAIN/DONE/ASYNC path obligations', floor=6)
    rc16 = ctx.rule('R16.c', 'DTD: a task deferred because of its own earlier READ of the tile has that reader released when the WRITE flow is linked (otherwise it is re-run for ever)', floor=1)
    from rules import dtdcommon as _D
    _D.check_self_hold_release(ctx, rc16, 'dtd-self-hold')
    check_task_progress(ctx, ra, u)
    from rules import gen16
    gen16.check_R16b(ctx)
