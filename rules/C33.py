"""C33 — the runtime read-write lock (class/parsec_rwlock.c, phase-fair ticket implementation) — protocol shape only."""
from sa import aff, tables, pathq
from sa.facts import AnalysisBroken, cond_atom

U = 'parsec/class/parsec_rwlock.c'


def atomics(f, field):
    return [e for e in f.calls() if e.fn and tables.is_rmw(e.fn) and e.args[0].s.lstrip('&').endswith('->' + field)]


def spin_on(f, field):
    """loop conditions reading L-><field>"""
    out = []
    for b in f.blocks:
        c = f.cond(b)
        if c is not None and f.term_kind(b) in ('while', 'do', 'for') and any(x.k == 'mem' and x.n == field for x in c.walk()):
            out.append((b, c))
    return out


def run(ctx):
    ctx.explanation = ('Static protocol-shape clauses for the configured phase-fair ticket lock (Brandenburg & Anderson): per function, the ordered atomic events and spin conditions match the algorithm — '
                       'wrlock: ticket = fetch_inc(win); spin until wout == ticket; fetch_add(rin, PRES | (ticket & PHID)) whose returned value is the number of readers to wait for; spin until rout == that value; rmb. '
                       'wrunlock: wmb; clear the writer bits of rin atomically; then wout + 1 (this order is required by the source comment). rdlock: w = fetch_add(rin, RINC) & WBITS; when non-zero spin while the writer bits are '
                       'unchanged; rmb. rdunlock: wmb; fetch_add(rout, RINC). Constants: PRES|PHID == WBITS < RINC, the cleared mask is ~0xFF. A different PARSEC_RWLOCK_IMPL is reported as analysis-broken.')
    ctx.not_decided = 'mutual exclusion and progress themselves (model-checking territory).'
    u = ctx.extract(U)
    r = ctx.rule('R33', 'phase-fair ticket protocol: event order, spin conditions, constants', floor=12)
    need = ['parsec_atomic_rwlock_rdlock', 'parsec_atomic_rwlock_rdunlock', 'parsec_atomic_rwlock_wrlock', 'parsec_atomic_rwlock_wrunlock']
    fs = {n: u.func(n) for n in need}
    if not atomics(fs['parsec_atomic_rwlock_wrlock'], 'win'):
        raise AnalysisBroken('the compiled rwlock is not the ticket implementation (no atomic on L->win): rules do not apply to this PARSEC_RWLOCK_IMPL')
    RINC, WBITS, PRES, PHID = 0x100, 0x3, 0x2, 0x1

    # ---- wrlock
    f = fs['parsec_atomic_rwlock_wrlock']; ctx.functions_analysed.add(f.name)
    win = atomics(f, 'win'); rin = atomics(f, 'rin'); rmb = f.calls('parsec_atomic_rmb')
    s_wout = spin_on(f, 'wout'); s_rout = spin_on(f, 'rout')
    r.expect(len(win) == 1 and tables.atomic_kind(win[0].fn) == 'fetch_inc' and not f.in_loop(win[0].block), 'wrlock:ticket', win[0].loc if win else f.where(), 'wrlock must take its ticket with one fetch_inc(win)', note='wrlock: ticket = fetch_inc(win)')
    tick = None
    for s_ in f.stores():
        if win and s_.rhs is not None and s_.rhs.nid == win[0].e.nid:
            tick = s_.lhs.s
    ok = len(s_wout) == 1 and tick is not None
    if ok:
        a, pol = cond_atom(s_wout[0][1])
        ok = a.k == 'bin' and a.op == '!=' and pol and {a.ch[0].s.split('->')[-1], a.ch[1].s} == {'wout', tick} and f.dominates(win[0].point, (s_wout[0][0], 0))
    r.expect(ok, 'wrlock:wait-turn', f.loc(f.blocks[s_wout[0][0]]['cond']) if s_wout else f.where(), 'wrlock must spin while wout != ticket, after taking the ticket', note='wrlock: spin while wout != ticket')
    ok = len(rin) == 1 and tables.atomic_kind(rin[0].fn) == 'fetch_add' and s_wout and not f.reaches(rin[0].point, (s_wout[0][0], 0), acyclic=True) and f.reaches((s_wout[0][0], 0), rin[0].point)
    wexp = None
    if ok:
        arg = rin[0].args[1]
        d = [s_ for s_ in f.stores(arg.s) if s_.rhs is not None] if arg.k == 'ref' else []
        wexp = d[-1].rhs if d else arg
        # PRES | (ticket & PHID)
        flat = []
        def fl(e):
            if e.k == 'bin' and e.op == '|':
                fl(e.ch[0]); fl(e.ch[1])
            else:
                flat.append(e)
        fl(wexp)
        okp = any(x.cv == PRES for x in flat) and any(x.k == 'bin' and x.op == '&' and {x.ch[0].s, x.ch[1].s} == {tick, str(PHID)} for x in flat) and len(flat) == 2
        ok = okp
    r.expect(ok, 'wrlock:announce', rin[0].loc if rin else f.where(), 'after its turn the writer must announce itself with fetch_add(rin, PRES | (ticket & PHID))', note='wrlock: fetch_add(rin, PRES | (ticket & PHID)) after the turn')
    rt = None
    for s_ in f.stores():
        if rin and s_.rhs is not None and s_.rhs.nid == rin[0].e.nid:
            rt = s_.lhs.s
    ok = len(s_rout) == 1 and rt is not None
    if ok:
        a, pol = cond_atom(s_rout[0][1])
        ok = a.k == 'bin' and a.op == '!=' and pol and {a.ch[0].s.split('->')[-1], a.ch[1].s} == {'rout', rt} and f.reaches(rin[0].point, (s_rout[0][0], 0)) and not f.reaches((s_rout[0][0], 0), rin[0].point)
    r.expect(ok, 'wrlock:wait-readers', f.loc(f.blocks[s_rout[0][0]]['cond']) if s_rout else f.where(), 'the writer must wait until rout equals the value returned by its fetch_add on rin', note='wrlock: spin while rout != returned rin')
    ok = len(rmb) >= 1 and s_rout and all(not f.in_loop(m.block) for m in rmb) and f.reaches((s_rout[0][0], 0), rmb[-1].point) and f.postdominates(rmb[-1].point, (f.entry, 0))
    r.expect(ok, 'wrlock:acquire-barrier', rmb[-1].loc if rmb else f.where(), 'wrlock must end with a read barrier after the last spin', note='wrlock: rmb after the spins')

    # ---- wrunlock
    f = fs['parsec_atomic_rwlock_wrunlock']; ctx.functions_analysed.add(f.name)
    wmb = f.calls('parsec_atomic_wmb'); rin = atomics(f, 'rin')
    wout = [s_ for s_ in f.stores() if s_.lhs.k == 'mem' and s_.lhs.n == 'wout']
    ok = len(rin) == 1 and tables.atomic_kind(rin[0].fn) == 'fetch_and' and rin[0].args[1].cv is not None and (rin[0].args[1].cv & 0xFFFFFFFF) & 0xFF == 0 and ((rin[0].args[1].cv & 0xFFFFFFFF) | 0xFF) == 0xFFFFFFFF
    r.expect(ok, 'wrunlock:clear', rin[0].loc if rin else f.where(), 'wrunlock must atomically clear exactly the low (writer) byte of rin', note='wrunlock: fetch_and(rin, ~0xFF)')
    ok = len(wout) == 1 and rin and f.precedes(rin[0], wout[0]) and (wout[0].op in ('++',) or (wout[0].rhs is not None and aff.norm(wout[0].rhs) == aff.norm(wout[0].lhs) + aff.Poly.const(1)))
    r.expect(ok, 'wrunlock:order', wout[0].loc if wout else f.where(), 'wrunlock must clear the writer bits of rin BEFORE advancing wout by one', note='wrunlock: rin cleared, then wout + 1')
    r.expect(len(wmb) >= 1 and rin and f.precedes(wmb[0], rin[0]), 'wrunlock:release-barrier', wmb[0].loc if wmb else f.where(), 'wrunlock must start with a write barrier', note='wrunlock: wmb first')

    # ---- rdlock
    f = fs['parsec_atomic_rwlock_rdlock']; ctx.functions_analysed.add(f.name)
    rin = atomics(f, 'rin'); rmb = f.calls('parsec_atomic_rmb'); spins = spin_on(f, 'rin')
    ok = len(rin) == 1 and tables.atomic_kind(rin[0].fn) == 'fetch_add' and rin[0].args[1].cv == RINC and not f.in_loop(rin[0].block)
    r.expect(ok, 'rdlock:announce', rin[0].loc if rin else f.where(), 'rdlock must announce the reader with one fetch_add(rin, RINC)', note='rdlock: fetch_add(rin, RINC)')
    wv = None
    for s_ in f.stores():
        if rin and s_.rhs is not None and s_.rhs.k == 'bin' and s_.rhs.op == '&' and any(c.nid == rin[0].e.nid for c in s_.rhs.ch) and WBITS in (s_.rhs.ch[0].cv, s_.rhs.ch[1].cv):
            wv = s_.lhs.s
    ok = wv is not None and len(spins) == 1
    if ok:
        b, c = spins[0]
        a, pol = cond_atom(c)
        ok = a.k == 'bin' and a.op == '==' and pol and wv in (a.ch[0].s, a.ch[1].s) and any(x.k == 'bin' and x.op == '&' and WBITS in (x.ch[0].cv, x.ch[1].cv) for x in a.ch) \
            and f.guarded_by((b, 0), lambda aa, t: aa.s == wv and t or (aa.k == 'bin' and aa.op == '!=' and wv in aa.s and t))
    r.expect(ok, 'rdlock:wait-writer', f.loc(f.blocks[spins[0][0]]['cond']) if spins else f.where(), 'a reader that saw writer bits must spin while (rin & WBITS) is unchanged, and only then', note='rdlock: if w != 0 spin while w == (rin & WBITS)')
    r.expect(len(rmb) >= 1 and f.postdominates(rmb[-1].point, (f.entry, 0)) and not f.in_loop(rmb[-1].block) and (not spins or f.reaches((spins[0][0], 0), rmb[-1].point)), 'rdlock:acquire-barrier',
             rmb[-1].loc if rmb else f.where(), 'rdlock must end with a read barrier', note='rdlock: rmb last')

    # ---- rdunlock
    f = fs['parsec_atomic_rwlock_rdunlock']; ctx.functions_analysed.add(f.name)
    wmb = f.calls('parsec_atomic_wmb'); rout = atomics(f, 'rout')
    ok = len(rout) == 1 and tables.atomic_kind(rout[0].fn) == 'fetch_add' and rout[0].args[1].cv == RINC and len(wmb) >= 1 and f.precedes(wmb[0], rout[0]) and f.postdominates(rout[0].point, (f.entry, 0))
    r.expect(ok, 'rdunlock', rout[0].loc if rout else f.where(), 'rdunlock must be wmb then fetch_add(rout, RINC)', note='rdunlock: wmb; fetch_add(rout, RINC)')
