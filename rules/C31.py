"""C31 — lists and dequeues keep their contents and order (class/list.h, list_item.h, dequeue.h) — clause level."""
from sa import mirror, pathq, sym, aff
from sa.facts import AnalysisBroken, lockset_analysis, cond_atom
from sa.tables import BASE_LOCKS

U = 'parsec/class/parsec_list.c'
SWAP = {'list_next': 'list_prev', 'list_prev': 'list_next'}
MUTATORS = ['parsec_list_nolock_add_before', 'parsec_list_nolock_add_after', 'parsec_list_nolock_remove', 'parsec_list_nolock_push_front', 'parsec_list_nolock_push_back',
            'parsec_list_nolock_pop_front', 'parsec_list_nolock_pop_back', 'parsec_list_nolock_chain_front', 'parsec_list_nolock_chain_back',
            'parsec_list_item_ring_push', 'parsec_list_item_ring_chop', 'parsec_list_item_ring_merge']
MIRRORS = [('parsec_list_nolock_push_front', 'parsec_list_nolock_push_back'), ('parsec_list_nolock_pop_front', 'parsec_list_nolock_pop_back'),
           ('parsec_list_nolock_add_before', 'parsec_list_nolock_add_after'), ('parsec_list_push_front', 'parsec_list_push_back'),
           ('parsec_list_pop_front', 'parsec_list_pop_back'), ('parsec_list_try_pop_front', 'parsec_list_try_pop_back')]
FSWAP = {'parsec_list_nolock_pop_front': 'parsec_list_nolock_pop_back', 'parsec_list_nolock_pop_back': 'parsec_list_nolock_pop_front'}


def cell(ptr, field):
    """name of the memory cell (ptr)->field with &x->f normalised to x.f"""
    if ptr.startswith('&'):
        return '%s.%s' % (ptr[1:], field)
    return '%s->%s' % (ptr, field)


def key_cmp(e):
    """A_HIGHER/LOWER_PRIORITY_THAN_B(a,b,off) expands to  *(int*)(a+off) <op> *(int*)(b+off) ; returns (op, a, b) with op normalised to '>' """
    if e.k == 'bin' and e.op in ('<', '>'):
        def base(x):
            if x.k == 'un' and x.op == '*' and x.ch[0].k == 'bin' and x.ch[0].op == '+':
                return x.ch[0].ch[0].s
            return None
        a, b = base(e.ch[0]), base(e.ch[1])
        if a is None or b is None:
            return None
        return ('>', a, b) if e.op == '>' else ('>', b, a)
    return None


def chain_sorted_all_through_scan(ctx, u, ra):
    # every element of the incoming ring goes through that scan: no bulk append of the ring, no early return with elements left
    fcs = u.func('parsec_list_nolock_chain_sorted')
    ring = fcs.params[1]['n']
    ALLOWED = {'parsec_list_nolock_is_empty', 'parsec_list_item_ring_chop', 'parsec_list_nolock_add', 'parsec_list_nolock_add_before'}
    loopv = {s_.lhs.s for s_ in fcs.stores() if s_.lhs.k == 'ref' and s_.rhs is not None and s_.rhs.s == ring}
    other = [c for c in fcs.calls() if c.fn not in ALLOWED and any(x.k == 'ref' and x.s in ({ring} | loopv) for a in (c.args or ()) for x in a.walk())]
    rets = [r for r in fcs.returns()]
    early = [r for r in rets if not fcs.guarded_by(r.point, lambda a, t: (a.s == ring and t is False) or (a.k == 'bin' and a.op == '==' and ring in (a.ch[0].s, a.ch[1].s) and t is True))]
    ra.expect(not other and not early, 'chain_sorted:all-through-scan', (other[0].loc if other else early[0].loc if early else fcs.where()),
              'chain_sorted must insert every element of the ring by the sorted scan (the ring need not be sorted): %s' %
              ('%s links the ring without the scan' % other[0].fn if other else 'it returns early with elements of the ring not inserted'),
              note='chain_sorted: ring elements linked only by add / add_before inside the scan; no early return')


def run(ctx):
    ctx.explanation = ('Static clauses: (a) sorted insertion — each sorted insert is one of the (scan direction, stop test, insertion side) triples that are both ordered (non-increasing priority) and stable: forward scan / stop at the '
                       'first element the new one is strictly higher than / insert before; backward scan / stop at the first element the new one is not strictly higher than / insert after; the ring insert stops at the first element '
                       'the new one is not lower than; (b) every locked variant mutates list-reachable cells and calls its nolock sibling only inside the list lock, with pairing on all exits (try_pop: after a successful trylock); '
                       '(c) mirror equivalence front<->back / before<->after under list_next<->list_prev; straight-line link consistency of every primitive mutator: after it, for every cell x.next = y it wrote, y.prev = x holds among '
                       'the cells it wrote or were consistent before; (d) merge sort: the next element comes from the first run unless the second is strictly lower, back links are rebuilt for every moved element, the ring is closed, '
                       'and the result is chained back into the list.')
    ctx.not_decided = 'linearizability of the locked variants beyond lock discipline; permutation property of the merge sort over all inputs.'
    u = ctx.extract(U)
    ra = ctx.rule('R31.a', 'sorted insertion: (direction, stop test, side) triples ordered and stable', floor=4)
    rb = ctx.rule('R31.b', 'locked variants: list cells and nolock siblings only under the list lock; pairing', floor=14)
    rc = ctx.rule('R31.c', 'mirror equivalence and link consistency of primitive mutators', floor=14)
    rd = ctx.rule('R31.d', 'merge sort: selection rule, back links, closure', floor=4)
    fs = u.funcs()

    # ---------------- (a)
    f = u.func('parsec_list_nolock_push_sorted'); ctx.functions_analysed.add(f.name)
    newel = f.params[1]['n']
    for callee, direction, want_truth, side in (('parsec_list_nolock_add_before', 'list_next', True, 'before'), ('parsec_list_nolock_add_after', 'list_prev', False, 'after')):
        cs = f.calls(callee)
        ok = len(cs) == 1
        why = 'no single %s call' % callee
        if ok:
            c = cs[0]
            posv = c.args[1].s
            ok = c.args[2].s == newel
            # the iterator advances along `direction`
            adv = [s_ for s_ in f.stores() if s_.lhs.k == 'ref' and s_.rhs is not None and s_.rhs.k == 'mem' and s_.rhs.n == direction and s_.rhs.ch[0].s == s_.lhs.s and f.reaches(s_.point, c.point)]
            adv = [a for a in adv if not any(f.reaches(a.point, o.point) and o is not c for o in f.calls(('parsec_list_nolock_add_before', 'parsec_list_nolock_add_after')) if o is not c) or True]
            itv = {a.lhs.s for a in adv}
            # the break test that ends this scan
            tests = []
            for b in f.blocks:
                cnd = f.cond(b)
                if cnd is None:
                    continue
                a, pol = cond_atom(cnd)
                k = key_cmp(a)
                if k is not None and k[1] == newel and k[2] in itv and f.reaches((b, 0), c.point) and f.in_loop(b):
                    # break edge: the edge leaving the loop
                    for s_, lab in f.succs(b):
                        if isinstance(lab, bool) and not (f.in_loop(s_) & f.in_loop(b)):
                            tests.append((k, lab if pol else (not lab), b))
            mine = [t for t in tests if f.reaches((t[2], 0), c.point) and not any(f.reaches((t[2], 0), o.point) for o in f.calls(('parsec_list_nolock_add_before', 'parsec_list_nolock_add_after')) if o is not c and not f.reaches(c.point, o.point) and False)]
            mine = [t for t in tests if _between(f, t[2], c, cs_all=f.calls(('parsec_list_nolock_add_before', 'parsec_list_nolock_add_after')))]
            ok = ok and len(mine) == 1 and mine[0][1] is want_truth and bool(adv)
            why = 'scan along %s must stop when (new > cur) is %s and insert %s; found tests %s' % (direction, want_truth, side, [(t[0], t[1]) for t in mine])
        ra.expect(ok, 'push_sorted:%s' % side, cs[0].loc if cs else f.where(), 'push_sorted: %s' % why, note='push_sorted: %s scan, stop on (new > cur) == %s, insert %s' % ('forward' if direction == 'list_next' else 'backward', want_truth, side))
    f = u.func('parsec_list_nolock_chain_sorted'); ctx.functions_analysed.add(f.name)
    cs = [c for c in f.calls('parsec_list_nolock_add_before') if f.in_loop(c.block)]
    ok = len(cs) == 1
    if ok:
        posv = cs[0].args[1].s; nv = cs[0].args[2].s
        fwd = [s_ for s_ in f.stores(posv) if s_.rhs is not None and s_.rhs.k == 'mem' and s_.rhs.n == 'list_next' and s_.rhs.ch[0].s == posv]
        brk = []
        for b in f.blocks:
            cnd = f.cond(b)
            if cnd is None:
                continue
            a, pol = cond_atom(cnd)
            k = key_cmp(a)
            if k is not None and k[1] == nv and k[2] == posv and len(f.in_loop(b)) == 2:
                for s_, lab in f.succs(b):
                    if isinstance(lab, bool) and len(f.in_loop(s_)) < 2:
                        brk.append(lab if pol else (not lab))
        ok = len(fwd) == 1 and brk == [True]
        # restart from the head only when the new element is strictly higher than the last inserted one
        restart = [s_ for s_ in f.stores(posv) if s_.rhs is not None and s_.rhs.s.endswith('ghost_element.list_next') and f.in_loop(s_.block)]
        ok = ok and len(restart) == 1 and f.guarded_by(restart[0].point, lambda a, t: t and key_cmp(a) is not None and key_cmp(a)[1] == nv and key_cmp(a)[2] == posv)
        cont = [s_ for s_ in f.stores(posv) if s_.rhs is not None and s_.rhs.s == nv]
        ok = ok and len(cont) == 1 and f.precedes(cs[0], cont[0])
    ra.expect(ok, 'chain_sorted', cs[0].loc if cs else f.where(), 'chain_sorted must scan forward, stop at the first element the new one is strictly higher than, insert before it, and restart from the head only when the new element is strictly higher than the previous insert',
              note='chain_sorted: forward, stop on new > cur, insert before, resume from last insert')
    chain_sorted_all_through_scan(ctx, u, ra)
    f = u.func('parsec_list_item_ring_push_sorted'); ctx.functions_analysed.add(f.name)
    item = f.params[1]['n']
    rp = f.calls('parsec_list_item_ring_push')
    ok = len(rp) == 1 and rp[0].args[1].s == item
    if ok:
        brk = []
        for b in f.blocks:
            cnd = f.cond(b)
            if cnd is None:
                continue
            a, pol = cond_atom(cnd)
            k = key_cmp(a)
            if k is not None and f.in_loop(b) and item in (k[1], k[2]):
                # normalised to '>' : LOWER(item,pos) = item < pos = ('>', pos, item)
                lower_item = (k[2] == item)
                for s_, lab in f.succs(b):
                    if isinstance(lab, bool) and not (f.in_loop(s_) & f.in_loop(b)):
                        truth = lab if pol else (not lab)
                        brk.append((lower_item, truth))
        ok = brk == [(True, False)]         # stop when (item < pos) is false
    ra.expect(ok, 'ring_push_sorted', rp[0].loc if rp else f.where(), 'ring_push_sorted must stop at the first element the new one is not lower than and push before it', note='ring: stop when !(new < cur), insert before')

    # ---------------- (b)
    nlocked = 0
    for name, g in sorted(fs.items()):
        if not (name.startswith('parsec_list_') or name.startswith('parsec_dequeue_')) or '_nolock_' in name or name in ('parsec_list_lock', 'parsec_list_unlock'):
            continue
        locks = g.calls(('parsec_list_lock', 'parsec_atomic_trylock', 'parsec_atomic_lock'))
        if not locks:
            continue
        nlocked += 1
        ctx.functions_analysed.add(name)
        ls = lockset_analysis(g, BASE_LOCKS)
        for rev, must, may, loc in ls.exits():
            rb.expect(not may, '%s:exit-locked' % name, loc, '%s may return holding %s' % (name, sorted(may)), note='%s: lock released at return' % name)
        lst = g.params[0]['n']
        for ev in g.events():
            touch = False
            if ev.kind == 'call' and ev.fn and '_nolock_' in ev.fn and not ev.fn.endswith('is_empty'):
                touch = True
            if ev.kind == 'store' and ('%s->ghost_element' % lst) in ev.lhs.s:
                touch = True
            if ev.kind == 'store' and ev.lhs.k == 'mem' and ev.lhs.n in ('list_next', 'list_prev') and ev.lhs.ch[0].k == 'ref':
                # a store through a local pointer: protected unless the pointer is the element being inserted (not yet reachable)
                pv = ev.lhs.ch[0].s
                newparams = [p['n'] for p in g.params[1:]]
                derived = [s_ for s_ in g.stores(pv) if s_.rhs is not None and s_.rhs.k == 'mem' and s_.rhs.n in ('list_prev', 'list_next') and s_.rhs.ch[0].s in newparams]
                if pv not in newparams and not derived:
                    touch = True
            # reading the head / tail of the list to link a new element against it is only meaningful under the lock:
            # a value read before the lock can be stale when the lock is finally held
            if ev.kind == 'load' and ev.e.k == 'mem' and ev.e.n in ('list_next', 'list_prev') and ('%s->ghost_element' % lst) in ev.e.s \
                    and not name.endswith('is_empty') and not name.endswith('_is_empty'):
                touch = True
            if touch:
                must = ls.must_before(ev)
                if must is None:
                    continue
                rb.expect(bool(must), '%s:unlocked' % name, ev.loc, '%s: %s outside the list lock' % (name, ev.e.s if ev.e is not None else ev.lhs.s), note='%s: %s under lock' % (name, (ev.fn or (ev.lhs.s if ev.lhs is not None else ev.e.s))))
    if nlocked < 12:
        raise AnalysisBroken('expected >= 12 locked list functions, found %d' % nlocked)

    # ---------------- (e) inserting wrappers: the placement is decided under the lock, on every path
    # An emptiness (or any other) test made before the lock is stale by the time the element is linked: the only
    # thing an unlocked test may decide is to return without touching the list (pop_front / pop_back on an empty list).
    re_ = ctx.rule('R31.e', 'locked inserting wrappers go through their nolock sibling under the lock on every path; an unlocked emptiness test only ever leads to a plain return', floor=6)
    for name in ('parsec_list_push_sorted', 'parsec_list_chain_sorted', 'parsec_list_sort', 'parsec_list_add_after'):
        if name not in fs:
            raise AnalysisBroken('%s not found' % name)
        g = fs[name]
        sib = name.replace('parsec_list_', 'parsec_list_nolock_')
        cs = g.calls(sib)
        ls = lockset_analysis(g, BASE_LOCKS)
        ok = len(cs) == 1 and g.postdominates(cs[0].point, (g.entry, 0)) and bool(ls.must_before(cs[0])) \
            and [a.s for a in cs[0].args] == [p_['n'] for p_ in g.params]
        others = [c for c in g.calls() if c.fn and c.fn not in (sib, 'parsec_list_lock', 'parsec_list_unlock')]
        re_.expect(ok and not others, '%s:through-sibling' % name, (others or cs or [None])[0].loc if (others or cs) else g.where(),
                   '%s must hand its arguments to %s under the list lock on every path and do nothing else to the list%s: a placement decided before the lock is taken '
                   '(an emptiness fast path, say) is stale when the element is linked and breaks the order under concurrent insertions'
                   % (name, sib, ' (also calls %s)' % sorted({c.fn for c in others}) if others else ''), note='%s = lock; %s(same arguments); unlock on every path' % (name, sib))
    nempty = 0
    for name, g in sorted(fs.items()):
        if not (name.startswith('parsec_list_') or name.startswith('parsec_dequeue_')) or '_nolock_' in name:
            continue
        ie = g.calls('parsec_list_nolock_is_empty')
        if not ie:
            continue
        ls = lockset_analysis(g, BASE_LOCKS)
        for c in ie:
            must = ls.must_before(c)
            if must is None or must:
                continue
            if name in ('parsec_list_is_empty',):
                continue
            nempty += 1
            # the branch on this call: on the 'empty' edge nothing but a return may follow
            bad = None
            for b in g.blocks:
                cnd = g.cond(b)
                if cnd is None:
                    continue
                a, pol = cond_atom(cnd)
                if not (a.k == 'call' and a.nid == c.e.nid):
                    continue
                for s_, lab in g.succs(b):
                    if not isinstance(lab, bool) or lab != pol:
                        continue
                    seen = set(); todo = [s_]
                    while todo:
                        x = todo.pop()
                        if x in seen:
                            continue
                        seen.add(x)
                        for ev in g.block_events(x):
                            if ev.kind in ('call', 'store') and not (ev.kind == 'store' and ev.lhs.k == 'ref'):
                                bad = ev
                        todo.extend(t for t, _ in g.succs(x))
            re_.expect(bad is None, '%s:unlocked-empty-test' % name, c.loc,
                       '%s tests emptiness outside the list lock and then %s: the list may have changed by then; an unlocked emptiness test may only lead to a plain return'
                       % (name, bad.e.s if bad is not None and bad.e is not None else (bad.lhs.s if bad is not None else '')), note='%s: unlocked emptiness test only leads to a return' % name)
    if nempty < 2:
        raise AnalysisBroken('expected the unlocked emptiness fast paths of pop_front / pop_back (found %d)' % nempty)

    # ---------------- (c) mirrors
    for a, b in MIRRORS:
        fa, fb = u.func(a), u.func(b)
        swap = dict(SWAP); swap.update(FSWAP)
        ca = mirror.canon_stmt(fa, fa.d['body'], None, [p['n'] for p in fa.params])
        cb = mirror.canon_stmt(fb, fb.d['body'], swap, [p['n'] for p in fb.params])
        if a.endswith('add_before'):
            # four independent stores: statement order is irrelevant (the link-consistency rule below checks the result)
            ca = ('set', tuple(sorted(ca[1], key=repr))); cb = ('set', tuple(sorted(cb[1], key=repr)))
        rc.expect(ca == cb, 'mirror:%s' % a, fa.where(), '%s is not the mirror image of %s under list_next<->list_prev: %s' % (a, b, mirror.first_diff(ca, cb)), note='%s == mirror(%s)' % (a, b))
    # link consistency
    for name in MUTATORS:
        g = u.func(name); ctx.functions_analysed.add(name)
        n = 0
        for pi in pathq.all_paths(g, track_mem=True):
            rev, rexp = pi.ret()
            env = pi.final_env()
            mem = dict(env.get('__mem__', {}))
            links = {k: v for k, v in mem.items() if k.endswith('list_next') or k.endswith('list_prev')}
            if not links:
                continue
            n += 1
            bad = []
            for k, v in links.items():
                fld = 'list_next' if k.endswith('list_next') else 'list_prev'
                other = 'list_prev' if fld == 'list_next' else 'list_next'
                owner = k[:-len(fld) - 1] if k.endswith('.' + fld) else k[:-len(fld) - 2]
                owner_ptr = ('&' + owner) if k.endswith('.' + fld) else owner
                if v.cv == 0:
                    continue
                back = cell(v.s, other)
                bv = mem.get(back)
                if bv is None:
                    # untouched cell: consistent iff it already pointed back before, i.e. v is the initial content of k
                    if v.s == k:
                        continue
                    # detached element's own links (element leaving the structure) are not checked
                    if _detached(name, owner_ptr, g):
                        continue
                    bad.append('%s = %s but %s untouched' % (k, v.s, back))
                elif bv.s != owner_ptr:
                    if _detached(name, owner_ptr, g):
                        continue
                    bad.append('%s = %s but %s = %s' % (k, v.s, back, bv.s))
            rc.expect(not bad, 'links:%s' % name, g.where(), '%s leaves inconsistent links: %s' % (name, '; '.join(bad[:3])), note='%s: x.next = y  <=>  y.prev = x for all written links' % name)
        if n == 0:
            raise AnalysisBroken('%s: no link written on any path' % name)

    # ---------------- (d)
    f = u.func('parsec_list_nolock_chain_sort_mergesort'); ctx.functions_analysed.add(f.name)
    sel = None
    for nid in f.stmts_of_kind('if'):
        c = f.expr(f.nodes[nid]['cond'])
        k = key_cmp(c)
        if k is not None:
            sel = (nid, k)
    ok = sel is not None
    if ok:
        nid, k = sel
        n = f.nodes[nid]
        # LOWER(p, q): p < q  == ('>', q, p) ; then-branch takes from p
        th = [f.expr(x) for x in f.ast_walk(n['then']) if f.nodes[x]['k'] == 'asg']
        el = [f.expr(x) for x in f.ast_walk(n['else']) if f.nodes[x]['k'] == 'asg'] if 'else' in n else []
        took_then = [e for e in th if e.ch[0].s == 'e']
        took_else = [e for e in el if e.ch[0].s == 'e']
        ok = len(took_then) == 1 and len(took_else) == 1 and took_then[0].ch[1].s == k[2] and took_else[0].ch[1].s == k[1]
    rd.expect(ok, 'mergesort:select', f.loc(sel[0]) if sel else f.where(), 'merge step must take the element of the first run exactly when it is strictly lower than the head of the second run, otherwise from the second run',
              note='merge: e = (p < q) ? p : q')
    back = [s_ for s_ in f.stores() if s_.lhs.s == 'e->list_prev' and s_.rhs.s == 'tail']
    fwd = [s_ for s_ in f.stores() if s_.lhs.s == 'tail->list_next' and s_.rhs.s == 'e']
    adv = [s_ for s_ in f.stores('tail') if s_.rhs is not None and s_.rhs.s == 'e']
    rd.expect(len(back) == 1 and len(fwd) == 1 and len(adv) == 1 and f.precedes(back[0], adv[0]) and f.guarded_by(fwd[0].point, lambda a, t: a.s == 'tail' and t), 'mergesort:links', back[0].loc if back else f.where(),
              'every element appended to the merged run must get its back link and become the new tail', note='merge: tail->next = e; e->prev = tail; tail = e')
    close = [s_ for s_ in f.stores() if (s_.lhs.s == 'tail->list_next' and s_.rhs.s == 'items') or (s_.lhs.s == 'items->list_prev' and s_.rhs.s == 'tail')]
    rd.expect(len(close) == 2 and all(len(f.in_loop(s_.block)) == 1 for s_ in close), 'mergesort:close', close[0].loc if close else f.where(), 'each pass must close the merged run into a ring', note='pass end: tail->next = items; items->prev = tail')
    ch = f.calls('parsec_list_nolock_chain_front')
    rd.expect(len(ch) == 1 and not f.in_loop(ch[0].block) and ch[0].args[1].s == 'items' and f.postdominates(ch[0].point, (f.entry, 0)), 'mergesort:rechain', ch[0].loc if ch else f.where(),
              'the sorted ring must be chained back into the (emptied) list', note='sorted ring chained back')


def _between(f, blk, c, cs_all):
    """the test block leads to call c before reaching any other insertion call"""
    others = [o.point for o in cs_all if o is not c]
    return f.reaches((blk, 0), c.point, avoiding=others)


def _detached(name, owner_ptr, g):
    """links of the element that leaves the structure (pop/remove/chop) are not required to be consistent"""
    if name.endswith('pop_front') or name.endswith('pop_back'):
        return owner_ptr.startswith('list->ghost_element.list_') or 'ghost_element.list_' in owner_ptr and '->' not in owner_ptr.split('ghost_element')[1][:2] and False
    return False
