"""Helpers shared by the generated-code rules (C01, C02, C16.b, C23, C24, C25.d).
Everything here runs inside the worker process of sa.gen.Gen.scan on one emitted unit."""
import os, re
from sa import facts


def norm_s(s):
    """Map the three spellings of 'value of local X of the current task' to X."""
    s = re.sub(r'(?:\bassignments\.|\bthis_task->locals\.|\bassignment->|\blocals->|\b__jdf2c__tmp_locals\.)ldef\[(\d+)\]\.value', r'LDEF\1', s)
    s = re.sub(r'(?:\bassignments\.|\bthis_task->locals\.|\bassignment->|\blocals->|\b__jdf2c__tmp_locals\.)(\w+)\.value', r'\1', s)
    s = re.sub(r'&assignments\b|&this_task->locals\b|&__jdf2c__tmp_locals\b', 'LOCALS', s)
    return s


def nexpr(e):
    return norm_s(e.s) if e is not None else None


class Rec:
    """Picklable rule record produced in a worker."""
    def __init__(self):
        self.items = []

    def ok(self, rule, loc, note=''):
        self.items.append(('ok', rule, None, loc, note))

    def bad(self, rule, key, loc, msg):
        self.items.append(('bad', rule, key, loc, msg))

    def expect(self, cond, rule, key, loc, msg, note=''):
        if cond:
            self.ok(rule, loc, note or msg)
        else:
            self.bad(rule, key, loc, msg)
        return cond

    def broken(self, msg):
        """an emitted construct the rule does not recognise: analysis-broken, never a verdict"""
        self.items.append(('broken', None, None, None, msg))

    def info(self, k, v):
        self.items.append(('info', k, None, None, v))


def apply_records(ctx, rules, results):
    """rules: {rule_id: Rule}; results: [(prog, Rec|None)]"""
    infos = {}
    broken = []
    for prog, rec in results:
        if rec is None:
            continue
        for kind, rid, key, loc, msg in rec.items:
            if kind == 'broken':
                broken.append('%s: %s' % (prog.label(), msg))
                continue
            if kind == 'info':
                infos.setdefault(rid, []).append((prog.label(), msg))
                continue
            r = rules[rid]
            if kind == 'ok':
                r.ok(loc, msg)
            else:
                r.bad(key, loc, msg)
    if broken:
        ctx.pending_broken = getattr(ctx, 'pending_broken', []) + broken
    return infos


def raise_pending(ctx):
    b = getattr(ctx, 'pending_broken', None)
    if b:
        raise facts.AnalysisBroken('%d unrecognised emitted construct(s): %s' % (len(b), '; '.join(b[:5])))


def ploc(prog, func=None, line=None):
    j = prog.jdf
    for pre in ('/repo/', os.environ.get('VERIF_REPO', '/repo') + '/'):
        if j.startswith(pre):
            j = j[len(pre):]
            break
    if j.startswith('/verif/'):
        j = j[1:]
    s = '%s[%s]' % (j, prog.dep)
    if func:
        s += '::' + func
    if line:
        s += ':%d' % line
    return s


def task_classes(u):
    """{class name: (Global, fields dict)} from the emitted parsec_task_class_t tables."""
    out = {}
    for name, g in u.globals().items():
        ty = g.ty or ''
        if 'parsec_task_class_t' not in ty or '*' in ty or '[' in ty:
            continue
        try:
            f = g.fields()
        except Exception:
            continue
        if not f or 'name' not in f:
            continue
        nm = f['name']
        if nm.k == 'str':
            out[nm.n] = (g, f)
    return out


def parent_map(fn):
    par = {}
    for nid in fn.ast_walk():
        for c in fn.ast_children(nid):
            par[c] = nid
    return par


def ancestors(par, nid):
    while nid in par:
        nid = par[nid]
        yield nid


def flatten_comma(e):
    if e is None:
        return []
    if e.k == 'bin' and e.op == ',':
        return flatten_comma(e.ch[0]) + flatten_comma(e.ch[1])
    return [e]


def asg_chain(e):
    """a = b = c = V  ->  ([a, b, c], V, last-op)"""
    lhs = []
    op = None
    while e is not None and e.k == 'asg':
        lhs.append(e.ch[0]); op = e.op
        e = e.ch[1]
    return lhs, e, op
