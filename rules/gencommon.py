"""Helpers shared by the generated-code rules (C01, C02, C16.b, C23, C24, C25.d).
Everything here runs inside the worker process of sa.gen.Gen.scan on one emitted unit."""
import os, re
from sa import facts


def norm_s(s):
    """Map the three spellings of 'value of local X of the current task' to X."""
    s = re.sub(r'(?:\bassignments\.|\bthis_task->locals\.|\bassignment->|\blocals->|\b__jdf2c__tmp_locals\.)ldef\[(\d+)\]\.value', r'LDEF\1', s)
    s = re.sub(r'(?:\bassignments\.|\bthis_task->locals\.|\bassignment->|\blocals->|\b__jdf2c__tmp_locals\.)(\w+)\.value', r'\1', s)
    s = re.sub(r'&assignments\b|&this_task->locals\b|&__jdf2c__tmp_locals\b', 'LOCALS', s)
    return s


def nexpr(e):
    return norm_s(e.s) if e is not None else None


class Rec:
    """Picklable rule record produced in a worker."""
    def __init__(self):
        self.items = []

    def ok(self, rule, loc, note=''):
        self.items.append(('ok', rule, None, loc, note))

    def bad(self, rule, key, loc, msg):
        self.items.append(('bad', rule, key, loc, msg))

    def expect(self, cond, rule, key, loc, msg, note=''):
        if cond:
            self.ok(rule, loc, note or msg)
        else:
            self.bad(rule, key, loc, msg)
        return cond

    def broken(self, msg):
        """an emitted construct the rule does not recognise: analysis-broken, never a verdict"""
        self.items.append(('broken', None, None, None, msg))

    def info(self, k, v):
        self.items.append(('info', k, None, None, v))


def apply_records(ctx, rules, results):
    """rules: {rule_id: Rule}; results: [(prog, Rec|None)]"""
    infos = {}
    broken = []
    for prog, rec in results:
        if rec is None:
            continue
        for kind, rid, key, loc, msg in rec.items:
            if kind == 'broken':
                broken.append('%s: %s' % (prog.label(), msg))
                continue
            if kind == 'info':
                infos.setdefault(rid, []).append((prog.label(), msg))
                continue
            r = rules[rid]
            if kind == 'ok':
                r.ok(loc, msg)
            else:
                r.bad(key, loc, msg)
    if broken:
        ctx.pending_broken = getattr(ctx, 'pending_broken', []) + broken
    return infos


def raise_pending(ctx):
    b = getattr(ctx, 'pending_broken', None)
    if b:
        raise facts.AnalysisBroken('%d unrecognised emitted construct(s): %s' % (len(b), '; '.join(b[:5])))


def ploc(prog, func=None, line=None):
    j = prog.jdf
    for pre in ('/repo/', os.environ.get('VERIF_REPO', '/repo') + '/'):
        if j.startswith(pre):
            j = j[len(pre):]
            break
    if j.startswith('/verif/'):
        j = j[1:]
    s = '%s[%s]' % (j, prog.dep)
    if func:
        s += '::' + func
    if line:
        s += ':%d' % line
    return s


def task_classes(u):
    """{class name: (Global, fields dict)} from the emitted parsec_task_class_t tables."""
    out = {}
    for name, g in u.globals().items():
        ty = g.ty or ''
        if 'parsec_task_class_t' not in ty or '*' in ty or '[' in ty:
            continue
        try:
            f = g.fields()
        except Exception:
            continue
        if not f or 'name' not in f:
            continue
        nm = f['name']
        if nm.k == 'str':
            out[nm.n] = (g, f)
    return out


def parent_map(fn):
    par = {}
    for nid in fn.ast_walk():
        for c in fn.ast_children(nid):
            par[c] = nid
    return par


def ancestors(par, nid):
    while nid in par:
        nid = par[nid]
        yield nid


def flatten_comma(e):
    if e is None:
        return []
    if e.k == 'bin' and e.op == ',':
        return flatten_comma(e.ch[0]) + flatten_comma(e.ch[1])
    return [e]


def asg_chain(e):
    """a = b = c = V  ->  ([a, b, c], V, last-op)"""
    lhs = []
    op = None
    while e is not None and e.k == 'asg':
        lhs.append(e.ch[0]); op = e.op
        e = e.ch[1]
    return lhs, e, op


# ---------------------------------------------------------------------------------------
# model of the emitted dependency tables
# ---------------------------------------------------------------------------------------
def _refs_in(e):
    return [r.n for r in e.walk() if r.k == 'ref'] if e is not None else []


class Tables:
    """classes / flows / deps of one emitted unit, from the initialisers of the
    parsec_task_class_t / parsec_flow_t / parsec_dep_t tables."""
    def __init__(self, u):
        self.classes = {}      # name -> dict
        self.flows = {}        # global name -> dict
        self.deps = {}         # global name -> dict
        self.class_by_global = {}
        for name, g in u.globals().items():
            ty = (g.ty or '').replace('const ', '').strip()
            if '*' in ty or '[' in ty:
                continue
            try:
                f = g.fields()
            except Exception:
                continue
            if ty == 'parsec_task_class_t' and 'name' in f and f['name'].k == 'str':
                c = {'global': name, 'name': f['name'].n, 'id': f['task_class_id'].cv if 'task_class_id' in f else None,
                     'nb_flows': f['nb_flows'].cv if 'nb_flows' in f else None, 'fields': f,
                     'in': [r for r in _refs_in(f.get('in')) if r.startswith('flow_of_')],
                     'out': [r for r in _refs_in(f.get('out')) if r.startswith('flow_of_')], 'line': g.line}
                self.classes[c['name']] = c
                self.class_by_global[name] = c
            elif ty == 'parsec_flow_t' and 'flow_index' in f:
                self.flows[name] = {'global': name, 'name': f['name'].n if 'name' in f and f['name'].k == 'str' else None,
                                    'flow_index': f['flow_index'].cv, 'fields': f, 'line': g.line,
                                    'dep_in': [r for r in _refs_in(f.get('dep_in')) if r.startswith('flow_of_')],
                                    'dep_out': [r for r in _refs_in(f.get('dep_out')) if r.startswith('flow_of_')]}
            elif ty == 'parsec_dep_t' and 'belongs_to' in f:
                tc = f.get('task_class_id')
                fl = _refs_in(f.get('flow'))
                self.deps[name] = {'global': name, 'fields': f, 'line': g.line,
                                   'task_class_id': tc.cv if tc is not None else None,
                                   'local_data': tc is not None and tc.n == 'PARSEC_LOCAL_DATA_TASK_CLASS_ID',
                                   'flow': fl[0] if fl else None,
                                   'dep_index': f['dep_index'].cv if 'dep_index' in f else None,
                                   'belongs_to': (_refs_in(f.get('belongs_to')) or [None])[0],
                                   'cond': (_refs_in(f.get('cond')) or [None])[0],
                                   'ctl_gather': (_refs_in(f.get('ctl_gather_nb')) or [None])[0]}
        self.flow_owner = {}
        for c in self.classes.values():
            for fl in set(c['in']) | set(c['out']):
                self.flow_owner[fl] = c['name']
        self.class_by_id = {c['id']: c for c in self.classes.values()}


def macro_names(owner, e):
    """names of the macros the constants under expression e were spelled through (owner: Func or Global)"""
    out = set()
    if e is None or e.nid is None:
        return out
    st = [e.nid]
    while st:
        x = st.pop()
        n = owner.nodes[x]
        if n.get('mo'):
            out.add(n['mo'])
        if n.get('mi'):
            out.add(n['mi'])
        for c in n.get('ch', []):
            if c is not None and c >= 0:
                st.append(c)
    return out
