"""C25 — data repository entries are reclaimed exactly when unused (parsec/datarepo.c)."""
from sa import aff, tables, pathq
from sa.facts import cond_atom, AnalysisBroken, LockTable, lockset_analysis, field_accesses

UNIT = 'parsec/datarepo.c'
FIELDS = ('usagecnt', 'usagelmt', 'retained')


LOCKS = tables.HT_LOCKS
_tbl = tables._bucket


def fresh_analysis(f):
    """must-set of local pointer variables that hold a block just obtained from the mempool and not yet
    inserted in the hash table."""
    def transfer(ev, st):
        if ev.kind == 'store' and ev.lhs.k == 'ref':
            if ev.rhs is not None and ev.rhs.k == 'call' and ev.rhs.n == 'parsec_thread_mempool_allocate':
                return st | {ev.lhs.s}
            return st - {ev.lhs.s}
        if ev.kind == 'call' and ev.fn and 'insert' in ev.fn:
            drop = set()
            for a in ev.args:
                for v in st:
                    if v in a.refs():
                        drop.add(v)
            return st - drop
        return st
    sin, before, at_end = f.forward(frozenset(), transfer, lambda a, b: a & b)
    return before


def _run(ctx):
    ctx.explanation = ('Static clauses on datarepo.c: (a) GUARDED_BY — every access to usagecnt/usagelmt/retained is made with the entry\'s bucket lock held on all paths '
                       '(except stores to a block just allocated and not yet inserted); (b) an inserted entry is freed only after being removed from the table, and only under '
                       'usagelmt == count AND retained == 0, where in used_once the count is the post-value of the atomic increment; the not-inserted duplicate is freed only when '
                       'another entry was found; (c) bucket lock/unlock pairing on every exit; (d) retained++ on every successful lookup, retained-- exactly once and the limit added by a CAS loop in addto_usage_limit.')
    ctx.not_decided = 'the counting argument across calls (that creators and consumers balance) — a property of client histories.'
    u = ctx.extract(UNIT)
    ra = ctx.rule('R25.a', 'usagecnt/usagelmt/retained accessed only under the bucket lock', floor=10)
    rb = ctx.rule('R25.b', 'free only after removal and under (limit == count && !retained); duplicate freed only when found', floor=3)
    rc = ctx.rule('R25.c', 'bucket lock paired on all exits', floor=3)
    rd = ctx.rule('R25.d', 'retain on lookup, release once on limit announcement, limit added atomically', floor=4)

    names = ['__data_repo_lookup_entry_and_create', '__data_repo_entry_used_once', '__data_repo_entry_addto_usage_limit']
    tier_funcs = [u.func(n) for n in names]
    # every other function in the unit that touches the fields is analysed too
    for f in u.funcs().values():
        if f not in tier_funcs and f.file.endswith('datarepo.c') and field_accesses(f, FIELDS):
            tier_funcs.append(f)
    for f in tier_funcs:
        ctx.functions_analysed.add(f.name)
        ls = lockset_analysis(f, LOCKS)
        fresh = fresh_analysis(f)
        for ac in field_accesses(f, FIELDS):
            must = ls.must_before(ac.ev)
            if must is None:
                continue
            held = any(l.startswith('bucket:') for l in must)
            base = ac.lv.ch[0].s
            fr = fresh(ac.ev)
            is_fresh = fr is not None and base in fr
            ra.expect(held or (is_fresh and ac.kind == 'store'), '%s:%s:%s' % (f.name, ac.kind.split(':')[0], ac.field), ac.ev.loc,
                      '%s: %s of %s without the bucket lock' % (f.name, ac.kind, ac.lv.s),
                      note='%s %s %s' % (f.name, ac.kind, ac.lv.s) + (' [fresh, not inserted]' if not held else ''))
        # (c)
        for rev, must, may, loc in ls.exits():
            rc.expect(not may, '%s:exit-locked' % f.name, loc, '%s returns with %s possibly held' % (f.name, sorted(may)), note='%s: no bucket lock held at return' % f.name)
        for ev in f.calls(set(LOCKS.release)):
            must = ls.must_before(ev)
            rc.expect(must is None or _tbl(ev) in must, '%s:unlock-unlocked' % f.name, ev.loc, '%s unlocks a bucket that is not locked on every path' % f.name,
                      note='%s: unlock of held bucket' % f.name)
        # (b)
        for ev in f.calls('parsec_thread_mempool_free'):
            ent = ev.args[1].s
            fr = fresh(ev)
            if fr is not None and ent in fr:
                # duplicate: must be on the "found another" edge
                ok = False
                for bid in f.blocks:
                    c = f.cond(bid)
                    if c is None:
                        continue
                    atom, pol = cond_atom(c)
                    if atom.k == 'ref' and atom.s != ent:
                        # the tested variable must come from a nolock find
                        src = [s for s in f.stores(atom.s) if s.rhs is not None and s.rhs.k == 'call' and 'find' in (s.rhs.n or '')]
                        if src and f.edge_dominates(bid, pol, ev.point):
                            ok = True
                rb.expect(ok, '%s:free-fresh' % f.name, ev.loc, '%s frees the freshly allocated entry outside the "another entry found" branch' % f.name,
                          note='%s: duplicate freed only when another entry was found' % f.name)
                continue
            removes = [r for r in f.calls(('parsec_hash_table_nolock_remove_handle', 'parsec_hash_table_nolock_remove')) if f.dominates(r.point, ev.point)]
            # the removal must sit in the same critical section as the reclaim decision: bucket lock held at
            # the removal and never released between the guard's reads and the removal
            guard_loads = [l for l in f.loads() if l.e.k == 'mem' and l.e.n in ('usagelmt', 'retained') and f.dominates(l.point, ev.point)]
            unlocks = f.calls(set(LOCKS.release))
            same_cs = []
            for r in removes:
                held = any(l.startswith('bucket:') for l in (ls.must_before(r) or ()))
                gap = any(f.reaches(g.point, u_.point, acyclic=True) and f.reaches(u_.point, r.point, acyclic=True) for g in guard_loads for u_ in unlocks)
                if held and not gap and guard_loads:
                    same_cs.append(r)
            removes = same_cs
            conds_ok = {'limit': False, 'retained': False}
            detail = []
            for bid in f.blocks:
                c = f.cond(bid)
                if c is None:
                    continue
                atom, pol = cond_atom(c)
                if atom.k == 'mem' and atom.n == 'retained' and atom.ch[0].s == ent and f.edge_dominates(bid, (not pol), ev.point) is True:
                    # edge on which retained is zero:  atom false
                    pass
                # retained == 0 : cond_atom gives (e->retained, pol=False) ; the edge with truth False is label == (not pol)... compute directly
                for lab in (True, False):
                    truth = lab if pol else (not lab)
                    if not f.edge_dominates(bid, lab, ev.point):
                        continue
                    if atom.k == 'mem' and atom.n == 'retained' and atom.ch[0].s == ent and truth is False:
                        conds_ok['retained'] = True
                    if atom.k == 'bin' and atom.op == '==' and truth is True:
                        sides = [atom.ch[0], atom.ch[1]]
                        lm = [s for s in sides if s.k == 'mem' and s.n == 'usagelmt' and s.ch[0].s == ent]
                        if lm:
                            other = sides[1] if sides[0] is lm[0] else sides[0]
                            detail.append(other.s)
                            if other.k == 'mem' and other.n == 'usagecnt' and other.ch[0].s == ent:
                                conds_ok['limit'] = True
                            elif other.k == 'ref':
                                # local: must be the post-value of an atomic increment of usagecnt on every path
                                good = True; n = 0
                                for pi in pathq.all_paths(f):
                                    hits = [(e2, env) for e2, env in pi.events() if e2 is ev]
                                    if not hits:
                                        continue
                                    env = hits[0][1]
                                    val = other.subst(env)
                                    incs = [(e3, v3) for e3, v3 in pi.before(ev) if e3.kind == 'call' and tables.is_rmw(e3.fn) and e3.args[0].s.lstrip('&') == '%s->usagecnt' % ent]
                                    n += 1
                                    if not (len(incs) == 1 and tables.atomic_kind(incs[0][0].fn) == 'fetch_inc' and tables.is_post_value(val, incs[0][0].e.subst(incs[0][1]))):
                                        good = False
                                if good and n:
                                    conds_ok['limit'] = True
            rb.expect(bool(removes) and all(conds_ok.values()), '%s:free-inserted' % f.name, ev.loc,
                      '%s frees an inserted entry without %s' % (f.name, ', '.join(
                          (['removal from the table inside the critical section of the reclaim decision'] if not removes else []) +
                          (['usagelmt == <usage count (post-value)> guard (compared with: %s)' % detail] if not conds_ok['limit'] else []) +
                          (['retained == 0 guard'] if not conds_ok['retained'] else []))),
                      note='%s: free dominated by remove + (usagelmt == count) + (retained == 0)' % f.name)

    # (d)
    f = u.func('__data_repo_lookup_entry_and_create')
    n_found = 0
    for pi in pathq.all_paths(f):
        rev, rexp = pi.ret()
        if rexp is None:
            continue
        incs = [e for e, _ in pi.events('store') if e.lhs.k == 'mem' and e.lhs.n == 'retained' and e.op == '++' and e.lhs.ch[0].s == rev.e.s]
        init1 = [e for e, _ in pi.events('store') if e.lhs.k == 'mem' and e.lhs.n == 'retained' and e.op == '=' and e.rhs.cv == 1 and e.lhs.ch[0].s == rev.e.s]
        inserted = [e for e, _ in pi.calls('parsec_hash_table_nolock_insert_handle')]
        if inserted:
            rd.expect(len(init1) == 1 and not incs, 'create:retained-init', rev.loc, 'a newly inserted entry must start with retained = 1', note='created entry: retained = 1')
            zero = [e for e, _ in pi.events('store') if e.lhs.k == 'mem' and e.lhs.n in ('usagelmt', 'usagecnt') and e.rhs is not None and e.rhs.cv == 0]
            rd.expect(len(zero) == 2, 'create:counts-init', rev.loc, 'a newly inserted entry must start with usagelmt = usagecnt = 0', note='created entry: usagelmt = usagecnt = 0')
        else:
            rd.expect(len(incs) == 1, 'lookup:retain', rev.loc, 'returning an existing entry (%s) must retain it exactly once' % rev.e.s, note='found entry: retained++ once')
    f = u.func('__data_repo_entry_addto_usage_limit')
    lim = f.params[2]['n']
    for pi in pathq.all_paths(f):
        decs = [e for e, _ in pi.events('store') if e.lhs.k == 'mem' and e.lhs.n == 'retained' and e.op == '--']
        rd.expect(len(decs) == 1, 'addto:release', f.where(), 'addto_usage_limit must drop retained exactly once on every path (found %d)' % len(decs), note='addto: retained-- once per path')
        cas = [(e, v) for e, v in pi.calls('parsec_atomic_cas_int32') if e.args[0].s.endswith('usagelmt')]
        ok = False
        if cas:
            e, v = cas[-1]
            c = e.e.subst(v)
            ok = aff.norm(c.ch[2]) == aff.norm(c.ch[1]) + aff.Poly.atom(lim)
        rd.expect(ok, 'addto:limit', f.where(), 'usage limit must be advanced by a CAS installing old + %s' % lim, note='addto: CAS(usagelmt, ov, ov + %s)' % lim)
    # (e) clients in generated code: create / addto_usage_limit pairing (corpus)
    from rules import gen25
    gen25.check_R25e(ctx)



def run(ctx):
    _run(ctx)
    from rules import whowrites
    whowrites.thorough(ctx, 'C25')
