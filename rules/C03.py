"""C03 — DTD results equal sequential execution in insertion order (tile chain discipline)."""
from sa import pathq
from sa.facts import AnalysisBroken, cond_atom
from rules import dtdcommon as D

UNITS = ['parsec/interfaces/dtd/insert_function.c', 'parsec/interfaces/dtd/overlap_strategies.c', 'parsec/interfaces/dtd/parsec_dtd_data_flush.c']


def check_chain_index(ctx, rd=None):
    """parsec_dtd_ordering_correctly walks the chain of readers behind a completed writer with a pair (task, flow index):
    the index names a flow *of that task*.  When it steps to the next task in line, the index variable is reloaded from the
    current task's descriptor - from there on it names a flow of the NEXT task, and the current task must be addressed
    with the index saved before the step.  Pairing the advanced index with the old task clears / reads the link of an
    unrelated flow: a successor is activated twice or never (results differ from sequential order)."""
    if rd is None:
        rd = ctx.rule('R03.d', 'chain walk: after the flow index / operation type were advanced to the next task in line, the current task is addressed only with the saved index and never tested together with them', floor=4)
    u = ctx.extract(UNITS[1])
    f = u.func('parsec_dtd_ordering_correctly'); ctx.functions_analysed.add(f.name)
    # the advancing store: I = (...(T...)[I]...)->flow_index, with T a local task pointer
    adv = []
    for s_ in f.stores():
        if s_.lhs.k == 'ref' and s_.op == '=' and s_.rhs is not None and s_.rhs.k == 'mem' and s_.rhs.n == 'flow_index':
            I = s_.lhs.s
            refs = [x.s for x in s_.rhs.walk() if x.k == 'ref' and x.dk in ('var', 'parm')]
            if I in refs:
                ts = [r for r in refs if r != I]
                if len(set(ts)) == 1:
                    adv.append((s_, I, ts[0]))
    if len(adv) != 1:
        raise AnalysisBroken('parsec_dtd_ordering_correctly: expected one self-advancing flow-index store, found %d' % len(adv))
    a_ev, I, T = adv[0]

    def pairs(e):
        """does expression e address task T with index I ?  (pointer arithmetic / subscripts on T with I, or both passed to one call)"""
        if e is None:
            return False
        for x in e.walk():
            if x.k == 'idx' and x.ch[1].s == I and any(y.s == T for y in x.ch[0].walk()):
                return True
            if x.k == 'bin' and x.op == '+' and any(y.s == I for y in x.ch[1].walk()) and any(y.s == T for y in x.ch[0].walk()):
                return True
            if x.k == 'call' and any(c.s == T for c in x.ch) and any(c.s == I for c in x.ch):
                return True
        return False

    def transfer(ev, st):
        if ev is a_ev:
            return True
        if ev.kind == 'store' and ev.lhs.s == T:
            return False
        if ev.kind == 'store' and ev.lhs.s == I and ev is not a_ev:
            return False            # reloaded from another source: belongs to whatever the code pairs it with next
        return st
    sin, before, at_end = f.forward(False, transfer, lambda a, b: a or b)
    n = 0
    for ev in f.events():
        exprs = []
        if ev.kind == 'store':
            exprs = [ev.lhs, ev.rhs]
        elif ev.kind == 'call':
            exprs = [ev.e]
        elif ev.kind == 'load':
            exprs = [ev.e]
        if ev is a_ev or not any(pairs(x) for x in exprs):
            continue
        st = before(ev)
        if st is None:
            continue
        n += 1
        rd.expect(not st, 'chain-index:%s:%d' % (ev.kind, f.line_of(ev.nid) - f.line), ev.loc,
                  'parsec_dtd_ordering_correctly addresses %s with %s after %s was advanced to the next task in line (at %s): that index names a flow of the next task, not of %s'
                  % (T, I, I, a_ev.loc, T), note='%s paired with %s while it still names a flow of %s' % (T, I, T))
    # companions advanced in the same step (e.g. the operation type of the next task's flow): locals assigned, in the block of the
    # advancing store, from an expression that goes through the next task or the advanced index
    companions = set()
    nxt = None
    for ev in f.block_events(a_ev.block):
        if ev.kind == 'store' and ev is not a_ev and ev.lhs.k == 'ref' and ev.rhs is not None and f.block_events(a_ev.block).index(ev) > f.block_events(a_ev.block).index(a_ev):
            if any(x.s == I for x in ev.rhs.walk()):
                companions.add(ev.lhs.s)
    for bid in f.blocks:
        c = f.cond(bid)
        if c is None:
            continue
        refs = {x.s for x in c.walk() if x.k == 'ref'}
        full = f.expr(f.blocks[bid]['cond']) if f.blocks[bid].get('cond') is not None else c
        refs_full = {x.s for x in full.walk() if x.k == 'ref'}
        if T in refs_full and (refs_full & (companions | {I})):
            st = at_end(bid)
            if st is None:
                continue
            n += 1
            rd.expect(not st, 'chain-index:cond:%d' % (f.line_of(f.blocks[bid]['cond']) - f.line), f.loc(f.blocks[bid]['cond']),
                      'parsec_dtd_ordering_correctly tests %s together with %s after the step to the next task in line: %s then describes the next task, not %s'
                      % (T, sorted(refs_full & (companions | {I})), sorted(refs_full & (companions | {I})), T),
                      note='condition on %s and %s evaluated while they describe the same task' % (T, sorted(refs_full & (companions | {I}))))
    # the link of the current reader is cleared with the saved index
    saved = [s_ for s_ in f.stores() if s_.lhs.k == 'ref' and s_.rhs is not None and s_.rhs.s == I and s_.op == '=' and s_.lhs.s != I]
    clr = [s_ for s_ in f.stores() if s_.lhs.k == 'mem' and s_.lhs.n == 'task' and s_.rhs is not None and s_.rhs.cv == 0 and any(y.s == T for y in s_.lhs.walk())]
    ok = len(saved) >= 1 and len(clr) >= 1 and all(any(y.s == saved[0].lhs.s for y in c.lhs.walk()) for c in clr)
    rd.expect(ok, 'chain-index:clear-link', clr[0].loc if clr else f.where(), 'the consumed link of the current reader must be cleared through the index saved before the step (%s)' % (saved[0].lhs.s if saved else '?'),
              note='link of the current reader cleared with the saved index')


def run(ctx):
    ctx.explanation = ('Static clauses on the DTD tile chain: (a) GUARDED_BY — every read/write of a tile\'s shared last_user / last_writer record happens with that tile\'s lock held on all paths '
                       '(tile construction excepted); (b) in parsec_insert_dtd_task the snapshot of the previous user/writer and the update making this task the new user/writer are in one critical '
                       'section on every path (including the re-lock after inserting the implicit first-output task); the writer record is updated exactly when the access writes; descendants are '
                       'linked from the snapshot after the unlock; (c) tile lock/unlock pairing on all exits in every function that takes it.')
    ctx.not_decided = 'the chain semantics themselves (reader groups, same data twice in one task, window blocking, remote placement): value/history dependent.'
    ra = ctx.rule('R03.a', 'tile last_user/last_writer accessed only under the tile lock', floor=30)
    rb = ctx.rule('R03.b', 'snapshot + update of the tile records in one critical section; writer updated iff write access', floor=4)
    rc = ctx.rule('R03.c', 'tile lock paired on all exits', floor=8)
    nlock = 0
    for un in UNITS:
        u = ctx.extract(un)
        for f in u.funcs().values():
            if not f.file.startswith('/repo/parsec/interfaces/dtd') and '/interfaces/dtd/' not in f.file:
                continue
            if f.name in ('parsec_dtd_last_user_lock', 'parsec_dtd_last_user_unlock'):
                continue
            touches = D.tile_user_accesses(f)
            takes = f.calls('parsec_dtd_last_user_lock')
            if not touches and not takes:
                continue
            if f.file.endswith('.h') and un != UNITS[0]:
                continue          # header inlines are analysed once
            ctx.functions_analysed.add(f.name)
            ls, n = D.check_guarded(f, ra)
            if takes:
                nlock += len(takes)
                D.check_pairing(f, ls, rc)
    if nlock < 6:
        raise AnalysisBroken('expected >= 6 tile lock sites, found %d' % nlock)
    check_chain_index(ctx)
    u = ctx.extract(UNITS[0])
    f = u.func('parsec_insert_dtd_task')
    this_task = None
    for s_ in f.stores():
        if s_.lhs.k == 'ref' and s_.rhs is not None and s_.rhs.s == f.params[0]['n']:
            this_task = s_.lhs.s
    if this_task is None:
        raise AnalysisBroken('parsec_insert_dtd_task: local alias of the task parameter not found')
    n = D.check_snapshot_update_atomic(f, rb, this_task)
    if n < 2:
        raise AnalysisBroken('parsec_insert_dtd_task: expected last_user and last_writer updates, found %d' % n)
    # writer record updated exactly on write accesses
    acc = D.tile_user_accesses(f)
    wr = [ev for ev, lv, tile, which in acc if ev.kind == 'store' and which == 'last_writer' and lv.n == 'task' and ev.rhs.s == this_task]
    def is_write_guard(a, t):
        return t and a.k == 'bin' and a.op == '==' and ('PARSEC_INOUT' in a.s or 'PARSEC_OUTPUT' in a.s or any(c.cv in (2, 3) for c in a.ch))
    for w in wr:
        gs = f.guards(w.point)
        # reached through (INOUT == op) || (OUTPUT == op): not dominated by a single edge; check via the if-statement that encloses it
        ok = _enclosed_by_write_test(f, w)
        rb.expect(ok, 'insert:writer-guard', w.loc, 'last_writer updated outside the INOUT/OUTPUT branch (or the branch test changed)', note='last_writer = this_task only for INOUT/OUTPUT accesses')
    us = [ev for ev, lv, tile, which in acc if ev.kind == 'store' and which == 'last_user' and lv.n == 'task' and ev.rhs.s == this_task]
    for s_ in us:
        ok = f.guarded_by(s_.point, lambda a, t: a.s == 'put_in_chain' and t)
        rb.expect(ok, 'insert:user-guard', s_.loc, 'last_user update must be guarded by put_in_chain only', note='last_user = this_task when put_in_chain')
    # descendant linked from the snapshot after the unlock
    desc = [c for c in f.calls('parsec_dtd_set_descendant') if c.args[0].s.startswith('last_user.')]
    unl = [u_ for u_ in f.calls('parsec_dtd_last_user_unlock')]
    okd = bool(desc) and all(any(f.reaches(u_.point, d.point, acyclic=True) for u_ in unl) for d in desc)
    ls = D.lockset_analysis(f, D.BASE_LOCKS)
    held = [d for d in desc if any(l.startswith('lu:') for l in (ls.may_before(d) or ()))]
    rb.expect(okd and not held, 'insert:descendant', desc[0].loc if desc else f.where(), 'set_descendant(snapshot user, ...) must be called after the tile lock is released', note='descendant linked from the snapshot, outside the lock')


def _enclosed_by_write_test(f, w):
    """the store is inside the then-branch of an if whose condition is
    (INOUT == op & GET_OP_TYPE) || (OUTPUT == op & GET_OP_TYPE)."""
    for nid in f.stmts_of_kind('if'):
        n = f.nodes[nid]
        then = set(f.ast_walk(n['then']))
        if w.nid in then:
            c = f.expr(n['cond'])
            parts = []
            def flat(e):
                if e.k == 'bin' and e.op == '||':
                    flat(e.ch[0]); flat(e.ch[1])
                else:
                    parts.append(e)
            flat(c)
            vals = set()
            for p in parts:
                if p.k == 'bin' and p.op == '==':
                    for x in p.ch:
                        if x.cv is not None and (x.k == 'int' or x.dk == 'enum'):
                            vals.add(x.s)
            if len(parts) == 2 and vals == {'PARSEC_INOUT', 'PARSEC_OUTPUT'} and all('op_type' in p.s for p in parts):
                # no enclosing narrower if between
                return True
    return False
