"""C07 — a task becomes ready exactly once, when its last input arrives (parsec/parsec.c).

Decided (clauses): the readiness verdict of both dependency-tracking modes is a function of
the value produced by ONE atomic read-modify-write on the dependency word on every path
(never of a plain re-load), it is the post-value that is compared, the goal comes from the
check_IN function of the same mode, and the atomic wrappers mean what the rules assume."""
from sa import aff, sym, tables
from sa.facts import cond_atom, AnalysisBroken

UNIT = 'parsec/parsec.c'


def flatten(e, op):
    if e.k == 'bin' and e.op == op:
        return flatten(e.ch[0], op) + flatten(e.ch[1], op)
    return [e]


def call_truth(cond, label, fn):
    """If the branch condition tests the result of a call to fn (directly, negated, or
    compared with 0/1), return (call, truth-of-result on this edge); else (None, None)."""
    atom, pol = cond_atom(cond)
    truth = label if pol else (not label)
    if atom.k == 'call' and atom.n == fn:
        return atom, truth
    if atom.k == 'bin' and atom.op in ('==', '!='):
        l, r = atom.ch
        call, k = (l, r) if l.k == 'call' else (r, l)
        if call.k == 'call' and call.n == fn and k.cv in (0, 1):
            res = (k.cv == 1) if atom.op == '==' else (k.cv != 1)
            return call, (res if truth else (not res))
    return None, None


def plain_loads_of(e, target):
    return [x for x in e.walk() if x.s == target and x.k == 'un']


def run(ctx):
    ctx.explanation = ('Clauses decided on parsec_update_deps_with_counter / _with_mask: (a) on every CFG path the '
                       'returned readiness verdict depends on the dependency word only through the result of an atomic RMW '
                       '(CAS success / fetch_dec / fetch_or), never a plain re-load; (b) exactly one effective update per path and '
                       'the compared value is the post-value; (c) the goal comes from parsec_check_IN_dependencies of the same mode; '
                       '(d) the parsec_atomic_* wrappers bottom out in the builtin of the same operation with the operand the name promises.')
    ctx.not_decided = 'liveness; creation of the dependency word in the hash table; all schedules are covered only through the all-paths clauses.'
    u = ctx.extract(UNIT)
    ra = ctx.rule('R07.a', 'verdict depends on *deps only through an atomic RMW result', floor=3)
    rb = ctx.rule('R07.b', 'exactly one effective update per path, post-value compared', floor=3)
    rc = ctx.rule('R07.c', 'goal provenance (check_IN of the same mode)', floor=2)
    rd = ctx.rule('R07.d', 'atomic wrapper table agrees with atomic.h / atomic-gcc.h', floor=12)

    # ---------------- counter mode ----------------
    f = u.func('parsec_update_deps_with_counter')
    ctx.functions_analysed.add(f.name)
    dn = f.params[2]['n']       # the dependency word parameter
    star = '*' + dn
    for path in f.paths():
        steps = sym.symexec(f, path)
        ret = [(ev, env) for ev, env in steps if ev.kind == 'ret']
        if not ret:
            continue
        rev, renv = ret[-1]
        rexp = rev.e.subst(renv)
        pid = 'counter:' + '/'.join(str(b) for b, _ in path)
        rmws = [(ev, env) for ev, env in steps if ev.kind == 'call' and tables.is_rmw(ev.fn) and ev.args[0].s == dn]
        cas_ok = None
        for ev, env in steps:
            if ev.kind == 'assume':
                c, t = call_truth(ev.e, ev.op, 'parsec_atomic_cas_int32')
                if c is not None and c.ch[0].s == dn:
                    cas_ok = (c, t, env)
        # (a)
        loads = plain_loads_of(rexp, star)
        ra.expect(not loads and (rmws), 'counter:plain-load', rev.loc,
                  'return value %s re-reads %s instead of using the RMW result' % (rexp.s, star),
                  note='return %s' % rexp.s, path=[str(s) for s in path])
        # (b)
        decs = [(ev, env) for ev, env in rmws if tables.atomic_kind(ev.fn) in ('fetch_dec', 'fetch_sub', 'fetch_add', 'fetch_inc')]
        eff = len(decs) + (1 if cas_ok and cas_ok[1] else 0)
        if eff != 1:
            rb.bad('counter:updates', rev.loc, '%d effective updates of %s on path (expected exactly 1)' % (eff, star), path=[str(s) for s in path])
            continue
        if not (rexp.k == 'bin' and rexp.op == '==' and (rexp.ch[1].cv == 0 or rexp.ch[0].cv == 0)):
            rb.bad('counter:shape', rev.loc, 'verdict is not a comparison with 0: %s' % rexp.s)
            continue
        val = rexp.ch[0] if rexp.ch[1].cv == 0 else rexp.ch[1]
        if decs:
            ev, env = decs[0]
            ok = tables.is_post_value(val, ev.e.subst(env)) and tables.post_value(ev.e.subst(env)) == aff.norm(ev.e.subst(env)) - aff.Poly.const(1)
            rb.expect(ok, 'counter:post-value', rev.loc,
                      'compared value %s is not the post-value of %s' % (val.s, ev.e.s),
                      note='%s == post(%s)' % (val.s, ev.e.s))
        else:
            c, t, env = cas_ok
            newv = c.ch[2].subst(env)
            rb.expect(aff.norm(val) == aff.norm(newv) and c.ch[1].cv == 0, 'counter:cas-post-value', rev.loc,
                      'after a winning CAS the compared value %s is not the value installed (%s)' % (val.s, newv.s),
                      note='%s == value installed by winning CAS(0 -> .)' % val.s)
            # (c)
            want = [x for x in newv.calls('parsec_check_IN_dependencies_with_counter')]
            good = bool(want) and aff.norm(newv) == aff.norm(want[0]) - aff.Poly.const(1)
            rc.expect(good, 'counter:goal', ev.loc if False else rev.loc,
                      'CAS installs %s, expected parsec_check_IN_dependencies_with_counter(tp, task) - 1' % newv.s,
                      note='CAS installs goal-1 = %s' % newv.s)

    # ---------------- mask mode ----------------
    f = u.func('parsec_update_deps_with_mask')
    ctx.functions_analysed.add(f.name)
    dn = f.params[2]['n']; star = '*' + dn
    dest = f.params[5]['n']
    bit = aff.norm(_mk_shift(dest))
    for path in f.paths():
        steps = sym.symexec(f, path)
        ret = [(ev, env) for ev, env in steps if ev.kind == 'ret']
        if not ret:
            continue
        rev, renv = ret[-1]
        rexp = rev.e.subst(renv)
        rmws = [(ev, env) for ev, env in steps if ev.kind == 'call' and tables.is_rmw(ev.fn) and ev.args[0].s == dn]
        loads = plain_loads_of(rexp, star)
        ra.expect(not loads and rmws, 'mask:plain-load', rev.loc,
                  'return value %s re-reads %s instead of using the RMW result' % (rexp.s, star), note='return %s' % rexp.s)
        ors = [(ev, env) for ev, env in rmws if tables.atomic_kind(ev.fn) == 'fetch_or']
        if len(ors) != 1 or len(rmws) != 1:
            rb.bad('mask:updates', rev.loc, '%d atomic updates of %s on path (expected exactly one fetch_or)' % (len(rmws), star))
            continue
        ev, env = ors[0]
        call = ev.e.subst(env)
        operand = flatten(call.ch[1], '|')
        has_bit = any(aff.norm(o) == bit for o in operand)
        # verdict: (V & goal) == goal
        shape_ok = False; val = None
        if rexp.k == 'bin' and rexp.op == '==':
            l, r = rexp.ch
            for a, b in ((l, r), (r, l)):
                if a.k == 'bin' and a.op == '&':
                    for v, g in ((a.ch[0], a.ch[1]), (a.ch[1], a.ch[0])):
                        if g.s == b.s and g.s.endswith('dependencies_goal'):
                            shape_ok = True; val = v
        ok = has_bit and shape_ok and tables.is_post_value(val, call)
        rb.expect(ok, 'mask:post-value', rev.loc,
                  'mask verdict %s: need (post-value-of-fetch_or & goal) == goal with the flow bit 1<<%s->flow_index in the OR operand (%s)' % (rexp.s, dest, call.ch[1].s),
                  note='(fetch_or(..)|v) & goal == goal, v contains flow bit')
        # (c) goal provenance
        in_done_branch = None
        for ev2, env2 in steps:
            if ev2.kind == 'assume' and star in ev2.e.s and 'check' not in ev2.e.s:
                atom, pol = cond_atom(ev2.e)
                in_done_branch = (ev2.op if pol else (not ev2.op), atom)
        has_check = any(o.k == 'call' and o.n == 'parsec_check_IN_dependencies_with_mask' for o in operand)
        if in_done_branch is not None:
            truth, atom = in_done_branch     # atom = IN_DONE & *deps
            if not truth:   # IN_DONE not yet set -> must OR the IN mask
                rc.expect(has_check, 'mask:goal', rev.loc, 'IN dependencies mask not ORed when IN_DONE is unset', note='IN_DONE unset -> ORs check_IN_with_mask')
            else:
                rc.expect(not has_check, 'mask:goal-twice', rev.loc, 'IN dependencies mask recomputed although IN_DONE is set', note='IN_DONE set -> no recomputation')

    # ---------------- (d) the table itself ----------------
    n = tables.check_atomic_table(ctx, rd, u)


def _mk_shift(dest):
    from sa.facts import E
    return E('bin', op='<<', ch=[E('int', cv=1), E('mem', op='->', ch=[E('ref', n=dest)], n='flow_index')])
