"""C10 — local termination detection is exact (parsec/mca/termdet/local/termdet_local_module.c).

Clauses decided: the monitor word moves only NOT_READY->BUSY->TERMINATING->TERMINATED by CAS;
termination_detected() runs only for the thread that won BUSY->TERMINATING; that CAS is
attempted only when the pending-action count *as produced by this thread's own atomic
update* is zero; the task-count/pending-action coupling is the same in set_nb_tasks and
addto_nb_tasks; callback -> TERMINATED -> release order inside termination_detected."""
from sa import aff, tables, pathq
from sa.facts import cond_atom, AnalysisBroken

UNIT = 'parsec/mca/termdet/local/termdet_local_module.c'
NOT_READY, BUSY, TERMINATING, TERMINATED = 1, 2, 3, 0
PFX = 'parsec_termdet_local_'
DETECTED = PFX + 'termination_detected'


def is_monitor(e):
    return e.s.endswith('tdm.monitor') or e.s.endswith('tdm.monitor)')


def cas_monitor(ev):
    return ev.kind == 'call' and ev.fn == 'parsec_atomic_cas_ptr' and ev.args[0].s.lstrip('&').endswith('tdm.monitor')


def _run(ctx):
    ctx.explanation = ('Static all-paths clauses on the local termination detector: (a) termination_detected is called only on the success edge of '
                       'CAS(monitor, BUSY, TERMINATING), and inside it callback -> CAS(TERMINATING,TERMINATED) -> OBJ_RELEASE with no use of tp afterwards; '
                       '(b) every write of the monitor word is the initialisation or one of the three legal CAS transitions, and taskpool_state reports TERMINATING as BUSY; '
                       '(c) each BUSY->TERMINATING attempt is guarded by a zero test of the post-value of the pending-action update made on the same path; '
                       '(d) set_nb_tasks/addto_nb_tasks bump pending actions exactly on 0->positive and drop it exactly on positive->0 of the task count.')
    ctx.not_decided = 'the interleaving argument itself (that these clauses suffice) and liveness.'
    u = ctx.extract(UNIT)
    funcs = u.funcs()
    ra = ctx.rule('R10.a', 'termination_detected only after winning CAS BUSY->TERMINATING; callback->TERMINATED->release order', floor=8)
    rb = ctx.rule('R10.b', 'monitor word written only by init + legal CAS transitions; state maps TERMINATING to BUSY', floor=9)
    rc = ctx.rule('R10.c', 'BUSY->TERMINATING attempted only on zero post-value of own pending-action update', floor=5)
    rd = ctx.rule('R10.d', 'nb_tasks zero-crossings coupled to nb_pending_actions +-1 (siblings agree)', floor=6)

    # ---------------- R10.a -----------------------------------------------------------
    ncalls = 0
    for f in funcs.values():
        for ev in f.calls(DETECTED):
            ncalls += 1
            ctx.functions_analysed.add(f.name)
            ok = False
            for bid in f.blocks:
                c = f.cond(bid)
                if c is None:
                    continue
                atom, pol = cond_atom(c)
                if atom.k == 'call' and atom.n == 'parsec_atomic_cas_ptr' and atom.ch[0].s.lstrip('&').endswith('tdm.monitor') \
                        and atom.ch[1].cv == BUSY and atom.ch[2].cv == TERMINATING:
                    if f.edge_dominates(bid, True if pol else False, ev.point):
                        ok = True
            ra.expect(ok, '%s:unguarded-detected' % f.name, ev.loc,
                      '%s calls termination_detected without having won CAS(monitor, BUSY, TERMINATING)' % f.name,
                      note='%s: call dominated by success edge of CAS(BUSY->TERMINATING)' % f.name)
    f = u.func(DETECTED)
    ctx.functions_analysed.add(f.name)
    tp = f.params[0]['n']
    cbs = [e for e in f.calls() if e.fn is None and e.callee is not None and e.callee.s.endswith('tdm.callback')]
    cass = [e for e in f.calls('parsec_atomic_cas_ptr') if cas_monitor(e)]
    rels = [e for e in f.events() if e.macro == 'PARSEC_OBJ_RELEASE' and e.kind == 'call']
    if not cbs or not cass or not rels:
        raise AnalysisBroken('termination_detected: callback / CAS / release anchor missing (%d/%d/%d)' % (len(cbs), len(cass), len(rels)))
    cas = cass[0]
    ra.expect(len(cass) == 1 and cas.args[1].cv == TERMINATING and cas.args[2].cv == TERMINATED and f.postdominates(cas.point, (f.entry, 0)),
              'detected:cas', cas.loc, 'termination_detected must CAS monitor TERMINATING->TERMINATED on every path', note='CAS(TERMINATING->TERMINATED) on every path')
    for cb in cbs:
        ra.expect(not f.reaches(cas.point, cb.point) and f.reaches(cb.point, cas.point), 'detected:callback-order', cb.loc,
                  'user callback must run before the monitor becomes TERMINATED', note='callback precedes CAS to TERMINATED')
    first_rel = rels[0]
    ra.expect(all(not f.reaches(r.point, cas.point) for r in rels) and f.reaches(cas.point, first_rel.point), 'detected:release-order', first_rel.loc,
              'PARSEC_OBJ_RELEASE(tp) must come after the CAS to TERMINATED', note='release after TERMINATED')
    late = [e for e in f.events() if e.macro != 'PARSEC_OBJ_RELEASE' and e.kind in ('load', 'call', 'store')
            and any(f.reaches(r.point, e.point) for r in rels)
            and ((e.e is not None and tp in e.e.refs()) or (e.lhs is not None and tp in e.lhs.refs()))]
    ra.expect(not late, 'detected:use-after-release', late[0].loc if late else first_rel.loc,
              'taskpool used after PARSEC_OBJ_RELEASE in termination_detected', note='no use of tp after release')

    # ---------------- R10.b -----------------------------------------------------------
    legal = {(NOT_READY, BUSY), (BUSY, TERMINATING), (TERMINATING, TERMINATED)}
    for f in funcs.values():
        for ev in f.stores():
            if ev.lhs.k == 'mem' and ev.lhs.n == 'monitor' and ev.lhs.s.endswith('tdm.monitor'):
                ok = f.name == PFX + 'monitor_taskpool' and ev.rhs is not None and ev.rhs.cv == NOT_READY
                rb.expect(ok, '%s:plain-store' % f.name, ev.loc, 'plain store to tdm.monitor outside monitor_taskpool (or not NOT_READY): %s' % ev.e.s if ev.e else 'store',
                          note='initialisation to NOT_READY')
        for ev in f.calls('parsec_atomic_cas_ptr'):
            if cas_monitor(ev):
                tr = (ev.args[1].cv, ev.args[2].cv)
                rb.expect(tr in legal, '%s:illegal-transition:%s' % (f.name, tr), ev.loc, 'illegal monitor transition %s->%s in %s' % (tr[0], tr[1], f.name),
                          note='%s: CAS %s->%s' % (f.name, tr[0], tr[1]))
        for ev in f.calls():
            if ev.fn and tables.is_rmw(ev.fn) and ev.fn != 'parsec_atomic_cas_ptr' and ev.args and 'tdm.monitor' in ev.args[0].s:
                rb.bad('%s:rmw-monitor' % f.name, ev.loc, 'unexpected atomic op on tdm.monitor: %s' % ev.e.s)
    fs = u.func(PFX + 'taskpool_state')
    ctx.functions_analysed.add(fs.name)
    seen = {}
    for pi in pathq.all_paths(fs):
        rev, rexp = pi.ret()
        if rexp is None:
            continue
        for atom, truth, ev in pi.assumes():
            if not truth and atom.k == 'mem' and atom.n == 'monitor':       # NULL == monitor folded to (monitor, False)
                seen.setdefault(0, set()).add(rexp.s)
            if truth and atom.k == 'bin' and atom.op == '==':
                k = atom.ch[0].cv if atom.ch[0].cv is not None and atom.ch[0].k == 'int' else atom.ch[1].cv
                other = atom.ch[1] if atom.ch[0].k == 'int' else atom.ch[0]
                if k is not None and 'monitor' in other.s:
                    seen.setdefault(k, set()).add(rexp.s)
    want = {TERMINATED: 'PARSEC_TERM_TP_TERMINATED', BUSY: 'PARSEC_TERM_TP_BUSY', TERMINATING: 'PARSEC_TERM_TP_BUSY', NOT_READY: 'PARSEC_TERM_TP_NOT_READY'}
    for k, w in want.items():
        rb.expect(seen.get(k) == {w}, 'state:%d' % k, fs.where(), 'taskpool_state maps monitor value %d to %s, expected %s' % (k, sorted(seen.get(k, [])), w),
                  note='monitor %d -> %s' % (k, w))

    # ---------------- R10.c -----------------------------------------------------------
    for f in funcs.values():
        guard_blocks = []
        for bid in f.blocks:
            c = f.cond(bid)
            if c is None:
                continue
            atom, pol = cond_atom(c)
            if atom.k == 'call' and atom.n == 'parsec_atomic_cas_ptr' and atom.ch[0].s.lstrip('&').endswith('tdm.monitor') and atom.ch[1].cv == BUSY:
                guard_blocks.append(bid)
        if not guard_blocks:
            continue
        ctx.functions_analysed.add(f.name)
        tpn = f.params[0]['n']
        nbpa = '%s->nb_pending_actions' % tpn
        for pi in pathq.all_paths(f):
            casev = [(ev, env) for ev, env in pi.calls('parsec_atomic_cas_ptr') if cas_monitor(ev) and ev.args[1].cv == BUSY]
            if not casev:
                continue
            ev, env = casev[0]
            before = pi.before(ev)
            # zero tests assumed true before the CAS
            zero_tests = []
            for atom, truth, aev in pi.assumes():
                if pi.index(aev) > pi.index(ev):
                    continue
                r = pathq.rel(atom)
                if r and r[0] == '==' and truth:
                    if r[2] == aff.Poly.const(0):
                        zero_tests.append((r[1], atom))
                    elif r[1] == aff.Poly.const(0):
                        zero_tests.append((r[2], atom))
                elif r is None and not truth:      # if(!x)
                    zero_tests.append((aff.norm(atom), atom))
            # candidate post-values produced on this path before the CAS
            good = False; why = ''
            rmws = [(e2, v2) for e2, v2 in before if e2.kind == 'call' and tables.is_rmw(e2.fn) and e2.args[0].s.lstrip('&') == nbpa]
            for val, atom in zero_tests:
                for e2, v2 in rmws:
                    call = e2.e.subst(v2)
                    k = tables.atomic_kind(e2.fn)
                    if k == 'cas':
                        # value installed by a successful CAS loop exit
                        if aff.norm(call.ch[2]) == val:
                            good = True; why = 'value installed by CAS on nb_pending_actions'
                    elif tables.post_value(call) == val:
                        good = True; why = 'post-value of %s' % e2.fn
                if not good and f.name == PFX + 'taskpool_ready' and repr(val) == nbpa:
                    # plain load allowed only here, after NOT_READY->BUSY
                    pre = [e2 for e2, _ in before if cas_monitor(e2) and e2.args[1].cv == NOT_READY and e2.args[2].cv == BUSY]
                    lds = [e2 for e2, _ in before if e2.kind == 'load' and e2.e.s == nbpa]
                    # the value tested is the one read by the LAST load of the counter before the attempt:
                    # that load must come after readiness was published (else a concurrent last decrement is missed)
                    if pre and lds and pi.index(lds[-1]) > pi.index(pre[-1]) and len(lds) == 1:
                        good = True; why = 'load of nb_pending_actions after NOT_READY->BUSY (taskpool_ready)'
            rc.expect(good, '%s:unguarded-terminating' % f.name, ev.loc,
                      '%s attempts BUSY->TERMINATING without a zero test of the post-value of its own nb_pending_actions update (tests: %s)' % (
                          f.name, [a.s for _, a in zero_tests]), note='%s: guarded by zero test of %s' % (f.name, why))

    # ---------------- R10.d -----------------------------------------------------------
    for fname, mode in ((PFX + 'taskpool_set_nb_tasks', 'set'), (PFX + 'taskpool_addto_nb_tasks', 'add')):
        f = u.func(fname)
        ctx.functions_analysed.add(f.name)
        tpn = f.params[0]['n']; vn = f.params[1]['n']
        nbpa = '%s->nb_pending_actions' % tpn; nbt = '%s->nb_tasks' % tpn
        V = aff.Poly.atom(vn); Z = aff.Poly.const(0)
        for pi in pathq.all_paths(f):
            upd = [(e, v) for e, v in pi.calls() if e.fn and tables.is_rmw(e.fn) and e.args[0].s.lstrip('&') == nbt]
            if not upd:
                continue
            e, v = upd[-1]
            call = e.e.subst(v)
            if mode == 'set':
                # the CAS must have succeeded on this path for the code after the loop to run
                OLD = aff.norm(call.ch[1]); NEW = aff.norm(call.ch[2])
                if NEW != V:
                    rd.bad('%s:cas-new' % fname, e.loc, 'set_nb_tasks installs %s, not the requested value' % call.ch[2].s); continue
            else:
                if tables.atomic_kind(e.fn) != 'fetch_add' or aff.norm(call.ch[1]) != V:
                    rd.bad('%s:fetch-add' % fname, e.loc, 'addto_nb_tasks must fetch_add(nb_tasks, v), found %s' % call.s); continue
                OLD = aff.norm(call); NEW = OLD + V
            incs = [x for x, _ in pi.calls() if x.fn and tables.atomic_kind(x.fn) == 'fetch_inc' and x.args[0].s.lstrip('&') == nbpa]
            decs = [x for x, _ in pi.calls() if x.fn and tables.atomic_kind(x.fn) == 'fetch_dec' and x.args[0].s.lstrip('&') == nbpa]
            others = [x for x, _ in pi.calls() if x.fn and tables.is_rmw(x.fn) and x.args[0].s.lstrip('&') == nbpa and x not in incs and x not in decs]

            def holds(op, l, r):
                t = pathq.assumed(pi, op, l, r)
                if t is None and op == '<':
                    t2 = pathq.assumed(pi, '>', r, l)
                    t = t2
                return t
            old0 = holds('==', OLD, Z)
            oldpos = holds('<', Z, OLD)
            # NEW > 0 may be spelled v > 0 when OLD == 0 ; NEW == 0 may be spelled ov+v == 0 or v == 0 (set)
            newpos = holds('<', Z, NEW)
            if newpos is None and (mode == 'set' or old0):
                newpos = holds('<', Z, V)
            new0 = holds('==', NEW, Z)
            up = bool(old0) and bool(newpos)
            down = bool(oldpos) and bool(new0)
            loc = (incs or decs or [e])[0].loc
            key = '%s:%s' % (fname, 'up' if up else 'down' if down else 'none')
            if up:
                rd.expect(len(incs) == 1 and not decs and not others, key, loc, '%s: task count 0->positive must increment nb_pending_actions exactly once (inc=%d dec=%d)' % (fname, len(incs), len(decs)),
                          note='%s: 0->positive => one fetch_inc(nb_pending_actions)' % mode)
            elif down:
                rd.expect(len(decs) == 1 and not incs and not others, key, loc, '%s: task count positive->0 must decrement nb_pending_actions exactly once (inc=%d dec=%d)' % (fname, len(incs), len(decs)),
                          note='%s: positive->0 => one fetch_dec(nb_pending_actions)' % mode)
            else:
                rd.expect(not incs and not decs and not others, key, loc, '%s: nb_pending_actions changed on a path with no zero crossing of the task count (assumptions: %s)' % (
                    fname, [(a.s, t) for a, t, _ in pi.assumes()]), note='%s: no crossing => nb_pending_actions untouched' % mode)



def run(ctx):
    _run(ctx)
    from rules import whowrites
    whowrites.thorough(ctx, 'C10')
