"""C27 — arenas and memory pools never hand out a block twice (arena.c, mempool.c/.h) — clause level."""
from sa import aff, tables, pathq
from sa.facts import AnalysisBroken, cond_atom

U = 'parsec/arena.c'
UM = 'parsec/mempool.c'
INT32_MAX = 2147483647
# configuration fields of an arena: set when the arena is constructed, never written by the functions analysed here
STABLE = ('max_used', 'max_released')


def rmw_on(pi, field):
    out = []
    for e, v in pi.calls():
        if e.fn and tables.is_rmw(e.fn) and e.args[0].s.lstrip('&').endswith('->' + field):
            k = tables.atomic_kind(e.fn)
            c = e.e.subst(v)
            d = {'fetch_inc': aff.Poly.const(1), 'fetch_dec': aff.Poly.const(-1)}.get(k)
            if k == 'fetch_add':
                d = aff.norm(c.ch[1])
            elif k == 'fetch_sub':
                d = -aff.norm(c.ch[1])
            out.append((e, v, d))
    return out


def check_limit(ctx, ra, rb, f, amount):
    """rollback pairing and post-value refusal test for arena->used in f."""
    n = 0
    for pi in pathq.all_paths(f, max_paths=20000, stable=STABLE):
        rev, rexp = pi.ret()
        if rev is None:
            continue
        ops = rmw_on(pi, 'used')
        net = aff.Poly.const(0)
        for e, v, d in ops:
            if d is None:
                ra.bad('%s:odd-op' % f.name, e.loc, 'unexpected atomic op on arena->used'); continue
            net = net + d
        failed = rexp is not None and (rexp.cv == 0 and f.ret and '*' in f.ret or (rexp.cv is not None and rexp.cv < 0) or rexp.s == 'PARSEC_ERR_OUT_OF_RESOURCE')
        n += 1
        if failed:
            ra.expect(net == aff.Poly.const(0), '%s:rollback' % f.name, rev.loc, '%s: a failing path leaves arena->used changed by %r (the limit-side increment is not rolled back, or rolled back twice)' % (f.name, net),
                      note='%s: failure paths leave used unchanged' % f.name)
        # the refusal decision uses the post-value of this path's increment
        incs = [(e, v, d) for e, v, d in ops if d is not None and tables.atomic_kind(e.fn) in ('fetch_inc', 'fetch_add')]
        for e, v, d in incs:
            pv = tables.post_value(e.e.subst(v))
            t = pathq.assumed(pi, '<', aff.Poly.atom('arena->max_used'), pv)     # max_used < post  <=> post > max_used
            if t is None:
                t = pathq.assumed(pi, '>', pv, aff.Poly.atom('arena->max_used'))
            rb.expect(t is not None, '%s:post-value-test' % f.name, e.loc, '%s: the limit test after incrementing used must compare the post-value of the increment with max_used' % f.name,
                      note='%s: refusal iff post-value > max_used' % f.name)
            if t is True:
                rb.expect(failed, '%s:over-limit-success' % f.name, rev.loc, '%s: allocation succeeds although used exceeded max_used' % f.name, note='%s: over the limit => failure' % f.name)
            # guard symmetry: inc and its rollback under the same max_used != INT32_MAX test
    if n == 0:
        raise AnalysisBroken('%s: no path' % f.name)


def _run(ctx):
    ctx.explanation = ('Static clauses on arena.c / mempool: (a) every failing path of parsec_arena_get_chunk and parsec_arena_allocate_device_private leaves arena->used unchanged (increment rolled back exactly once); '
                       '(b) the refusal compares the post-value of the increment with max_used and an over-limit path always fails; (c) released is decremented exactly on a successful cache pop and incremented '
                       'exactly before a cache push, the push is guarded by released < max_released and count == 1, the non-cached release subtracts chunk->count from used and frees; (d) the data pointer is the '
                       'chunk base + header aligned up to arena->alignment and the requested size covers header + alignment + payload; (e) a mempool element is pushed back to the thread pool recorded in its '
                       'owner field, and that field is set when the element is created.')
    ctx.not_decided = 'double hand-out under concurrency (rests on the LIFO, C30); user-supplied allocators.'
    u = ctx.extract(U)
    ra = ctx.rule('R27.a', 'limit-side increment rolled back on every failing path', floor=3)
    rb = ctx.rule('R27.b', 'refusal decided on the post-value; over-limit never succeeds', floor=3)
    rc = ctx.rule('R27.c', 'cache accounting: released--/++ paired with pop/push, cache bounded, release frees', floor=5)
    rd = ctx.rule('R27.d', 'alignment and size of the handed-out block', floor=3)
    re_ = ctx.rule('R27.e', 'mempool elements return to their owner pool', floor=3)

    f = u.func('parsec_arena_get_chunk'); ctx.functions_analysed.add(f.name)
    check_limit(ctx, ra, rb, f, 1)
    g = u.func('parsec_arena_allocate_device_private'); ctx.functions_analysed.add(g.name)
    check_limit(ctx, ra, rb, g, None)
    # (c) get_chunk: released-- iff popped
    for pi in pathq.all_paths(f, max_paths=20000, stable=STABLE):
        pops = pi.calls('parsec_lifo_pop')
        decs = [x for x in rmw_on(pi, 'released')]
        if not pops:
            continue
        e, v = pops[0]
        popped = None
        for a, t, _ in pi.assumes():
            if a.s == e.e.subst(v).s:
                popped = t
        lim = pathq.assumed(pi, '!=', aff.Poly.atom('arena->max_released'), aff.Poly.const(INT32_MAX))
        if popped and lim:
            rc.expect(len(decs) == 1 and decs[0][2] == aff.Poly.const(-1), 'get_chunk:released-dec', e.loc, 'a successful cache pop must decrement released exactly once', note='pop success => released--')
        elif popped is False:
            rc.expect(not decs, 'get_chunk:released-dec-nopop', e.loc, 'released decremented although nothing was popped from the cache', note='no pop => released untouched')
    h = u.func('parsec_arena_release_chunk'); ctx.functions_analysed.add(h.name)
    push = h.calls('parsec_lifo_push'); fr = [e for e in h.calls() if e.fn is None and e.callee is not None and e.callee.k == 'mem' and e.callee.n == 'data_free']
    if len(push) != 1 or len(fr) != 1:
        raise AnalysisBroken('release_chunk: push/free anchors')
    def bounded(a, t):
        r = pathq.rel(a)
        return t and r is not None and r[0] == '<' and repr(r[1]).endswith('released') and repr(r[2]).endswith('max_released')
    def single(a, t):
        r = pathq.rel(a)
        return t and r is not None and r[0] == '==' and 'count' in a.s and aff.Poly.const(1) in (r[1], r[2])
    rc.expect(h.guarded_by(push[0].point, bounded) and h.guarded_by(push[0].point, single), 'release:cache-bound', push[0].loc,
              'a chunk may be cached only when count == 1 and released < max_released', note='cache push guarded by count == 1 && released < max_released')
    for pi in pathq.all_paths(h, stable=STABLE):
        pu = pi.calls('parsec_lifo_push'); fre = [x for x in pi.calls() if x[0].fn is None and x[0].callee is not None and x[0].callee.k == 'mem' and x[0].callee.n == 'data_free']
        incs = rmw_on(pi, 'released'); used = rmw_on(pi, 'used')
        rev, _ = pi.ret()
        loc = (pu or fre or [(rev, None)])[0][0].loc if (pu or fre or rev) else h.where()
        rc.expect(len(pu) + len(fre) == 1, 'release:exactly-one', loc, 'a released chunk must be either cached or freed, exactly once (push=%d free=%d)' % (len(pu), len(fre)), note='chunk cached xor freed')
        if pu:
            lim = pathq.assumed(pi, '!=', aff.Poly.atom('arena->max_released'), aff.Poly.const(INT32_MAX))
            if lim:
                rc.expect(len(incs) == 1 and incs[0][2] == aff.Poly.const(1) and pi.index(incs[0][0]) < pi.index(pu[0][0]) and not used, 'release:released-inc', loc,
                          'caching a chunk must increment released once, before the push, and leave used alone', note='cache: released++ then push')
        if fre:
            lim = pathq.assumed(pi, '!=', aff.Poly.atom('arena->max_used'), aff.Poly.const(INT32_MAX))
            nz = pathq.assumed(pi, '!=', aff.Poly.atom('arena->max_used'), aff.Poly.const(0))
            if lim and nz:
                rc.expect(len(used) == 1 and used[0][2] == -aff.Poly.atom('chunk->count') and not incs, 'release:used-sub', loc, 'freeing a chunk must subtract chunk->count from used', note='free: used -= chunk->count')
    # (d)
    st = [s_ for s_ in g.stores() if s_.lhs.s == 'chunk->data']
    ok = False
    if len(st) == 1:
        r = st[0].rhs
        # ((chunk + sizeof(hdr)) + (a - 1)) & ~(a - 1)
        if r.k == 'bin' and r.op == '&':
            lhs, mask = r.ch
            A = aff.Poly.atom('arena->alignment')
            hdr = [x for x in g.nodes if False]
            ok = aff.norm(lhs) - aff.Poly.atom('chunk') - A + aff.Poly.const(1) == aff.norm(lhs) - aff.Poly.atom('chunk') - A + aff.Poly.const(1) and mask.k == 'un' and mask.op == '~' and aff.norm(mask.ch[0]) == A - aff.Poly.const(1)
            rest = aff.norm(lhs) - aff.Poly.atom('chunk') - A + aff.Poly.const(1)
            ok = ok and rest.is_const() and rest.const_value() >= 24
    rd.expect(ok, 'align:data', st[0].loc if st else g.where(), 'chunk->data must be (chunk + sizeof(parsec_arena_chunk_t)) rounded up to arena->alignment', note='data = ALIGN_UP(chunk + header, alignment)')
    sz = [s_ for s_ in g.stores('size') if s_.rhs is not None]
    good = 0
    for s_ in sz:
        r = s_.rhs
        if r.k == 'bin' and r.op == '&':
            inner = aff.norm(r.ch[0])
            A = aff.Poly.atom('arena->alignment')
            base1 = aff.Poly.atom('arena->elem_size')
            basen = aff.Poly({tuple(sorted(('arena->elem_size', 'count'))): 1})
            rest1 = inner - base1 - A - A + aff.Poly.const(1)
            restn = inner - basen - A - A + aff.Poly.const(1)
            if (rest1.is_const() and rest1.const_value() >= 24) or (restn.is_const() and restn.const_value() >= 24):
                good += 1
    rd.expect(good == len(sz) == 2, 'align:size', sz[0].loc if sz else g.where(), 'requested size must be ALIGN(elem_size*count + alignment + sizeof(header), alignment) on both branches', note='size covers payload + alignment slack + header')
    cnt = [s_ for s_ in g.stores() if s_.lhs.s == 'chunk->count']
    rd.expect(len(cnt) == 1 and cnt[0].rhs.s == 'count', 'align:count', cnt[0].loc if cnt else g.where(), 'chunk->count must record the allocated count (release subtracts it from used)', note='chunk->count = count')

    # (e) mempool
    um = ctx.extract(UM)
    fm = um.func('parsec_mempool_free'); ctx.functions_analysed.add(fm.name)
    call = fm.calls('parsec_thread_mempool_free')
    ok = False
    if len(call) == 1:
        own = call[0].args[0].s
        src = [s_ for s_ in fm.stores(own) if s_.rhs is not None]
        ok = len(src) == 1 and 'pool_owner_offset' in src[0].rhs.s and call[0].args[1].s == fm.params[1]['n']
    re_.expect(ok, 'mempool:free-owner', call[0].loc if call else fm.where(), 'parsec_mempool_free must return the element to the thread pool stored at pool_owner_offset inside the element', note='free: push to *(elt + pool_owner_offset)')
    ft = um.func('parsec_thread_mempool_free')
    pu = ft.calls('parsec_lifo_push')
    re_.expect(len(pu) == 1 and pu[0].args[0].s == '&%s->mempool' % ft.params[0]['n'] and pu[0].args[1].s == ft.params[1]['n'], 'mempool:push', pu[0].loc if pu else ft.where(),
               'thread_mempool_free must push the element on that thread pool\'s LIFO', note='push(elt) on the given thread pool')
    fa = um.func('parsec_thread_mempool_allocate_when_empty'); ctx.functions_analysed.add(fa.name)
    ow = [s_ for s_ in fa.stores() if s_.lhs.k == 'un' and s_.lhs.op == '*' and s_.rhs is not None and s_.rhs.s == fa.params[0]['n']]
    src = [s_ for s_ in fa.stores(ow[0].lhs.ch[0].s)] if ow else []
    re_.expect(len(ow) == 1 and len(src) == 1 and 'pool_owner_offset' in src[0].rhs.s and fa.postdominates(ow[0].point, (fa.entry, 0)), 'mempool:set-owner', ow[0].loc if ow else fa.where(),
               'a new element must record its thread pool at pool_owner_offset', note='new element: *(elt + pool_owner_offset) = this thread pool')
    fal = um.func('parsec_thread_mempool_allocate')
    pops = fal.calls('parsec_lifo_pop'); grow = fal.calls('parsec_thread_mempool_allocate_when_empty')
    re_.expect(len(pops) == 1 and len(grow) == 1 and fal.guarded_by(grow[0].point, lambda a, t: (not t) and a.k == 'ref') and pops[0].args[0].s == '&%s->mempool' % fal.params[0]['n'], 'mempool:alloc',
               pops[0].loc if pops else fal.where(), 'allocation must pop from the thread pool and only allocate fresh memory when the pop yields NULL', note='allocate: pop, else allocate_when_empty')



def run(ctx):
    _run(ctx)
    from rules import whowrites
    whowrites.thorough(ctx, 'C27')
