"""C01 — every PTG task instance runs exactly once (clause level, generated code + runtime).

R01.a  the counting nest of <T>_internal_init (what termination detection is told) and the
       generating nest of __jdf2c_startup_<T> enumerate the same space: same ordered levels,
       equal start/end/step, a continuation relation that is right for the sign of the step
       ('<=' for a non-negative step, '>=' for a negative one), same predicate guard.
R01.b  in internal_init: nb_tasks++ only after the predicate guard; one atomic add of nb_tasks
       into initial_number_tasks; addto_nb_tasks -> taskpool_enable -> taskpool_ready in that
       order, only on the branch 1 == fetch_dec(sync_point).
R01.c  parsec_release_local_OUT_dependencies: the ready copy is created and handed off exactly
       once, only when update_deps says the task became ready.
"""
import re
from sa import facts, gen
from sa.facts import AnalysisBroken
from rules import gencommon as gc
from rules.gencommon import nexpr, norm_s

DESC_A = 'counting nest (internal_init) == generating nest (startup): levels, bounds, step, sign-correct continuation, guard'
DESC_B = 'internal_init: count after guard; one atomic add; addto_nb_tasks -> enable -> ready only for the last initialiser'
DESC_C = 'release_local_OUT_dependencies: exactly one hand-off of the ready copy, only when update_deps reports ready'


# ---------------------------------------------------------------------------------------
# R01.a
# ---------------------------------------------------------------------------------------
def _relation(fn, cond, var, pend):
    """cond expression -> {'pos': relop, 'neg': relop} for loop variable var, or None"""
    def simple(e):
        if e.k == 'bin' and e.op in ('<=', '>=', '<', '>'):
            l = nexpr(e.ch[0])
            if l == var:
                return e.op, e.ch[1]
        return None
    s = simple(cond)
    if s:
        return {'pos': s[0], 'neg': s[0]}, s[1]
    # ((inc >= 0) && (v <= end)) || ((inc < 0) && (v >= end))
    if cond.k == 'bin' and cond.op == '||':
        rel = {}
        end = None
        for side in cond.ch:
            if not (side.k == 'bin' and side.op == '&&'):
                return None
            sg, rl = side.ch
            r = simple(rl)
            if r is None or not (sg.k == 'bin' and sg.ch[1].k == 'int' and sg.ch[1].cv == 0):
                return None
            if sg.op == '>=':
                rel['pos'] = r[0]
            elif sg.op == '<':
                rel['neg'] = r[0]
            else:
                return None
            rel.setdefault('signof', set()).add(nexpr(sg.ch[0]))
            end = r[1]
        if 'pos' in rel and 'neg' in rel:
            return rel, end
    return None


def _nest(fn, cls, locals_):
    """Signature of the enumeration in fn: list of items up to the predicate guard.
    Returns (items, guard_if_nid, after_guard_info) or None if there is no guard."""
    par = gc.parent_map(fn)
    guard = None
    for nid in fn.ast_walk():
        n = fn.nodes[nid]
        if n['k'] != 'if':
            continue
        c = n.get('cond')
        if c is None or c < 0:
            continue
        ce = fn.nodes[c]
        # !( <expansion of T_pred(...)> )
        mo = None
        for x in fn.ast_walk(c):
            mo = fn.nodes[x].get('mo')
            if mo:
                break
        if mo != cls + '_pred':
            continue
        th = n.get('then')
        if th is None or fn.nodes[th]['k'] != 'continue':
            continue
        e = fn.expr(c)
        if not (e.k == 'un' and e.op == '!'):
            continue
        guard = nid
        break
    if guard is None:
        return None
    anc = list(gc.ancestors(par, guard))
    loops = [a for a in anc if fn.nodes[a]['k'] == 'for']
    loops.reverse()
    # pending __jdf2c_X_start/_end/_inc values (counting side), in pre-order before the guard
    pend = {}
    items = []
    seen_for = set()
    order = []
    for nid in fn.ast_walk():
        if nid == guard:
            break
        order.append(nid)
    in_header = set()
    for l in loops:
        n = fn.nodes[l]
        for key in ('init', 'cond', 'inc'):
            if n.get(key) is not None and n[key] >= 0:
                in_header.update(fn.ast_walk(n[key]))
    for nid in order:
        n = fn.nodes[nid]
        if n['k'] == 'for' and nid in loops:
            init = fn.expr(n['init']) if n.get('init', -1) >= 0 else None
            cond = fn.expr(n['cond']) if n.get('cond', -1) >= 0 else None
            inc = fn.expr(n['inc']) if n.get('inc', -1) >= 0 else None
            lhs, val, _ = gc.asg_chain(init) if init is not None else ([], None, None)
            names = [nexpr(x) for x in lhs]
            var = None
            for x in lhs:
                if x.k == 'ref':
                    var = x.n
            if var is None and names:
                var = names[-1]
            start = nexpr(val) if val is not None else None
            m = re.fullmatch(r'__jdf2c_(\w+)_start', start or '')
            if m and m.group(1) in pend and 'start' in pend[m.group(1)]:
                start = pend[m.group(1)]['start']
            rel = _relation(fn, cond, var, pend) if cond is not None else None
            end = None
            if rel:
                rel, ende = rel
                end = nexpr(ende)
                m = re.fullmatch(r'__jdf2c_(\w+)_end', end or '')
                if m and m.group(1) in pend and 'end' in pend[m.group(1)]:
                    end = pend[m.group(1)]['end']
            step = None; stepcv = None
            for part in gc.flatten_comma(inc):
                l2, v2, op2 = gc.asg_chain(part)
                # x += STEP   or   A = x += STEP
                if part.k == 'asg':
                    e = part
                    while e.k == 'asg' and e.op == '=' and e.ch[1].k == 'asg':
                        e = e.ch[1]
                    if e.k == 'asg' and e.op == '+=' and nexpr(e.ch[0]) == var:
                        step = nexpr(e.ch[1]); stepcv = e.ch[1].cv
                        m = re.fullmatch(r'__jdf2c_(\w+)_inc', step or '')
                        if m and m.group(1) in pend and 'inc' in pend[m.group(1)]:
                            step, stepcv = pend[m.group(1)]['inc']
                elif part.k == 'un' and part.op in ('post++', 'pre++') and nexpr(part.ch[0]) == var:
                    step = '1'; stepcv = 1
            items.append(('range', var, start, end, step, stepcv, rel, fn.line_of(nid)))
            continue
        if nid in in_header:
            continue
        if n['k'] == 'asg':
            e = fn.expr(nid)
            if e.k != 'asg' or e.op != '=':
                continue
            l = e.ch[0]
            if l.k == 'ref':
                m = re.fullmatch(r'__jdf2c_(\w+)_(start|end|inc)', l.n)
                if m:
                    d = pend.setdefault(m.group(1), {})
                    d[m.group(2)] = (nexpr(e.ch[1]), e.ch[1].cv) if m.group(2) == 'inc' else nexpr(e.ch[1])
                    continue
                if l.n in locals_:
                    v = e.ch[1]
                    if v.k == 'asg':
                        continue        # outer part of a chain; the inner one is visited too
                    vs = nexpr(v)
                    if vs == l.n:
                        continue        # identity reload (x = this_task->locals.x.value)
                    items.append(('let', l.n, vs, fn.line_of(nid)))
    g = fn.expr(fn.nodes[guard]['cond'])
    items.append(('guard', nexpr(g), fn.line_of(guard)))
    return items, guard, par


def _class_locals(fields):
    out = []
    e = fields.get('locals')
    if e is None or e.k != 'init':
        return out
    for c in e.ch:
        for r in c.walk():
            if r.k == 'ref' and r.n.startswith('symb_'):
                out.append(r.n)
    return out


def q_R01a(u, prog):
    rec = gc.Rec()
    classes = gc.task_classes(u)
    fnames = set(u.funcs().keys()) if isinstance(u.funcs(), dict) else set()
    for cname, (g, fields) in classes.items():
        su = '__jdf2c_startup_' + cname
        if su not in fnames:
            continue
        cnt = [f for f in fnames if f.endswith('_%s_internal_init' % cname)]
        if not cnt:
            rec.bad('R01.a', '%s:%s:no-internal-init' % (prog.name, cname), gc.ploc(prog, su),
                    'startup function without a counting internal_init')
            continue
        fs = u.func(su); fc = u.func(sorted(cnt, key=len)[0])
        symb = _class_locals(fields)
        # class locals: names of the startup prologue declarations  int X = this_task->locals.X.value
        locals_ = set()
        for nid in fs.ast_walk():
            n = fs.nodes[nid]
            if n['k'] == 'decl':
                for v in n.get('vars', []):
                    if 'init' in v:
                        s = fs.expr(v['init']).s
                        m = re.fullmatch(r'this_task->locals\.(\w+)\.value', s)
                        if m and m.group(1) == v.get('n', v.get('name')):
                            locals_.add(m.group(1))
        ns = _nest(fs, cname, locals_)
        nc = _nest(fc, cname, locals_)
        if nc is None and ns is None:
            continue
        counts = any(nexpr(fc.expr(x)).startswith('nb_tasks') for x in fc.ast_walk()
                     if fc.nodes[x]['k'] == 'un' and fc.nodes[x].get('op', '').endswith('++'))
        if nc is None and not counts:
            rec.info('uncounted', '%s: task count supplied by a user function, counting nest not emitted' % cname)
            continue
        if nc is None or ns is None:
            rec.bad('R01.a', '%s:%s:no-guard' % (prog.name, cname), gc.ploc(prog, su if ns is None else fc.name),
                    'predicate guard %s_pred missing in %s' % (cname, 'startup' if ns is None else 'internal_init'))
            continue
        ic, _, _ = nc; is_, _, _ = ns
        loc = gc.ploc(prog, su)

        def strip(it):
            return it[:-1]
        lc = [strip(i) for i in ic]; ls = [strip(i) for i in is_]
        # shapes
        shape_c = [(i[0], i[1]) for i in lc]; shape_s = [(i[0], i[1]) for i in ls]
        if shape_c != shape_s:
            rec.bad('R01.a', '%s:%s:shape' % (prog.name, cname), loc,
                    'enumeration levels differ: count %s vs startup %s' % (shape_c, shape_s))
            continue
        for a, b, ia, ib in zip(lc, ls, ic, is_):
            kind = a[0]
            if kind == 'range':
                _, var, st, en, step, stepcv, rel = a
                _, _, st2, en2, step2, stepcv2, rel2 = b
                where = '%s (emitted lines %d / %d)' % (loc, ia[-1], ib[-1])
                rec.expect(st == st2 and en == en2 and step == step2, 'R01.a', '%s:%s:%s:bounds' % (prog.name, cname, var), where,
                           'range of %s differs: count [%s .. %s .. %s] vs startup [%s .. %s .. %s]' % (var, st, en, step, st2, en2, step2),
                           note='%s.%s bounds/step agree [%s .. %s .. %s]' % (cname, var, st, en, step))
                for side, r, cv, who in (('count', rel, stepcv, 'jdf_generate_internal_init'), ('startup', rel2, stepcv2, 'jdf_generate_startup_tasks')):
                    if r is None:
                        rec.broken('%s: loop condition of %s in %s is not a recognised continuation test' % (where, var, side))
                        continue
                    signs = ['pos' if cv >= 0 else 'neg'] if cv is not None else ['pos', 'neg']
                    so = r.get('signof')
                    if so is not None:
                        # the sign that selects the relation must be the sign of this loop's step
                        okso = all(x == step or x == '__jdf2c_%s_inc' % var for x in so)
                        rec.expect(okso, 'R01.a', '%s:%s:%s:%s:sign-of' % (prog.name, cname, var, side), where,
                                   '%s loop over %s selects its continuation test on the sign of %s, not of its step %s' % (side, var, sorted(so), step),
                                   note='%s.%s %s: relation selected on the sign of the step' % (cname, var, side))
                    for sg in signs:
                        want = '<=' if sg == 'pos' else '>='
                        rec.expect(r[sg] == want, 'R01.a', '%s:%s:%s:%s:%s-step' % (prog.name, cname, var, side, sg), where,
                                   '%s loop over %s continues while "%s %s end" for a %s step (%s): the %s enumerate%s nothing / the wrong set (%s)'
                                   % (side, var, var, r[sg], 'negative' if sg == 'neg' else 'non-negative',
                                      'constant %s' % cv if cv is not None else 'run-time value %s' % step,
                                      side, 's' if side == 'startup' else 's', who),
                                   note='%s.%s %s: "%s" for %s step' % (cname, var, side, r[sg], sg))
            elif kind == 'let':
                rec.expect(a == b, 'R01.a', '%s:%s:%s:let' % (prog.name, cname, a[1]), loc,
                           'definition of %s differs: count "%s" vs startup "%s"' % (a[1], a[2], b[2]),
                           note='%s.%s definition agrees' % (cname, a[1]))
            elif kind == 'guard':
                rec.expect(a == b, 'R01.a', '%s:%s:guard' % (prog.name, cname), loc,
                           'predicate guard differs: count "%s" vs startup "%s"' % (a[1], b[1]),
                           note='%s predicate guard agrees' % cname)
    return rec


# ---------------------------------------------------------------------------------------
# R01.b
# ---------------------------------------------------------------------------------------
def _indirect(ev, field):
    return ev.kind == 'call' and ev.fn is None and ev.callee is not None and ev.callee.s.endswith(field)


def q_R01b(u, prog):
    rec = gc.Rec()
    classes = gc.task_classes(u)
    for fname, fc in u.funcs().items():
        m = re.fullmatch(r'\w+?_(\w+)_internal_init', fname)
        if not m:
            continue
        cname = None
        for c in classes:
            if fname.endswith('_%s_internal_init' % c) and (cname is None or len(c) > len(cname)):
                cname = c
        if cname is None:
            continue
        loc = gc.ploc(prog, fname)
        key = '%s:%s' % (prog.name, cname)
        evs = fc.events()
        incs = [e for e in evs if e.kind == 'store' and e.lhs.s == 'nb_tasks' and e.op in ('++', '+=')]
        # count only behind the predicate guard
        for e in incs:
            ok = False
            for atom, truth, bid in fc.guards(e.point):
                cn = fc.nodes[fc.blocks[bid]['cond']] if 'cond' in fc.blocks[bid] else None
                tn = fc.blocks[bid].get('term')
                mo = None
                for x in ([fc.blocks[bid].get('cond')] if fc.blocks[bid].get('cond') is not None else []):
                    for y in fc.ast_walk(x):
                        mo = fc.nodes[y].get('mo')
                        if mo:
                            break
                if mo == cname + '_pred' and truth is True:
                    ok = True
            rec.expect(ok, 'R01.b', key + ':count-unguarded', loc + ':%d' % fc.line_of(e.nid),
                       'nb_tasks is incremented for instances that %s_pred rejects (tasks of other ranks are counted)' % cname,
                       note='%s: count only local instances' % cname)
        decs = [e for e in evs if e.kind == 'call' and e.fn == 'parsec_atomic_fetch_dec_int32' and 'sync_point' in e.e.s]
        if not rec.expect(len(decs) == 1, 'R01.b', key + ':sync-point', loc,
                          'internal_init must decrement sync_point exactly once (found %d)' % len(decs),
                          note='%s: one decrement of sync_point' % cname):
            continue
        dec = decs[0]

        def last_only(e):
            for atom, truth, bid in fc.guards(e.point):
                a = atom.s
                if 'parsec_atomic_fetch_dec_int32' in a and 'sync_point' in a and re.search(r'(^1 == |== 1$)', a) and truth is True:
                    return True
            return False
        adds = [e for e in evs if e.kind == 'call' and e.fn and e.fn.startswith('parsec_atomic_fetch_add') and 'initial_number_tasks' in e.e.s]
        if incs:
            def only_zero_guard(e):
                return all((re.fullmatch(r'(0 != )?nb_tasks( != 0)?', a.s) and t is True)
                           or fc.term_kind(b) in ('for', 'while', 'do') for a, t, b in fc.guards(e.point))
            ok = len(adds) == 1 and adds[0].args[1].s == 'nb_tasks' and fc.ordered(adds[0], dec) and only_zero_guard(adds[0]) \
                and all(fc.reaches(i.point, adds[0].point) and not fc.reaches(adds[0].point, i.point) for i in incs)
            rec.expect(ok, 'R01.b', key + ':publish-count', loc,
                       'the counted tasks must be added once to initial_number_tasks, after the counting loops and before sync_point is decremented',
                       note='%s: nb_tasks published once before the sync point' % cname)
        seq = []
        for field in ('taskpool_addto_nb_tasks', None, 'taskpool_ready'):
            if field:
                c = [e for e in evs if _indirect(e, 'tdm.module->' + field)]
            else:
                c = [e for e in evs if e.kind == 'call' and e.fn == 'parsec_taskpool_enable']
            seq.append(c)
        names = ['taskpool_addto_nb_tasks', 'parsec_taskpool_enable', 'taskpool_ready']
        need = [1 if incs else None, 1, 1]     # a pool that counts nothing (user-triggered termination) announces nothing
        if not rec.expect(all(len(c) == n if n is not None else len(c) <= 1 for c, n in zip(seq, need)), 'R01.b', key + ':enable-seq', loc,
                          'internal_init must call %s exactly once each (found %s)' % (', '.join(names), [len(c) for c in seq]),
                          note='%s: %senable, ready present once' % (cname, 'addto_nb_tasks, ' if seq[0] else '')):
            continue
        en, rd = seq[1][0], seq[2][0]
        a = seq[0][0] if seq[0] else None
        chain = [e for e in (a, en, rd) if e is not None]
        rec.expect(all(last_only(e) for e in chain), 'R01.b', key + ':last-only', loc,
                   'addto_nb_tasks / enable / ready must run only in the initialiser that takes sync_point from 1 to 0',
                   note='%s: publication only by the last initialiser' % cname)
        rec.expect(all(fc.precedes(x, y) for x, y in zip(chain, chain[1:])), 'R01.b', key + ':order', loc,
                   'order must be addto_nb_tasks -> parsec_taskpool_enable -> taskpool_ready',
                   note='%s: tasks announced before the startup tasks are enabled, ready last' % cname)
        if incs:
            rec.expect(len(a.args) == 2 and a.args[1].s.endswith('initial_number_tasks'), 'R01.b', key + ':announce-count', loc,
                       'the number announced to termination detection must be initial_number_tasks (is %s)' % (a.args[1].s if len(a.args) > 1 else '?'),
                       note='%s: announces initial_number_tasks' % cname)
    return rec


# ---------------------------------------------------------------------------------------
# R01.c  (runtime, parsec/parsec.c)
# ---------------------------------------------------------------------------------------
def check_R01c(ctx, rc):
    u = ctx.extract('parsec/parsec.c')
    fn = u.func('parsec_release_local_OUT_dependencies')
    if fn is None:
        raise AnalysisBroken('parsec_release_local_OUT_dependencies not found in parsec/parsec.c')
    ctx.functions_analysed.add(fn.name)
    evs = fn.events()
    loc = fn.where()
    upd = [e for e in evs if e.kind == 'call' and e.fn is None and e.callee is not None and e.callee.s.endswith('->update_deps')]
    if not rc.expect(len(upd) == 1, 'update-once', loc, 'exactly one call of tc->update_deps per activation (found %d)' % len(upd),
                     note='one update_deps call'):
        return
    st = [e for e in evs if e.kind == 'store' and e.rhs is not None and e.rhs.nid == upd[0].e.nid]
    if not rc.expect(len(st) == 1 and st[0].lhs.k == 'ref', 'verdict-var', loc, 'the verdict of update_deps must be kept in a local'):
        return
    verdict = st[0].lhs.s
    rc.expect(not [e for e in evs if e.kind == 'store' and e.lhs.s == verdict and e is not st[0]], 'verdict-overwritten', loc,
              'the verdict %s of update_deps is overwritten before it is used' % verdict, note='verdict assigned once')

    def ready(e):
        return any(a.s == verdict and t is True for a, t, _ in fn.guards(e.point))

    def immediate(e):
        for a, t, _ in fn.guards(e.point):
            if 'PARSEC_IMMEDIATE_TASK' in a.s or (a.k == 'bin' and a.op == '&' and a.ch[1].cv == 1 << 2 and 'flags' in a.ch[0].s):
                return t
            if a.k == 'bin' and a.op == '&' and 'flags' in a.s and any(x.n == 'PARSEC_IMMEDIATE_TASK' for x in a.walk() if x.k == 'int'):
                return t
        return None
    alloc = [e for e in evs if e.kind == 'call' and e.fn == 'parsec_thread_mempool_allocate']
    push = [e for e in evs if e.kind == 'call' and e.fn in ('parsec_list_item_ring_push_sorted', 'parsec_list_item_ring_push')]
    exe = [e for e in evs if e.kind == 'call' and e.fn == '__parsec_execute']
    comp = [e for e in evs if e.kind == 'call' and e.fn == '__parsec_complete_execution']
    sched = [e for e in evs if e.kind == 'call' and e.fn in ('__parsec_schedule', '__parsec_schedule_vp', 'parsec_schedule')]
    if not rc.expect(len(alloc) == 1 and len(push) == 1 and len(exe) == 1 and len(comp) == 1 and not sched, 'handoff-sites', loc,
                     'expected one copy allocation, one ring push, one immediate execute+complete (found alloc=%d push=%d exec=%d complete=%d sched=%d)'
                     % (len(alloc), len(push), len(exe), len(comp), len(sched)), note='one allocation, one push site, one immediate site'):
        return
    a, p, x, c = alloc[0], push[0], exe[0], comp[0]
    for e, nm in ((a, 'copy allocation'), (p, 'ring push'), (x, 'immediate execute'), (c, 'immediate complete')):
        rc.expect(ready(e), 'unready-' + nm.replace(' ', '-'), fn.loc(e.nid),
                  '%s happens although update_deps did not report the task ready' % nm, note='%s only when ready' % nm)
    rc.expect(immediate(p) is False and immediate(x) is True and immediate(c) is True, 'handoff-exclusive', fn.loc(p.nid),
              'ring push and immediate execution must be the two branches of the IMMEDIATE_TASK test (exactly one hand-off per ready task)',
              note='push xor immediate execution')
    rc.expect(fn.precedes(x, c), 'immediate-order', fn.loc(c.nid), 'immediate task must be executed before it is completed', note='execute before complete')
    ps = [e for e in evs if e.kind == 'store' and e.lhs.s == '*pready_ring' and e.rhs is not None and any(y.nid == p.e.nid for y in e.rhs.walk())]
    rc.expect(len(ps) == 1, 'push-result-lost', fn.loc(p.nid), 'the ring returned by the sorted push must be stored back into *pready_ring',
              note='ring head updated')
    newc = [e for e in evs if e.kind == 'store' and e.rhs is not None and any(y.nid == a.e.nid for y in e.rhs.walk())]
    if rc.expect(len(newc) == 1, 'copy-var', fn.loc(a.nid), 'allocated copy must be kept in a local'):
        nv = newc[0].lhs.s
        rc.expect(any(nv in arg.s for arg in p.args[1:2]) and x.args[1].s == nv and c.args[1].s == nv, 'handoff-other-task', fn.loc(p.nid),
                  'the task handed off must be the freshly allocated copy %s' % nv, note='the copy is what is handed off')


# ---------------------------------------------------------------------------------------
# R01.d  startup: tasks discovered by the startup function are announced before they are
#        scheduled (dynamic termination), and are not announced twice (static count)
# ---------------------------------------------------------------------------------------
def q_R01d(u, prog):
    rec = gc.Rec()
    classes = gc.task_classes(u)
    funcs = u.funcs()
    try:
        dynamic = re.search(r'^\s*%option\s+termdet\s*=\s*"dynamic"', open(prog.jdf).read(), re.M) is not None
    except OSError:
        dynamic = False
    for cname in classes:
        su = '__jdf2c_startup_' + cname
        if su not in funcs:
            continue
        cnt = sorted([f for f in funcs if f.endswith('_%s_internal_init' % cname)], key=len)
        if not cnt:
            continue
        fc = u.func(cnt[0]); fs = u.func(su)
        counts = any(e.kind == 'store' and e.lhs.s == 'nb_tasks' and e.op == '++' for e in fc.events())
        ud = any(_indirect(e, 'tdm.module->taskpool_addto_nb_tasks') for e in fc.events())
        evs = fs.events()
        adds = [e for e in evs if _indirect(e, 'tdm.module->taskpool_addto_nb_tasks')]
        scheds = [e for e in evs if e.kind == 'call' and e.fn == '__parsec_schedule_vp']
        loc = gc.ploc(prog, su)
        key = '%s:%s' % (prog.name, cname)
        pushes = [e for e in evs if e.kind == 'call' and e.fn == 'parsec_list_item_ring_push_sorted']
        incs = [e for e in evs if e.kind == 'store' and e.lhs.s == 'nb_tasks' and e.op == '++']
        rec.expect(len(pushes) == 1 and len(incs) == 1 and pushes[0].block == incs[0].block and pushes[0].idx < incs[0].idx,
                   'R01.d', key + ':startup-count', loc, 'every generated startup task must be pushed once and counted once in nb_tasks',
                   note='%s: one push, one count per generated task' % cname)
        if counts or ud:
            rec.expect(not adds, 'R01.d', key + ':double-announce', loc,
                       'tasks already announced by internal_init are announced again by the startup function',
                       note='%s: statically counted, startup announces nothing' % cname)
            continue
        if not dynamic:
            rec.info('utt', '%s: no task counting at all (user-triggered termination)' % cname)
            continue
        for sc in scheds:
            pre = [a for a in adds if a.block == sc.block and a.idx < sc.idx and a.args[1].s == 'nb_tasks']
            rec.expect(bool(pre), 'R01.d', key + ':schedule-unannounced', loc + ':%d' % fs.line_of(sc.nid),
                       'startup tasks are scheduled before their number is added to the termination detector',
                       note='%s: addto_nb_tasks(nb_tasks) right before __parsec_schedule_vp' % cname)
    if dynamic:
        for fname, f in funcs.items():
            if not fname.startswith('release_deps_of_'):
                continue
            evs = f.events()
            adds = [e for e in evs if _indirect(e, 'tdm.module->taskpool_addto_nb_tasks')]
            for sc in [e for e in evs if e.kind == 'call' and e.fn in ('__parsec_schedule_vp', '__parsec_schedule')]:
                rec.expect(any(f.precedes(a, sc) for a in adds), 'R01.d', '%s:%s:release-unannounced' % (prog.name, fname),
                           gc.ploc(prog, fname, f.line_of(sc.nid)),
                           'dynamic termination: successors are scheduled before their number is added to the termination detector',
                           note='%s: ready successors announced before they are scheduled' % fname)
    return rec


def q_both(u, prog):
    r = q_R01a(u, prog)
    r.items += q_R01b(u, prog).items
    r.items += q_R01d(u, prog).items
    return r


def run(ctx):
    ctx.level = 'translation_validation'
    ctx.explanation = ('Clause level. Decided on the C emitted by a parsec-ptgpp rebuilt from the current ptg-compiler '
                       'sources for every JDF of the build plus /verif/corpus: the task count announced to termination '
                       'detection and the startup enumeration range over the same space (R01.a), the count is published '
                       'once by the last initialiser before the taskpool is enabled (R01.b); on the runtime: a successor '
                       'is handed off exactly once when its dependencies complete (R01.c).')
    ctx.not_decided = ('that the enumeration equals the declared execution space for programs outside the corpus; '
                       'scheduler/interleaving effects (C07, C08); remote activation paths.')
    g = gen.Gen(ctx)
    ra = ctx.rule('R01.a', DESC_A, 60)
    progs = g.programs(ctx.tier)
    progs = [p for p in progs if not p.expect_fail]
    rb = ctx.rule('R01.b', DESC_B, 300)
    res = g.scan(progs, q_both)
    rd = ctx.rule('R01.d', 'startup: each generated task pushed and counted once; announced before scheduling (dynamic) / not twice (static)', 80)
    gc.apply_records(ctx, {'R01.a': ra, 'R01.b': rb, 'R01.d': rd}, res)
    rc = ctx.rule('R01.c', DESC_C, 10)
    check_R01c(ctx, _Keyed(rc))
    # the startup enumeration flushes its per-VP ring array through __parsec_schedule_vp again and again: each slot that was
    # scheduled or parked as next_task must be cleared, or the task is handed out twice (rule set of C08/R08.e, re-run here)
    re1 = ctx.rule('R01.e', '__parsec_schedule / __parsec_schedule_vp: each ring slot is scheduled once and cleared (R08.e re-run: the startup enumeration re-uses its ring array)', floor=4)
    from rules import C08
    C08.check_schedule_vp(ctx, re1, ctx.extract('parsec/scheduling.c'))
    gc.raise_pending(ctx)


class _Keyed:
    """rule.expect with (cond, key, loc, msg) and the ok-note defaulting to the key"""
    def __init__(self, r):
        self.r = r

    def expect(self, cond, key, loc, msg, note=''):
        return self.r.expect(cond, key, loc, msg, note=note or key)
