"""R16.b — chunked generation of startup tasks (generated __jdf2c_startup_<T>), structural clauses:
the position in the enumeration survives a PARSEC_HOOK_RETURN_AGAIN because every loop runs on the
persistent cell this_task->locals.X.value and the locals are re-read from it on entry; the resume
point is right after the instance that was generated last (no duplicate, no loss); what was
generated so far is scheduled before AGAIN is returned."""
import re
from sa import gen as sagen
from rules import gencommon as gc
from rules.gencommon import nexpr


def q_R16b(u, prog):
    rec = gc.Rec()
    classes = gc.task_classes(u)
    funcs = u.funcs()
    for cname in classes:
        su = '__jdf2c_startup_' + cname
        if su not in funcs:
            continue
        f = u.func(su)
        loc = gc.ploc(prog, su)
        key = '%s:%s' % (prog.name, cname)
        order = list(f.ast_walk())
        pos = {n: i for i, n in enumerate(order)}
        par = gc.parent_map(f)

        def loops_of(n):
            return [a for a in gc.ancestors(par, n) if f.nodes[a]['k'] == 'for']
        labels = {}
        for n in order:
            nd = f.nodes[n]
            if nd['k'] == 'label':
                m = re.fullmatch(r'restore_context_(\d+)', nd.get('n', ''))
                if m:
                    labels[int(m.group(1))] = n
        push = [n for n in order if f.nodes[n]['k'] == 'call' and f.nodes[n].get('fn') == 'parsec_list_item_ring_push_sorted']
        incs = [n for n in order if f.nodes[n]['k'] == 'un' and f.nodes[n].get('op') in ('post++', 'pre++') and f.expr(n).ch[0].s == 'nb_tasks']
        rets = [n for n in order if f.nodes[n]['k'] == 'ret' and f.nodes[n].get('ch') and 'PARSEC_HOOK_RETURN_AGAIN' in gc.macro_names(f, f.expr(f.nodes[n]['ch'][0]))]
        if not rets:
            rets = [n for n in order if f.nodes[n]['k'] == 'ret' and f.nodes[n].get('ch') and f.expr(f.nodes[n]['ch'][0]).cv == -1]
        if not rec.expect(sorted(labels) == list(range(len(labels))) and len(labels) >= 1 and len(push) == 1 and len(incs) == 1 and len(rets) == 1,
                          'R16.b', key + ':anchors', loc,
                          'startup function must have resume labels restore_context_0..n, one push, one nb_tasks++ and one AGAIN return (found labels %s, %d, %d, %d)'
                          % (sorted(labels), len(push), len(incs), len(rets)), note='%s: resume labels 0..%d, one generation site, one AGAIN return' % (cname, len(labels) - 1)):
            continue
        last = labels[max(labels)]
        P, I, R = push[0], incs[0], rets[0]
        nest = loops_of(P)
        rec.expect(pos[P] < pos[I] < pos[last] < pos[R] and loops_of(last) == nest and loops_of(R) == nest, 'R16.b', key + ':resume-point', loc,
                   'the last resume label must come right after the generation of an instance (push, nb_tasks++) and before the AGAIN return, in the same innermost loop: '
                   'resuming before the push generates the instance twice, resuming outside the loop body loses the rest of the range',
                   note='%s: resume point after the generated instance, inside the innermost loop' % cname)
        # everything generated so far is scheduled before AGAIN
        sched = [n for n in order if f.nodes[n]['k'] == 'call' and f.nodes[n].get('fn') == '__parsec_schedule_vp' and pos[last] < pos[n] < pos[R]]
        rec.expect(len(sched) == 1, 'R16.b', key + ':schedule-before-again', loc,
                   'the tasks generated in this chunk must be scheduled before PARSEC_HOOK_RETURN_AGAIN is returned (they are dropped with the ring otherwise)',
                   note='%s: chunk scheduled before AGAIN' % cname)
        # restore_context cleared at the resume point
        clr = [n for n in order if f.nodes[n]['k'] == 'asg' and f.expr(n).s == 'restore_context = 0' and pos[last] < pos[n] < pos[R]]
        rec.expect(bool(clr), 'R16.b', key + ':restore-cleared', loc, 'restore_context must be cleared once the resume point is reached (every later iteration would jump otherwise)',
                   note='%s: restore_context cleared at the resume point' % cname)
        # dispatch: resume iff reserved[0] != 0
        g0 = [n for n in order if f.nodes[n]['k'] == 'goto' and f.nodes[n].get('n') == 'restore_context_0']
        okd = False
        if len(g0) == 1:
            ifs = [a for a in gc.ancestors(par, g0[0]) if f.nodes[a]['k'] == 'if']
            if ifs:
                c = f.expr(f.nodes[ifs[0]]['cond'])
                okd = re.sub(r'[() ]', '', c.s) in ('0!=this_task->locals.reserved[0].value', 'this_task->locals.reserved[0].value!=0', 'this_task->locals.reserved[0].value') \
                    and not loops_of(g0[0]) and pos[g0[0]] < pos[labels[0]]
                sets = [n for n in f.ast_walk(ifs[0]) if f.nodes[n]['k'] == 'asg' and f.expr(n).s == 'restore_context = 1']
                okd = okd and bool(sets)
        rec.expect(okd, 'R16.b', key + ':dispatch', loc, 'a re-entered startup task (reserved[0] != 0) must set restore_context and jump to restore_context_0 before the loop nest',
                   note='%s: re-entry dispatches to the resume chain' % cname)
        # reserved[0] is both the batch size and the "already started" flag: it must never become 0 once the
        # enumeration has started (a 0 at re-entry restarts the whole space: every instance generated so far is duplicated)
        flag = [s_ for s_ in f.events() if s_.kind == 'store' and s_.lhs.s == 'this_task->locals.reserved[0].value']
        okf = bool(flag) and all((s_.op == '=' and s_.rhs is not None and s_.rhs.cv is not None and s_.rhs.cv >= 1) or (s_.op == '<<=' and s_.rhs is not None and s_.rhs.cv is not None and 0 <= s_.rhs.cv < 31)
                                 for s_ in flag)
        rec.expect(okf, 'R16.b', key + ':resume-flag-nonzero', loc,
                   'reserved[0] (batch size and "already started" flag) may only be set to a positive constant or doubled: any other update can leave it 0 when AGAIN is returned, and the next entry restarts the enumeration from the beginning (found %s)'
                   % [(s_.op, s_.rhs.s if s_.rhs is not None else '') for s_ in flag], note='%s: resume flag stays non-zero' % cname)
        # chain: label k is followed by  if(restore_context) goto restore_context_{k+1}
        for k in sorted(labels)[:-1]:
            gk = [n for n in order if f.nodes[n]['k'] == 'goto' and f.nodes[n].get('n') == 'restore_context_%d' % (k + 1) and pos[labels[k]] < pos[n] < pos[labels[k + 1]]]
            okc = False
            if len(gk) == 1:
                ifs = [a for a in gc.ancestors(par, gk[0]) if f.nodes[a]['k'] == 'if']
                okc = bool(ifs) and f.expr(f.nodes[ifs[0]]['cond']).s == 'restore_context'
                # the local index is re-read from its persistent cell at the label
                sub = f.nodes[labels[k]].get('sub')
                e = f.expr(sub) if sub is not None and sub >= 0 and f.nodes[sub]['k'] == 'asg' else None
                okc = okc and e is not None and re.fullmatch(r'\w+ = this_task->locals\.ldef\[\d+\]\.value', e.s) is not None
            rec.expect(okc, 'R16.b', key + ':chain-%d' % k, loc,
                       'resume label %d must re-read its local index from this_task->locals.ldef[] and jump on to label %d while restore_context is set' % (k, k + 1),
                       note='%s: resume label %d reloads its index and chains to %d' % (cname, k, k + 1))
        # persistence: every range loop of the nest runs on this_task->locals.X.value
        for l in nest:
            nd = f.nodes[l]
            init = f.expr(nd['init']) if nd.get('init', -1) >= 0 else None
            cond = f.expr(nd['cond']) if nd.get('cond', -1) >= 0 else None
            inc = f.expr(nd['inc']) if nd.get('inc', -1) >= 0 else None
            lhs, val, _ = gc.asg_chain(init) if init is not None else ([], None, None)
            var = [x.n for x in lhs if x.k == 'ref']
            if not var:
                continue
            v = var[-1]
            cell = 'this_task->locals.%s.value' % v
            if any(x.s == cell for x in lhs):
                okp = cond is not None and cell in cond.s and inc is not None and ('%s +=' % cell) in inc.s and ('%s = %s' % (v, cell)) in inc.s
                rec.expect(okp, 'R16.b', key + ':persist:%s' % v, loc + ':%d' % f.line_of(l),
                           'the loop over %s must test and advance the persistent cell %s (and refresh %s from it): a position kept only in a C local is lost across AGAIN' % (v, cell, v),
                           note='%s.%s: loop state lives in the task' % (cname, v))
            else:
                # local index loop: its value is saved in ldef[] at the top of the body
                body = nd.get('body')
                saves = [n for n in f.ast_walk(body) if f.nodes[n]['k'] == 'asg' and re.fullmatch(r'this_task->locals\.ldef\[\d+\]\.value = %s' % re.escape(v), f.expr(n).s)] if body is not None else []
                rec.expect(bool(saves), 'R16.b', key + ':persist-ldef:%s@%d' % (v, f.line_of(l)), loc + ':%d' % f.line_of(l),
                           'the local index %s must be saved in this_task->locals.ldef[] at each iteration' % v, note='%s local index %s saved in the task' % (cname, v))
        # prologue reload of every local the nest assigns
        pro = set()
        for n in order:
            nd = f.nodes[n]
            if nd['k'] == 'decl':
                for vv in nd.get('vars', []):
                    if 'init' in vv and f.expr(vv['init']).s == 'this_task->locals.%s.value' % vv.get('n'):
                        pro.add(vv.get('n'))
        assigned = set()
        for n in order:
            if f.nodes[n]['k'] == 'asg':
                e = f.expr(n)
                m = re.fullmatch(r'this_task->locals\.(\w+)\.value', e.ch[0].s)
                if m and m.group(1) != 'reserved' and pos[n] < pos[P]:
                    assigned.add(m.group(1))
        rec.expect(assigned <= pro, 'R16.b', key + ':prologue', loc, 'locals %s are advanced by the nest but not re-read from the task on entry' % sorted(assigned - pro),
                   note='%s: all %d locals re-read from the task on entry' % (cname, len(pro)))
    return rec


def check_R16b(ctx):
    g = sagen.Gen(ctx)
    r = ctx.rule('R16.b', 'chunked startup: persistent loop state, resume point after the generated instance, chunk scheduled before AGAIN', 300)
    progs = [p for p in g.programs(ctx.tier) if not p.expect_fail]
    res = g.scan(progs, q_R16b)
    gc.apply_records(ctx, {'R16.b': r}, res)
    gc.raise_pending(ctx)
