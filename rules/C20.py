"""C20 — block-cyclic data distributions are consistent — clause level.

R20.a  key <-> coordinates: tiled_matrix_data_key encodes (m, n) as (n + j/nb) * lmt + (m + i/mb); every
       decoder of the matrix collections takes remainder and quotient of the same key by the same
       lmt, the remainder being the row (offset back by i/mb) and the quotient the column (offset back
       by j/nb) - the inverse of the encoder.
R20.b  every <dist>_X_of_key is "decode the key, then <dist>_X_of(desc, m, n)" of the same distribution
       and the same X, with the decoded row and column in that order (or, for the tabular
       distribution, indexes the tile table with the key where X_of indexes it with lmt*n + m).
R20.d  parsec_matrix_block_cyclic_init counts the locally stored tile rows and tile columns with the same
       loop, rows and columns exchanged; the number of local tiles is their product.
R20.c  every distribution installs rank_of, vpid_of, data_of and their _key variants together, all from
       one family.
"""
import re
from sa.facts import AnalysisBroken
from rules import gencommon as gc

DIR = 'parsec/data_dist/matrix/'
UNITS = ['matrix.c', 'two_dim_rectangle_cyclic.c', 'sym_two_dim_rectangle_cyclic.c', 'two_dim_rectangle_cyclic_band.c', 'sym_two_dim_rectangle_cyclic_band.c',
         'two_dim_tabular.c', 'vector_two_dim_cyclic.c', 'sbc.c', 'subtile.c']
FIELDS = ['rank_of', 'rank_of_key', 'vpid_of', 'vpid_of_key', 'data_of', 'data_of_key']
DECODERS = {'parsec_matrix_block_cyclic_key2coords', 'sym_twoDBC_key_to_coordinates'}
# (function): reason - _of_key variants that do not go through (m, n)
DIRECT_KEY = {'twoDTD_rank_of_key': 'tabular: the tile table is indexed by the key itself', 'twoDTD_vpid_of_key': 'tabular', 'twoDTD_data_of_key': 'tabular'}


def run(ctx):
    ctx.explanation = ('Clause level: the key encoder and all decoders of the matrix collections are inverse over the same radix (R20.a); the by-key accessors '
                       'are the by-coordinates accessors of the same distribution composed with the decoder (R20.b); every distribution installs a complete, '
                       'homogeneous accessor table (R20.c).')
    ctx.not_decided = 'uniqueness and validity of the owner rank, the tile -> storage slot bijection, vpid range: arithmetic over all shapes and grids.'
    ra = ctx.rule('R20.a', 'encoder (n*lmt + m with offsets) and decoders (key % lmt -> row, key / lmt -> column, offsets removed) are inverse', floor=4)
    rb = ctx.rule('R20.b', 'X_of_key = decode then X_of of the same distribution, row then column', floor=15)
    rc = ctx.rule('R20.c', 'each distribution installs the six accessors together from one family', floor=8)
    rd = ctx.rule('R20.d', '2D block-cyclic local storage count: row loop and column loop are mirror images; total = rows * columns', floor=3)
    check_counting(ctx, rd)
    units = {}
    for n in UNITS:
        units[n] = ctx.extract(DIR + n)
    decoders_found = set()
    work = []
    for un, u in units.items():
        for fname, f in u.funcs().items():
            if f.file.endswith(un):
                work.append((un, u, fname, f))
    # decoders (functions that write the decoded row / column through their last two parameters) are found first
    work.sort(key=lambda w: 0 if any(e.kind == 'store' and e.rhs is not None and e.rhs.k == 'bin' and e.rhs.op == '%' and e.rhs.ch[1].s.endswith('lmt') for e in w[3].events()) else 1)
    for un, u, fname, f in work:
        if True:
            evs = f.events()
            # ---------------- R20.a decoders
            rem = [s_ for s_ in evs if s_.kind == 'store' and s_.rhs is not None and s_.rhs.k == 'bin' and s_.rhs.op == '%' and s_.rhs.ch[1].s.endswith('lmt')]
            quo = [s_ for s_ in evs if s_.kind == 'store' and s_.rhs is not None and s_.rhs.k == 'bin' and s_.rhs.op == '/' and s_.rhs.ch[1].s.endswith('lmt')
                   and any(r.rhs.ch[0].s == s_.rhs.ch[0].s for r in rem)]
            if not rem and fname in DECODERS:
                # a known decoder that no longer splits the key by lmt (the radix of the encoder): not a vanished anchor, a wrong radix
                anyrem = [s_ for s_ in evs if s_.kind == 'store' and s_.rhs is not None and s_.rhs.k == 'bin' and s_.rhs.op in ('%', '/')]
                ctx.functions_analysed.add(fname)
                ra.bad('decode:%s' % fname, anyrem[0].loc if anyrem else f.where(),
                       '%s must split the key into remainder (row) and quotient (column) by lmt, the radix tiled_matrix_data_key encodes with (found %s)' % (fname, ', '.join(x.rhs.s for x in anyrem[:2]) or 'no split'))
            if rem:
                ctx.functions_analysed.add(fname)
                ok = len(rem) == 1 and len(quo) == 1 and rem[0].rhs.ch[1].s == quo[0].rhs.ch[1].s
                detail = ''
                if ok:
                    rv, qv = rem[0].lhs.s, quo[0].lhs.s
                    offs = [s_ for s_ in evs if s_.kind == 'store' and s_.rhs is not None and s_.rhs.k == 'bin' and s_.rhs.op == '-' and s_.rhs.ch[0].s in (rv, qv)]
                    if offs:
                        row = [o for o in offs if o.rhs.ch[0].s == rv]; col = [o for o in offs if o.rhs.ch[0].s == qv]
                        ok = len(row) == 1 and len(col) == 1 and re.fullmatch(r'\w+->(super\.)?i / \w+->(super\.)?mb', row[0].rhs.ch[1].s) is not None \
                            and re.fullmatch(r'\w+->(super\.)?j / \w+->(super\.)?nb', col[0].rhs.ch[1].s) is not None
                        if ok:
                            # out-parameters: row first
                            ps = [p['n'] for p in f.params]
                            ok = row[0].lhs.s == '*%s' % ps[-2] and col[0].lhs.s == '*%s' % ps[-1]
                            decoders_found.add(fname)
                        detail = 'remainder -> row (minus i/mb), quotient -> column (minus j/nb), stored in the (row, column) out-parameters'
                    else:
                        pr = [e for e in evs if e.kind == 'call' and e.fn in ('snprintf', 'sprintf')]
                        ok = len(pr) == 1 and [a.s for a in pr[0].args[-2:]] == [rv, qv]
                        detail = 'remainder printed as the row, quotient as the column'
                ra.expect(ok, 'decode:%s' % fname, f.where(),
                          '%s must split the key into remainder (row) and quotient (column) by the same lmt and undo the submatrix offsets in that association' % fname,
                          note='%s: %s' % (fname, detail))
            # ---------------- R20.a encoder
            if fname == 'tiled_matrix_data_key':
                ctx.functions_analysed.add(fname)
                rets = f.returns()
                ok = len(rets) == 1 and re.sub(r'[() ]', '', rets[0].e.s) in ('n*dc->lmt+m', 'dc->lmt*n+m', 'm+n*dc->lmt', 'm+dc->lmt*n')
                om = [s_ for s_ in evs if s_.kind == 'store' and s_.lhs.s == 'm' and s_.op == '+=' and s_.rhs.s == 'dc->i / dc->mb']
                on = [s_ for s_ in evs if s_.kind == 'store' and s_.lhs.s == 'n' and s_.op == '+=' and s_.rhs.s == 'dc->j / dc->nb']
                ok = ok and len(om) == 1 and len(on) == 1 and f.precedes(om[0], rets[0]) and f.precedes(on[0], rets[0])
                ra.expect(ok, 'encode:data_key', f.where(), 'data_key must be (n + j/nb) * lmt + (m + i/mb)', note='data_key = (n + j/nb) * lmt + (m + i/mb)')
            # ---------------- R20.b
            m = re.fullmatch(r'(\w+)_(rank|vpid|data)_of_key', fname)
            if m:
                ctx.functions_analysed.add(fname)
                fam, x = m.group(1), m.group(2)
                if fname in DIRECT_KEY:
                    sib = u.func('%s_%s_of' % (fam, x))
                    rk = [r for r in f.returns() if r.e is not None]
                    ok = bool(rk) and sib is not None
                    if ok:
                        key = f.params[1]['n']
                        used = any(('elems[%s]' % key) in (e.e.s if e.e is not None else (e.rhs.s if e.rhs is not None else '')) for e in f.events() if e.kind in ('load', 'store', 'ret'))
                        idx = [s_ for s_ in sib.events() if s_.kind == 'store' and s_.rhs is not None and re.sub(r'[() ]', '', s_.rhs.s) in ('dc->super.lmt*n+m', 'n*dc->super.lmt+m', 'tdc->super.lmt*n+m')]
                        ok = used and len(idx) == 1
                    rb.expect(ok, 'of_key:%s' % fname, f.where(), '%s indexes the tile table with the key, so %s_%s_of must index it with lmt*n + m (the key of (m, n))' % (fname, fam, x),
                              note='%s: table[key] vs %s_%s_of: table[lmt*n + m]' % (fname, fam, x))
                    continue
                dec = [e for e in evs if e.kind == 'call' and e.fn in (DECODERS | decoders_found)]
                inner = [e for e in evs if e.kind == 'call' and e.fn == '%s_%s_of' % (fam, x)]
                rets = f.returns()
                ok = len(dec) == 1 and len(inner) == 1 and len(rets) == 1
                if ok:
                    d, c = dec[0], inner[0]
                    a2, a3 = d.args[2].s, d.args[3].s
                    ok = a2.startswith('&') and a3.startswith('&') and [a.s for a in c.args[1:3]] == [a2[1:], a3[1:]] and c.args[0].s == d.args[0].s == f.params[0]['n'] \
                        and d.args[1].s == f.params[1]['n'] and f.precedes(d, c) and any(y.nid == c.e.nid for y in rets[0].e.walk())
                if not dec and len(inner) == 1 and len(rets) == 1 and len(inner[0].args) == 2 and inner[0].args[1].k == 'call':
                    # one-coordinate collections (vector): X_of_key = X_of(desc, coordinate(desc, key)), coordinate = key - i/mb (data_key = m + i/mb)
                    c = inner[0]; cf = u.func(c.args[1].n)
                    ok2 = cf is not None and [a.s for a in c.args[1].ch] == [f.params[0]['n'], f.params[1]['n']] and c.args[0].s == f.params[0]['n']
                    if ok2:
                        r2 = cf.returns()
                        ok2 = len(r2) == 1 and re.fullmatch(r'%s-\w+->(super\.)?i/\w+->(super\.)?mb' % re.escape(cf.params[1]['n']), re.sub(r'[() ]', '', r2[0].e.s)) is not None
                        dk = u.func('%s_data_key' % fam)
                        ok2 = ok2 and dk is not None and len(dk.returns()) == 1 and dk.returns()[0].e.s == 'm' and \
                            any(s_.kind == 'store' and s_.lhs.s == 'm' and s_.op == '+=' and re.fullmatch(r'\w+->(super\.)?i / \w+->(super\.)?mb', s_.rhs.s) for s_ in dk.events())
                    rb.expect(ok2, 'of_key:%s' % fname, f.where(), '%s must return %s_%s_of(desc, key - i/mb), the inverse of the one-coordinate data_key (m + i/mb)' % (fname, fam, x),
                              note='%s = %s_%s_of o (key - i/mb)' % (fname, fam, x))
                    continue
                if not dec and len(inner) == 1 and len(rets) == 1:
                    # decode written in place:  m = (key % lmt) - i/mb ; n = (key / lmt) - j/nb
                    key = f.params[1]['n']
                    def inl(op, off):
                        return [s_ for s_ in evs if s_.kind == 'store' and s_.rhs is not None and s_.rhs.k == 'bin' and s_.rhs.op == '-' and s_.rhs.ch[0].k == 'bin'
                                and s_.rhs.ch[0].op == op and s_.rhs.ch[0].ch[0].s == key and s_.rhs.ch[0].ch[1].s.endswith('lmt') and re.fullmatch(off, s_.rhs.ch[1].s)]
                    rm = inl('%', r'\w+->(super\.)?i / \w+->(super\.)?mb'); cn = inl('/', r'\w+->(super\.)?j / \w+->(super\.)?nb')
                    c = inner[0]
                    ok2 = len(rm) == 1 and len(cn) == 1 and [a.s for a in c.args[1:3]] == [rm[0].lhs.s, cn[0].lhs.s] and c.args[0].s == f.params[0]['n'] \
                        and f.precedes(rm[0], c) and f.precedes(cn[0], c) and any(y.nid == c.e.nid for y in rets[0].e.walk())
                    rb.expect(ok2, 'of_key:%s' % fname, f.where(), '%s must take row = key %% lmt - i/mb, column = key / lmt - j/nb and return %s_%s_of(desc, row, column)' % (fname, fam, x),
                              note='%s = %s_%s_of o (inline decode)' % (fname, fam, x))
                    continue
                if len(dec) == 1 and dec[0].fn not in DECODERS and len(dec[0].args) == 2 and len(inner) == 1 and len(rets) == 1:
                    # one-coordinate collections (vector): X_of_key = X_of(desc, coordinate(desc, key))
                    c = inner[0]
                    ok2 = len(c.args) == 2 and c.args[1].k == 'call' and c.args[1].n == dec[0].fn and [a.s for a in dec[0].args] == [f.params[0]['n'], f.params[1]['n']]
                    rb.expect(ok2, 'of_key:%s' % fname, f.where(), '%s must return %s_%s_of(desc, coordinate of the key)' % (fname, fam, x), note='%s = %s_%s_of o %s' % (fname, fam, x, dec[0].fn))
                    continue
                if not dec and not inner:
                    # other shapes (vector: one coordinate) are listed, not judged
                    ctx.note('R20.b: %s has no (m, n) decoder - not compared' % fname)
                    continue
                rb.expect(ok, 'of_key:%s' % fname, f.where(), '%s must decode the key and return %s_%s_of(desc, row, column) of the same distribution' % (fname, fam, x),
                          note='%s = %s_%s_of o decode' % (fname, fam, x))
            # ---------------- R20.c
            sts = [s_ for s_ in evs if s_.kind == 'store' and s_.lhs.k == 'mem' and s_.lhs.n in FIELDS and s_.rhs is not None and s_.rhs.k in ('ref', 'un')]
            groups = {}
            for s_ in sts:
                groups.setdefault((s_.block, s_.lhs.ch[0].s), []).append(s_)
            for (blk, base), ss in groups.items():
                ctx.functions_analysed.add(fname)
                got = {s_.lhs.n: s_.rhs.s.lstrip('&') for s_ in ss}
                fams = set()
                for fld, fn_ in got.items():
                    if fn_.endswith('_' + fld):
                        fams.add(fn_[:-len(fld) - 1])
                    else:
                        fams.add('?' + fn_)
                rc.expect(set(got) == set(FIELDS) and len(fams) == 1, 'vtable:%s:%s' % (fname, sorted(fams)[0] if fams else '?'), ss[0].loc,
                          '%s installs accessors %s from families %s: all six accessors must come from one distribution' % (fname, sorted(got), sorted(fams)),
                          note='%s installs the six %s accessors' % (fname, sorted(fams)[0] if fams else '?'))
    ra.expect(DECODERS <= decoders_found, 'decoders-known', DIR, 'the decoders used by the by-key accessors (%s) must be among the checked ones (%s)' % (sorted(DECODERS), sorted(decoders_found)),
              note='both key decoders checked')


# ---------------------------------------------------------------------------------------
# R20.d  local storage counting of the 2D block-cyclic distribution: the loop that counts the tile rows a
#        process stores and the loop that counts its tile columns are the same computation with rows and
#        columns exchanged (rows<->cols, krows<->kcols, rrank<->crank, lmt<->lnt, mb<->nb, i<->j, m<->n).
#        rank_of / data_of use the same (rows, krows) / (cols, kcols) pairing, so a count made with a
#        mixed pair reserves a number of slots that does not match the tiles the process owns.
# ---------------------------------------------------------------------------------------
SWAP_RC = {'rows': 'cols', 'cols': 'rows', 'krows': 'kcols', 'kcols': 'krows', 'rrank': 'crank', 'crank': 'rrank', 'lmt': 'lnt', 'lnt': 'lmt',
           'nb_elem_r': 'nb_elem_c', 'nb_elem_c': 'nb_elem_r', 'slm': 'sln', 'sln': 'slm'}


def check_counting(ctx, rule):
    from sa import mirror
    u = ctx.extract(DIR + 'two_dim_rectangle_cyclic.c')
    f = u.func('parsec_matrix_block_cyclic_init')
    if f is None:
        raise AnalysisBroken('parsec_matrix_block_cyclic_init not found')
    ctx.functions_analysed.add(f.name)
    loops = [n for n in f.ast_walk() if f.nodes[n]['k'] == 'while']
    rows = [n for n in loops if f.expr(f.nodes[n]['cond']).s.endswith('->lmt')]
    cols = [n for n in loops if f.expr(f.nodes[n]['cond']).s.endswith('->lnt')]
    if len(rows) != 1 or len(cols) != 1:
        raise AnalysisBroken('block_cyclic_init: expected one row-counting and one column-counting loop (found %d / %d)' % (len(rows), len(cols)))
    pn = [p['n'] for p in f.params]
    def seeds(which):
        # (temp, i|j, mb|nb, m|n): the parameters that play the same role get the same canonical number
        return ['temp'] + (['i', 'mb', 'm'] if which == 'r' else ['j', 'nb', 'n'])
    if not all(x in pn for x in ('i', 'j', 'mb', 'nb', 'm', 'n')):
        raise AnalysisBroken('block_cyclic_init: parameter names changed, re-review the role table of R20.d')
    a = mirror.canon_stmt(f, rows[0], None, seeds('r'))
    b = mirror.canon_stmt(f, cols[0], SWAP_RC, seeds('c'))
    rule.expect(a == b, 'count:row-col-mirror', f.loc(cols[0]),
                'the column-counting loop is not the row-counting loop with rows and columns exchanged: %s' % mirror.first_diff(a, b),
                note='row and column counting loops are mirror images')
    # the starting tile of each loop
    st = {s_.rhs.s: s_ for s_ in f.stores('temp') if s_.rhs is not None and s_.rhs.k == 'bin' and s_.rhs.op == '*'}
    rule.expect(any(re.fullmatch(r'\w+->grid\.rrank \* \w+->grid\.krows', k) for k in st) and any(re.fullmatch(r'\w+->grid\.crank \* \w+->grid\.kcols', k) for k in st),
                'count:first-tile', f.where(), 'the first tile row / column of a process must be rrank * krows / crank * kcols', note='first tile = rank coordinate * k-cyclicity, per dimension')
    tot = [s_ for s_ in f.stores() if s_.lhs.s.endswith('->nb_local_tiles')]
    rule.expect(len(tot) == 1 and re.sub(r'[() ]', '', tot[0].rhs.s) in ('dc->nb_elem_r*dc->nb_elem_c', 'dc->nb_elem_c*dc->nb_elem_r'), 'count:total', tot[0].loc if tot else f.where(),
                'the number of local tiles must be rows stored * columns stored', note='nb_local_tiles = nb_elem_r * nb_elem_c')
