"""C40 — virtual-process maps match their specification (parsec/vpmap.c) — clause level, weak.

The property as a whole (thread counts and bindings for every specification and machine) is about
values; two clauses of it are visible in the shape of the code and necessary for "creates the requested
virtual processes ... malformed specifications are rejected without crashing":

R40.a  sibling agreement of the four map builders parsec_vpmap_init_from_{flat,hardware_affinity,file,
       parameters}: on every path on which a builder announces a number of virtual processes
       (stores parsec_nbvp) and returns success, it has also built the map it announces (stores
       parsec_vpmap) or delegated to a sibling builder - every reader of the map indexes
       parsec_vpmap[0 .. parsec_nbvp).
R40.c  no pointer that the dominating tests say is NULL is passed to a %s conversion or a str* function.
R40.b  no path of a vpmap.c function reads a local that no statement on that path has assigned
       (locals declared without initialiser; passing &x to a call counts as an assignment).
"""
import re
from sa.facts import AnalysisBroken

U = 'parsec/vpmap.c'
BUILDERS = ('parsec_vpmap_init_from_flat', 'parsec_vpmap_init_from_hardware_affinity', 'parsec_vpmap_init_from_file', 'parsec_vpmap_init_from_parameters')


def run(ctx):
    ctx.explanation = ('Clause level (weak): the builders of the virtual-process map agree on the state they leave behind (R40.a) and no function of vpmap.c reads an '
                       'unassigned local on any path (R40.b) - necessary for "creates the requested virtual processes" and "rejected without crashing".')
    ctx.not_decided = 'thread counts, bindings and core sets for all specifications and machines (values); the parsing arithmetic.'
    u = ctx.extract(U)
    ra = ctx.rule('R40.a', 'every map builder that announces virtual processes and succeeds has built (or delegated) the map', floor=4)
    rb = ctx.rule('R40.b', 'no read of an unassigned local on any path (vpmap.c)', floor=10)
    rc = ctx.rule('R40.c', 'no pointer just tested NULL is handed to a %s conversion or a str* function (vpmap.c)', floor=8)
    rd = ctx.rule('R40.d', 'a loop that fills parsec_vpmap[v] for v < parsec_nbvp re-publishes the count (v + 1) on every early exit', floor=2)
    check_partial_fill(ctx, u, rd)
    re40 = ctx.rule('R40.e', 'thread placement: the cores handed to parsec_set_thread_location / returned by parsec_select_vpmap_thread_core are translated resources (parsec_find_core_by_idx), never raw indexes of the map', floor=3)
    check_core_domain(ctx, re40)
    for name in BUILDERS:
        f = u.func(name)
        if f is None:
            raise AnalysisBroken('%s not found in vpmap.c' % name)
        ctx.functions_analysed.add(name)
        bad = None; npaths = 0; nsucc = 0
        for path in f.paths():
            evs = f.path_events(path)
            announced = built = delegated = False
            ret = None
            for e in evs:
                if e.kind == 'store' and e.lhs.s == 'parsec_nbvp' and not (e.rhs is not None and e.rhs.cv == -1):
                    announced = True
                if e.kind == 'store' and e.lhs.s == 'parsec_vpmap':
                    built = True
                if e.kind == 'call' and e.fn in BUILDERS:
                    delegated = True
                if e.kind == 'ret':
                    ret = e
            npaths += 1
            if ret is None or ret.e is None:
                continue
            success = ret.e.cv == 0 or (ret.e.k == 'call' and ret.e.n in BUILDERS)
            if announced and success:
                nsucc += 1
                if not (built or delegated):
                    bad = (ret, path)
        ra.expect(bad is None and nsucc > 0, 'builder:%s' % name, (bad[0].loc if bad else f.where()),
                  '%s announces a number of virtual processes (parsec_nbvp) and returns success without building parsec_vpmap or delegating to another builder: '
                  'parsec_vpmap_init then indexes a map that does not exist' % name,
                  note='%s: %d success path(s) announce and build the map' % (name, nsucc))
    # ---------------------------------------------------------------- R40.b
    for name, f in sorted(u.funcs().items()):
        if not f.file.endswith('vpmap.c'):
            continue
        noinit = {}
        for n in f.ast_walk():
            nd = f.nodes[n]
            if nd['k'] == 'decl':
                for v in nd.get('vars', []):
                    if 'init' not in v and v.get('dk', 'var') != 'svar' and '[' not in (v.get('ty') or '') and 'struct' not in (v.get('ty') or '') and not (v.get('ty') or '').startswith('va_list'):
                        noinit[v['n']] = f.line_of(n)
        if not noinit:
            continue
        ctx.functions_analysed.add(name)
        flagged = {}
        checked = set()
        try:
            paths = f.paths(max_paths=4000)
        except AnalysisBroken:
            ctx.note('R40.b: %s has too many paths, skipped' % name)
            continue
        # a read inside "(void)x;" only silences a warning: not a use
        voided = set()
        for n in f.ast_walk():
            nd = f.nodes[n]
            if nd['k'] == 'cast' and nd.get('ck') == 'ToVoid':
                voided.update(f.ast_walk(n))
        for path in paths:
            assigned = set()
            for e in f.path_events(path):
                if e.kind == 'load' and e.nid in voided:
                    continue
                if e.kind == 'store' and e.lhs.k == 'ref' and e.lhs.n in noinit:
                    if e.op == '=' :
                        assigned.add(e.lhs.n)
                elif e.kind == 'call':
                    for a in e.args or ():
                        for x in a.walk():
                            if x.k == 'un' and x.op == '&' and x.ch[0].k == 'ref' and x.ch[0].n in noinit:
                                assigned.add(x.ch[0].n)
                elif e.kind == 'load' and e.e.k == 'ref' and e.e.n in noinit:
                    checked.add(e.e.n)
                    if e.e.n not in assigned and e.e.n not in flagged:
                        flagged[e.e.n] = (e, path)
        for v in sorted(checked):
            if v in flagged:
                e, path = flagged[v]
                rb.bad('uninit:%s:%s' % (name, v), e.loc,
                       '%s reads local %s (declared at line %d without a value) on a path that never assigned it' % (name, v, noinit[v]))
            else:
                rb.ok('%s:%d' % (f.file, noinit[v]), '%s: every read of %s follows an assignment' % (name, v))

    check_null_use(ctx, u, rc)


# ---------------------------------------------------------------------------------------
# R40.c  contradiction: a pointer that the dominating branch outcomes say is NULL (and that has not been
#        assigned since) is handed to a routine that reads through it: a %s argument of the printf
#        family, or an argument of a str* function.
# ---------------------------------------------------------------------------------------
PRINTF = {'printf': 0, 'fprintf': 1, 'sprintf': 1, 'snprintf': 2, 'asprintf': 1, 'parsec_warning': 0, 'parsec_inform': 0, 'parsec_fatal': 0}
STRFN = {'strlen', 'strcpy', 'strdup', 'strchr', 'strrchr', 'strcmp', 'strncmp', 'strtol', 'strtod', 'atoi', 'strcat', 'strstr'}


CORE_SOURCES = ('parsec_find_core_by_idx', 'parsec_select_vpmap_thread_core')


def _core_typed(f):
    """locals whose every definition is a translated core (result of a CORE_SOURCES call), -1, or another such local"""
    defs = {}
    for s_ in f.stores():
        if s_.lhs.k == 'ref' and s_.lhs.dk in ('var',) and s_.op == '=':
            defs.setdefault(s_.lhs.s, []).append(s_.rhs)
    good = set()
    changed = True
    while changed:
        changed = False
        for v, rs in defs.items():
            if v in good:
                continue
            def ok(r):
                if r is None:
                    return False
                if r.k == 'asg':
                    r = r.ch[1]
                return (r.k == 'call' and r.n in CORE_SOURCES) or (r.cv is not None and r.cv == -1) or (r.k == 'un' and r.op == '-' and r.ch[0].cv == 1) or (r.k == 'ref' and r.s in good)
            if all(ok(r) for r in rs):
                good.add(v); changed = True
    return good


def check_core_domain(ctx, rule):
    """The virtual-process map names its candidates by index *relative to the cores the process may use*; the binding needs the
    resource itself.  parsec_find_core_by_idx translates; an index that skips the translation binds a thread to a core outside
    the allowed set as soon as the allowed set does not start at 0 (the map then does not match its specification)."""
    u = ctx.extract('parsec/parsec.c')
    f = u.func('parsec_select_vpmap_thread_core'); ctx.functions_analysed.add(f.name)
    good = _core_typed(f)
    for r in f.returns():
        e = r.e
        ok = e is not None and ((e.cv is not None and e.cv == -1) or (e.k == 'un' and e.op == '-') or (e.k == 'ref' and e.s in good) or (e.k == 'call' and e.n in CORE_SOURCES))
        rule.expect(ok, 'select:return:%s' % (e.s if e is not None else '?'), r.loc,
                    'parsec_select_vpmap_thread_core returns %s, which is not a core translated by parsec_find_core_by_idx (nor -1): a raw index of the candidate set names another core whenever the allowed cores do not start at 0'
                    % (e.s if e is not None else '?'), note='select_vpmap_thread_core returns %s: a translated core or -1' % (e.s if e is not None else '?'))
    n = 0
    for g in u.funcs().values():
        if not g.file.endswith('parsec/parsec.c') or g.name == 'parsec_set_thread_location':
            continue
        calls = g.calls('parsec_set_thread_location')
        if not calls:
            continue
        ctx.functions_analysed.add(g.name)
        goodg = _core_typed(g)
        for c in calls:
            a = c.args[3]
            ok = (a.k == 'ref' and (a.s in goodg)) or (a.k == 'call' and a.n in CORE_SOURCES) or (a.cv is not None and a.cv == -1)
            n += 1
            rule.expect(ok, 'place:%s:%s' % (g.name, a.s), c.loc, '%s places a thread on %s, which is not a core translated by parsec_find_core_by_idx' % (g.name, a.s),
                        note='%s: set_thread_location(%s) - translated core' % (g.name, a.s))
    if n == 0:
        raise AnalysisBroken('no call of parsec_set_thread_location found in parsec.c')


def check_partial_fill(ctx, u, rd):
    """The number of virtual processes is published in parsec_nbvp and every consumer walks parsec_vpmap[0 .. parsec_nbvp).
    A loop `for (v = ..; v < parsec_nbvp; v++)` that builds the entries may stop early (the requested threads ran out):
    the entries after v were never built, so the exit must publish parsec_nbvp = v + 1 - otherwise parsec_init creates
    virtual processes without threads, in contradiction with the specification string."""
    from sa import aff
    n = 0
    for fname, f in u.funcs().items():
        if not f.file.endswith('vpmap.c'):
            continue
        for (src, hdr) in f.back_edges():
            c = f.cond(hdr)
            if c is None or c.k != 'bin' or c.op not in ('<', '>', '<=', '>=', '!=') or 'parsec_nbvp' not in (c.ch[0].s, c.ch[1].s):
                continue
            var = c.ch[0].s if c.ch[1].s == 'parsec_nbvp' else c.ch[1].s
            body = {hdr, src}; st = [src]
            while st:
                x = st.pop()
                if x == hdr:
                    continue
                for p_, _ in f.preds()[x]:
                    if p_ not in body:
                        body.add(p_); st.append(p_)
            fills = [e for b in body for e in f.block_events(b) if e.kind == 'store' and e.lhs.s.startswith('parsec_vpmap[%s]' % var)]
            if not fills:
                continue
            ctx.functions_analysed.add(fname)
            # early exits: edges from a body block (other than the header) to a block outside the loop.  Blocks that
            # can only reach an exit (goto target prologue) are not in the natural loop: walk back from them.
            exits = []
            for b in body:
                if b == hdr:
                    continue
                for s_, lab in f.succs(b):
                    if s_ not in body:
                        exits.append((b, s_, lab))
            n += 1
            if not exits:
                rd.ok(f.loc(f.blocks[hdr]['cond']) if f.blocks[hdr].get('cond') is not None else f.where(), '%s: the fill loop over %s < parsec_nbvp has no early exit' % (fname, var))
                continue
            for b, s_, lab in exits:
                # fatal exits do not publish anything
                if any(e.kind == 'call' and e.fn in ('parsec_fatal', 'exit', 'abort') for e in f.block_events(s_)) or any(e.kind == 'call' and e.fn in ('parsec_fatal', 'exit', 'abort') for e in f.block_events(b)):
                    continue
                # the exit target and what follows it lie outside the natural loop: every way from the exit edge to the
                # end of the function must pass a block that publishes parsec_nbvp = v + 1 (or the exiting block did)
                def publishes(bb):
                    return any(e.kind == 'store' and e.lhs.s == 'parsec_nbvp' and e.op == '=' and e.rhs is not None and aff.norm(e.rhs) == aff.Poly.atom(var) + aff.Poly.const(1)
                               for e in f.block_events(bb))
                good = publishes(b)
                if not good:
                    seen = set(); stack = [s_]; escaped = False
                    while stack:
                        x = stack.pop()
                        if x in seen or x in body:
                            continue
                        seen.add(x)
                        if publishes(x):
                            continue
                        nxt = f.succs(x)
                        if not nxt or x == f.exit:
                            escaped = True; break
                        stack.extend(y for y, _ in nxt)
                    good = not escaped
                last = f.block_events(b)[-1] if f.block_events(b) else None
                rd.expect(bool(good), 'partial-fill:%s:%d' % (fname, len([x for x in exits if x[0] < b])), (last.loc if last is not None else f.where()),
                          '%s leaves the loop that builds parsec_vpmap[%s] (for %s < parsec_nbvp) early without publishing parsec_nbvp = %s + 1: the entries after %s were never built'
                          % (fname, var, var, var, var), note='%s: early exit of the fill loop publishes parsec_nbvp = %s + 1' % (fname, var))
    if n == 0:
        raise AnalysisBroken('no loop filling parsec_vpmap[v] for v < parsec_nbvp found in vpmap.c')


def check_null_use(ctx, u, rc):
    n_sites = 0
    for name, f in sorted(u.funcs().items()):
        if not f.file.endswith('vpmap.c'):
            continue
        evs = f.events()
        for e in evs:
            if e.kind != 'call' or not (e.fn in PRINTF or e.fn in STRFN):
                continue
            cand = []
            if e.fn in PRINTF:
                fi = PRINTF[e.fn]
                if len(e.args) <= fi or e.args[fi].k != 'str':
                    continue
                fmt = (e.args[fi].n or '').replace('%%', '')
                convs = re.findall(r'%[-+ #0-9.*lhzjt]*([a-zA-Z])', fmt)
                for i, c in enumerate(convs):
                    if c == 's' and fi + 1 + i < len(e.args):
                        cand.append(e.args[fi + 1 + i])
            else:
                cand = list(e.args[:2])
            for a in cand:
                if a.k != 'ref':
                    continue
                n_sites += 1
                known_null = [b for at, t, b in f.guards(e.point) if at.s == a.s and t is False]
                if not known_null:
                    rc.ok(e.loc, '%s: %s not known to be NULL at %s' % (name, a.s, e.fn))
                    continue
                # reassigned between the test and the call?
                gb = known_null[0]
                re_ = [s_ for s_ in evs if s_.kind == 'store' and s_.lhs.s == a.s and f.reaches((gb, 10 ** 6), s_.point, acyclic=True) and f.reaches(s_.point, e.point, acyclic=True) and f.dominates((gb, 0), s_.point)]
                rc.expect(bool(re_), 'null-use:%s:%s:%s' % (name, a.s, e.fn), e.loc,
                          '%s passes %s to %s on the branch where it has just been tested to be NULL (the test is inverted or the branches are swapped)' % (name, a.s, e.fn),
                          note='%s: %s reassigned after its NULL test before %s' % (name, a.s, e.fn))
    return n_sites
