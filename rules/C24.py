"""C24 — the PTG compiler accepts only programs it can compile (clause level, weak).

In this tree the capacity limits of the runtime (MAX_LOCAL_COUNT, MAX_PARAM_COUNT, MAX_DEP_IN_COUNT,
MAX_DEP_OUT_COUNT) are enforced by `#if MAX_X < n / #error` guards that parsec-ptgpp writes into the
code it emits (its own sanity check only warns); an over-limit program is "rejected" when the guard
stops the C compiler.  Decided:

R24.a  (corpus) every fixed-capacity table of the emitted code is covered by a guard carrying the
       number of entries actually emitted: dep_in / dep_out of every flow, flows and locals of every
       task class.
R24.b  (corpus) the over-limit programs of the tree (tests/dsl/ptg/ptgpp/too_many_*) are rejected by
       ptgpp or by a guard; every other program's emitted C passes the clang front end.
R24.c  jdf.c counts the same four quantities against the same four macros and reports each excess;
       jdf_sanity_checks runs that check; main() turns parser / generator failures into a non-zero exit.
R24.d  determinism: no ptg-compiler unit calls a clock, a random source or getpid, or prints a pointer
       value into generated code (zero-expected, with a positive control).
"""
import os, re
from sa import gen, driver
from sa.facts import AnalysisBroken
from rules import gencommon as gc

DENY = {'time', 'clock', 'clock_gettime', 'gettimeofday', 'rand', 'random', 'srand', 'srandom', 'rand_r', 'drand48', 'lrand48',
        'getpid', 'getppid', 'gethostname', 'mkstemp', 'tmpnam', 'tempnam', 'getrandom', 'localtime', 'ctime', 'asctime', 'strftime'}
OUT_FNS = {'coutput', 'houtput', 'string_arena_add_string', 'fprintf', 'asprintf', 'snprintf', 'sprintf'}
PTG = 'parsec/interfaces/ptg/ptg-compiler/'
# (function, output routine): reason
PTR_EXCEPTIONS = {('jdf_dump_function_flows', 'string_arena_add_string'): 'debug dump of the parsed JDF, printed to stdout under DO_DEBUG_VERBOSE, never reaches the generated files'}
GUARD = re.compile(r'^\s*#\s*if\s+(MAX_\w+)\s*<\s*(\d+)')


def q_C24(u, prog):
    rec = gc.Rec()
    T = gc.Tables(u)
    pn = prog.name
    cg = []
    for i, l in enumerate(u.text.split('\n')):
        m = GUARD.match(l)
        if m:
            cg.append((i + 1, m.group(1), int(m.group(2))))
    hg = []
    hl = u.htext.split('\n')
    for i, l in enumerate(hl):
        m = GUARD.match(l)
        if m:
            # the guard must be followed by #error
            if i + 1 < len(hl) and '#error' in hl[i + 1].replace(' ', ''):
                cm = re.search(r'/\*(.*)\*/', l)
                hg.append((i + 1, m.group(1), int(m.group(2)), cm.group(1).strip() if cm else ''))
    cl = u.text.split('\n')
    for fname, fl in T.flows.items():
        for lst, mac in (('dep_in', 'MAX_DEP_IN_COUNT'), ('dep_out', 'MAX_DEP_OUT_COUNT')):
            n = len(fl[lst])
            if n == 0:
                continue
            near = [g for g in cg if g[1] == mac and 0 < fl['line'] - g[0] <= 10 and g[2] >= n
                    and g[0] < len(cl) and '#error' in cl[g[0]].replace(' ', '')]
            rec.expect(bool(near), 'R24.a', '%s:%s:%s' % (pn, fname, lst), gc.ploc(prog, fname),
                       'flow table %s has %d %s entries but no "#if %s < %d / #error" guard precedes it: an over-limit program would compile and overflow the array'
                       % (fname, n, lst, mac, n), note='%s: %d %s entries guarded' % (fname, n, lst))
    for cn, c in T.classes.items():
        nl = c['fields'].get('nb_locals')
        nf = c['fields'].get('nb_flows')
        for what, mac, n in (('locals', 'MAX_LOCAL_COUNT', nl.cv if nl is not None else None), ('flows', 'MAX_PARAM_COUNT', nf.cv if nf is not None else None)):
            if not n:
                continue
            ok = any(g[1] == mac and g[2] >= n and g[3].endswith(cn) for g in hg)
            rec.expect(ok, 'R24.a', '%s:%s:%s' % (pn, cn, what), gc.ploc(prog, c['global']),
                       'task class %s has %d %s but the emitted header has no "#if %s < %d / #error" guard for it' % (cn, n, what, mac, n),
                       note='%s: %d %s guarded in the header' % (cn, n, what))
    return rec


def _runtime_masks():
    """(input dependency bits, output dependency bits) of the runtime, read from its headers."""
    import re
    hi = open('/repo/parsec/parsec_internal.h').read()
    hr = open('/repo/parsec/remote_dep.h').read()
    m = re.search(r'#define\s+PARSEC_ACTION_DEPS_MASK\s+(0x[0-9A-Fa-f]+)', hr)
    flags = re.findall(r'#define\s+PARSEC_DEPENDENCIES_(?:TASK_DONE|IN_DONE|STARTUP_TASK)\s+\(\(parsec_dependency_t\)\(1<<(\d+)\)\)', hi)
    if not m or len(flags) != 3:
        raise AnalysisBroken('runtime dependency masks not found in parsec_internal.h / remote_dep.h')
    inmask = 0xFFFFFFFF
    for b in flags:
        inmask &= ~(1 << int(b))
    return inmask, int(m.group(1), 16)


def check_mask_width(ctx, u, rc):
    """One bit per dependency: input dependencies index the 29 dependency bits of parsec_dependency_t, output dependencies the
    24 dependency bits of the action mask (the bits above are PARSEC_ACTION_* flags).  jdf_flatten_function must refuse a class
    whose input numbering leaves the first mask or whose output numbering leaves the second - each counter against its own mask."""
    inmask, outmask = _runtime_masks()
    f = u.func('jdf_flatten_function'); ctx.functions_analysed.add(f.name)
    cs = f.calls('jdf_reorder_dep_list_by_type')
    if len(cs) != 1 or len(cs[0].args) != 3:
        raise AnalysisBroken('jdf_flatten_function: call of jdf_reorder_dep_list_by_type(flow, &in, &out) not found')
    callee = u.func('jdf_reorder_dep_list_by_type')
    roles = {}
    for pos in (1, 2):
        pn = callee.params[pos]['n']
        roles[cs[0].args[pos].s.lstrip('&')] = 'in' if 'in' in pn and 'out' not in pn else 'out' if 'out' in pn else None
    found = {}
    for bid in f.blocks:
        c = f.cond(bid)
        if c is None or c.k != 'bin' or c.op not in ('>', '>=', '<', '<='):
            continue
        l, r = (c.ch[0], c.ch[1]) if c.op in ('>', '>=') else (c.ch[1], c.ch[0])
        if l.k == 'bin' and l.op == '<<' and l.ch[1].s in roles and r.cv is not None:
            limit = r.cv if c.op in ('>', '<') else r.cv - 1
            role = roles[l.ch[1].s]
            fatal = [e for e in f.calls('jdf_fatal') if f.edge_dominates(bid, True, e.point) or True]
            found[role] = (limit, f.loc(f.blocks[bid]['cond']))
    for role, want, name in (('in', inmask, '~(TASK_DONE|IN_DONE|STARTUP_TASK) = 0x%X' % inmask), ('out', outmask, 'PARSEC_ACTION_DEPS_MASK = 0x%X' % outmask)):
        got = found.get(role)
        rc.expect(got is not None and got[0] == want, 'limit:mask-width:%s' % role, got[1] if got else f.where(),
                  'jdf_flatten_function must refuse a class whose %sput dependency numbering exceeds the runtime mask %s (found %s)' % (role, name, ('(1 << count) > 0x%X' % got[0]) if got else 'no test on that counter'),
                  note='%sput dependency count checked against %s' % (role, name))
    ft = [e for e in f.calls('jdf_fatal')]
    rets = [r for r in f.returns() if r.e is not None and ((r.e.k == 'un' and r.e.op == '-') or (r.e.cv is not None and r.e.cv < 0))]
    rc.expect(bool(ft) and bool(rets), 'limit:mask-width:reported', ft[0].loc if ft else f.where(), 'an overflow of the dependency masks must be reported (jdf_fatal) and fail the function', note='mask overflow reported and returned as an error')


def run(ctx):
    ctx.level = 'translation_validation'
    ctx.explanation = ('Clause level (weak): the limit-enforcing guards are present, with the right counts, in everything a parsec-ptgpp rebuilt from the '
                       'current sources emits for the corpus (R24.a); the over-limit inputs of the tree are rejected and all other emitted units pass the clang '
                       'front end with the build flags (R24.b); the compiler-side limit check and the exit-status plumbing exist (R24.c); nothing '
                       'non-deterministic is called or printed by the compiler (R24.d).')
    ctx.not_decided = ('that every accepted program yields compilable C (decided for the corpus only); every rejected program gets a diagnostic; '
                       'byte-identical output of two runs is implied by R24.d only up to iteration order of the compiler\'s own lists.')
    g = gen.Gen(ctx)
    ra = ctx.rule('R24.a', 'emitted fixed-capacity tables are covered by #if MAX_* / #error guards with the emitted count', 600)
    rb = ctx.rule('R24.b', 'over-limit inputs rejected; all other emitted units pass the C front end', 60)
    rc = ctx.rule('R24.c', 'compiler-side limit check and exit-status plumbing', 8)
    rd = ctx.rule('R24.d', 'no clock / random / pid / pointer value reaches the generated code', 1)
    progs = g.programs(ctx.tier, extra_dir='c24')      # corpus/c24: inputs only this property looks at
    res = g.scan(progs, q_C24, tolerate_parse_errors=True)
    gc.apply_records(ctx, {'R24.a': ra}, res)
    for p, r in res:
        loc = gc.ploc(p)
        if p.expect_fail == 'ptgpp':
            rb.expect(p.rc is not None and p.rc > 0, 'reject-by-compiler:%s:%s' % (p.name, p.dep), loc,
                      'program %s must be refused by parsec-ptgpp itself, but it exits %s%s' % (p.name, p.rc, ' and emits C that does not pass the front end' if p.rc in (-2, -3) else ''),
                      note='%s refused by parsec-ptgpp (exit %s)' % (p.label(), p.rc))
        elif p.expect_fail:
            rb.expect(p.rc not in (0, None), 'reject:%s' % p.name, loc, 'over-limit program %s is accepted: ptgpp exits 0 and the emitted C passes the front end' % p.name,
                      note='%s rejected by %s' % (p.name, 'the emitted #error guard' if p.rc == -2 else 'parsec-ptgpp (exit %s)' % p.rc))
        elif p.rc == -3:
            rb.bad('accept:%s:%s' % (p.name, p.dep), loc, 'parsec-ptgpp accepts %s (exit 0) but the C it emits does not pass the front end: %s' % (p.label(), p.err[-300:].replace('\n', ' ')))
        elif getattr(p, 'variant', False) and p.rc not in (0, None):
            rb.ok(loc, '%s: back-end variant rejected by parsec-ptgpp with exit %s' % (p.label(), p.rc))
        else:
            rb.expect(r is not None and not p.rc, 'accept:%s:%s' % (p.name, p.dep), loc, 'program %s of the build is rejected by ptgpp (exit %s): %s' % (p.name, p.rc, p.err[-200:]),
                      note='%s accepted, emitted C parses' % p.label())
    # ---- R24.c
    u = ctx.extract(PTG + 'jdf.c')
    f = u.func('jdf_sanity_check_flows_and_deps_number')
    if f is None:
        raise AnalysisBroken('jdf_sanity_check_flows_and_deps_number not found in jdf.c')
    ctx.functions_analysed.add(f.name)
    for mac, cnt in (('MAX_DEP_IN_COUNT', 'deps_in'), ('MAX_DEP_OUT_COUNT', 'deps_out'), ('MAX_PARAM_COUNT', 'flows_in'), ('MAX_PARAM_COUNT', 'flows_out')):
        hit = None
        for bid in f.blocks:
            c = f.cond(bid)
            if c is None or c.k != 'bin' or c.op not in ('<', '>', '<=', '>='):
                continue
            names = gc.macro_names(f, c)
            if mac in names and cnt in c.s:
                hit = (bid, c)
        ok = False
        if hit:
            bid, c = hit
            strict = (c.op == '<' and cnt in c.ch[1].s) or (c.op == '>' and cnt in c.ch[0].s)
            decs = [e for e in f.events() if e.kind == 'store' and e.lhs.s == 'rc' and e.op in ('--', '-=', '=') and f.edge_dominates(bid, True, e.point)]
            ok = strict and bool(decs)
        rc.expect(ok, 'limit:%s:%s' % (mac, cnt), f.loc(f.blocks[hit[0]]['cond']) if hit else f.where(),
                  'the compiler must report %s > %s (strictly) as an error of the program' % (cnt, mac), note='%s compared with %s, excess reported' % (cnt, mac))
    check_mask_width(ctx, u, rc)
    rets = f.returns()
    rc.expect(bool(rets) and all(r.e is not None and r.e.s == 'rc' for r in rets), 'limit:returned', f.where(), 'the limit check must return its error count', note='error count returned')
    g2 = u.func('jdf_sanity_checks')
    calls = [e for e in g2.events() if e.kind == 'call' and e.fn == f.name] if g2 else []
    rc.expect(len(calls) == 1 and g2.postdominates(calls[0].point, (g2.entry, 0)), 'limit:wired', g2.where() if g2 else f.where(),
              'jdf_sanity_checks must always run the flows/deps limit check', note='limit check part of jdf_sanity_checks')
    # the locals limit is checked by the generator itself: the quantity it compares with MAX_LOCAL_COUNT must be the
    # quantity it then writes into the emitted guard and the reserved[] size (nothing may be added in between)
    u2 = ctx.extract(PTG + 'jdf2c.c')
    ft = u2.func('jdf_generate_task_typedef')
    ctx.functions_analysed.add(ft.name)
    cmpb = None
    for bid in ft.blocks:
        c = ft.cond(bid)
        if c is not None and c.k == 'bin' and c.op in ('>', '<', '>=', '<=') and 'MAX_LOCAL_COUNT' in gc.macro_names(ft, c):
            cmpb = (bid, c)
    emits = [e for e in ft.events() if e.kind == 'call' and e.fn == 'string_arena_add_string' and len(e.args) > 2 and e.args[1].k == 'str' and 'MAX_LOCAL_COUNT <' in (e.args[1].n or '')]
    okq = cmpb is not None and len(emits) == 1
    if okq:
        bid, c = cmpb
        var = c.ch[0].s if 'MAX_LOCAL_COUNT' not in gc.macro_names(ft, c.ch[0]) else c.ch[1].s
        strict = (c.op == '>' and c.ch[0].s == var) or (c.op == '<' and c.ch[1].s == var)
        fatal = [e for e in ft.events() if e.kind == 'call' and e.fn == 'exit' and ft.edge_dominates(bid, True, e.point)]
        between = [s_ for s_ in ft.stores(var) if ft.reaches((bid, 10 ** 6), s_.point, acyclic=True) and ft.reaches(s_.point, emits[0].point, acyclic=True)]
        okq = strict and bool(fatal) and emits[0].args[2].s == var and not between and ft.dominates((bid, 0), emits[0].point)
    rc.expect(okq, 'limit:locals-same-quantity', ft.loc(ft.blocks[cmpb[0]]['cond']) if cmpb else ft.where(),
              'jdf_generate_task_typedef must compare with MAX_LOCAL_COUNT exactly the count it then emits in the guard (parameters + locals + local definitions), and stop with an error when it is larger',
              note='locals: the checked count is the emitted count; excess is fatal')
    um = ctx.extract(os.path.join(driver.BUILD, PTG, 'parsec.l.c'))
    m = um.func('main')
    if m is None:
        raise AnalysisBroken('main() of parsec-ptgpp not found (parsec.l.c includes main.c)')
    ctx.functions_analysed.add('main')
    for callee, what in (('jdf2c', 'code generation'), ('yyparse', 'parsing')):
        cs = [e for e in m.events() if e.kind == 'call' and e.fn == callee]
        ok = False
        for c in cs:
            # the failure branch of the test on this call ends in exit(non-zero) or return non-zero
            for bid in m.blocks:
                cd = m.cond(bid)
                if cd is None or not any(x.nid == c.e.nid for x in cd.walk()):
                    continue
                for e in m.events():
                    if not m.edge_dominates(bid, True, e.point):
                        continue
                    if e.kind == 'ret' and e.e is not None and e.e.cv not in (0, None):
                        ok = True
                    if e.kind == 'call' and e.fn == 'exit' and e.args and e.args[0].cv not in (0, None):
                        ok = True
        rc.expect(ok, 'exit:%s' % callee, cs[0].loc if cs else m.where(), 'a failure of %s must end parsec-ptgpp with a non-zero status' % what,
                  note='%s failure -> non-zero exit' % what)
    # ---- R24.d
    units = [PTG + x for x in ('jdf.c', 'jdf2c.c', 'jdf_unparse.c')] + [os.path.join(driver.BUILD, PTG, x) for x in ('parsec.l.c', 'parsec.y.c')]
    ctrl = os.path.join(driver.VERIF, 'controls', 'c24_control.c')
    hits = []
    for src in units + [ctrl]:
        if src == ctrl:
            cwd, flags = ctx.flags_for(os.path.join(driver.REPO, PTG, 'jdf.c'))
            uu = ctx.extract(src, flags=flags, cwd=cwd, keep=[driver.VERIF])
        else:
            uu = ctx.extract(src)
        for fn_name, fn in uu.funcs().items():
            if not (fn.file.startswith(os.path.join(driver.REPO, PTG)) or fn.file.startswith(os.path.join(driver.BUILD, PTG)) or fn.file == ctrl):
                continue
            ctx.functions_analysed.add(fn_name)
            for e in fn.events():
                if e.kind != 'call':
                    continue
                if e.fn in DENY:
                    hits.append((src == ctrl, e.loc, '%s calls %s()' % (fn_name, e.fn)))
                if e.fn in OUT_FNS and (fn_name, e.fn) not in PTR_EXCEPTIONS:
                    for a in e.args[:2]:
                        # the format string of this very call: %% is a literal percent (it prints a %p that the *generated* code will format)
                        if a.k == 'str' and a.n and re.search(r'%[-+ #0-9.*lhzjt]*p', a.n.replace('%%', '')):
                            hits.append((src == ctrl, e.loc, '%s formats a pointer value with %%p through %s' % (fn_name, e.fn)))
    nctrl = [h for h in hits if h[0]]
    if len(nctrl) < 2:
        raise AnalysisBroken('R24.d positive control (controls/c24_control.c) matched %d times, expected 2: the rule is blind' % len(nctrl))
    rd.ok(ctrl, 'positive control: %d forbidden constructs recognised' % len(nctrl))
    real = [h for h in hits if not h[0]]
    for _, loc, msg in real:
        rd.bad('nondeterminism:%s' % msg, loc, msg + ': two runs on the same input need not produce the same output')
    if not real:
        rd.ok(os.path.join(driver.REPO, PTG), '5 compiler units: no clock/random/pid call, no %p in output formats')
    gc.raise_pending(ctx)
