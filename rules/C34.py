"""C34 — objects are destroyed exactly once when their last reference goes (parsec_object.h/.c)."""
import os
from sa import aff, tables, pathq
from sa.facts import AnalysisBroken, field_accesses, cond_atom, lockset_analysis
from sa.tables import BASE_LOCKS
from sa.driver import VERIF

U = 'parsec/class/parsec_object.c'
QUICK = ['parsec/class/parsec_object.c', 'parsec/parsec.c', 'parsec/scheduling.c', 'parsec/interfaces/dtd/insert_function.c', 'parsec/interfaces/dtd/parsec_dtd_data_flush.c',
         'parsec/mempool.c', 'parsec/data.c', 'parsec/arena.c', 'parsec/mca/termdet/local/termdet_local_module.c', 'parsec/class/parsec_hash_table.c',
         'parsec/class/parsec_datacopy_future.c', 'parsec/data_dist/matrix/map_operator.c', 'parsec/remote_dep.c']
INIT_MACROS = {'PARSEC_OBJ_CONSTRUCT', 'PARSEC_OBJ_CONSTRUCT_WRELEASE', 'PARSEC_OBJ_CONSTRUCT_INTERNAL', 'PARSEC_OBJ_CONSTRUCT_WRELEASE_INTERNAL',
               'PARSEC_COPY_EXECUTION_CONTEXT', 'PARSEC_OBJ_NEW'}
INIT_FUNCS = {'parsec_obj_new'}


def q_obj(unit):
    """(kind, function, loc, detail, ok) records for one unit."""
    out = []
    for f in unit.funcs().values():
        for ac in field_accesses(f, ('obj_reference_count',)):
            ev = ac.ev
            if ac.kind == 'load':
                continue
            if ac.kind == 'store':
                ok = ev.rhs is not None and ev.rhs.cv == 1 and (f.name in INIT_FUNCS or ev.macro in INIT_MACROS or _user_init_macro(ev))
                out.append(('plain', f.name, ev.loc, 'store %s' % (ev.rhs.s if ev.rhs is not None else ''), ok))
            elif ac.kind == 'rmw-plain':
                out.append(('plain', f.name, ev.loc, 'non-atomic %s' % ev.op, False))
            elif ac.kind.startswith('atomic:'):
                k = tables.atomic_kind(ev.fn)
                if f.name in ('parsec_obj_update', 'parsec_obj_update_not_inline'):
                    continue
                if k in ('fetch_dec', 'fetch_sub'):
                    # the returned value must decide something: it must appear in a branch condition
                    used = False
                    for b in f.blocks:
                        c = f.cond(b)
                        if c is not None and any(x.k == 'call' and x.nid == ev.e.nid for x in c.walk()):
                            used = True
                    out.append(('dec', f.name, ev.loc, ev.e.s, used))
                elif k in ('fetch_inc', 'fetch_add'):
                    out.append(('inc', f.name, ev.loc, ev.e.s, True))
                else:
                    out.append(('dec', f.name, ev.loc, ev.e.s, False))
            else:
                out.append(('plain', f.name, ev.loc, ac.kind, False))
        # destruction entry points
        for e in f.calls():
            if e.fn is None and e.callee is not None and e.callee.k == 'mem' and e.callee.n == 'obj_release':
                def zero_upd(a, t):
                    z = pathq.asserted_zero(a, t)
                    return z is not None and 'parsec_obj_update' in repr(z) and ', -1)' in repr(z)
                out.append(('release', f.name, e.loc, e.macro or '', f.guarded_by(e.point, zero_upd)))
            if e.fn == 'parsec_obj_release':
                out.append(('force-release', f.name, e.loc, '', False))
            if e.fn == 'parsec_obj_run_destructors':
                ok = f.name in ('parsec_obj_destruct',) or e.macro == 'PARSEC_OBJ_DESTRUCT'
                out.append(('destruct', f.name, e.loc, e.macro or '', ok))
    return out


def _user_init_macro(ev):
    # stores of 1 spelled through some other macro that wraps the construct macros (tests)
    return ev.macro is not None and ('CONSTRUCT' in ev.macro or 'INI' in ev.macro)


def run(ctx):
    ctx.explanation = ('Static clauses: (a) obj_reference_count is never modified non-atomically except for the initial "= 1" of construction (zero-expected rule with a positive control file); atomic decrements '
                       'outside parsec_obj_update must use their result in a branch; (b) parsec_obj_update returns the post-value; (c) every obj_release() call (PARSEC_OBJ_RELEASE expansions) is guarded by '
                       '0 == parsec_obj_update(o,-1), and parsec_obj_run_destructors is reached only from parsec_obj_destruct / PARSEC_OBJ_DESTRUCT; (d) parsec_class_initialize builds the destructor array '
                       'child->parent with increasing index and the constructor array with decreasing index, both NULL terminated, under class_lock with the double check; the run loops walk them upwards.')
    ctx.not_decided = 'use-after-release by clients; balance of retains and releases.'
    ra = ctx.rule('R34.a', 'reference count modified only atomically (initial = 1 excepted); decrement results used', floor=8)
    rb = ctx.rule('R34.b', 'parsec_obj_update returns the post-value', floor=2)
    rc = ctx.rule('R34.c', 'obj_release only under 0 == obj_update(o,-1); destructors only via obj_destruct', floor=5)
    rd = ctx.rule('R34.d', 'class initialisation: destructor/constructor order, termination, locking', floor=6)
    rk = ctx.rule('R34.k', 'positive control: forbidden constructs are flagged', floor=4, control=True)

    # ---- control
    cwd, flags = ctx.flags_for(os.path.join('/repo', U))
    cu = ctx.extract(os.path.join(VERIF, 'controls', 'c34_control.c'), flags=flags, cwd=cwd)
    hits = q_obj(cu)
    want = {('plain', 'c34_control_plain_decrement'), ('plain', 'c34_control_plain_store'), ('release', 'c34_control_unguarded_release'), ('dec', 'c34_control_discarded_decrement')}
    got = {(k, fn) for k, fn, loc, d, ok in hits if not ok and fn.startswith('c34_control')}
    for w in sorted(want):
        if w in got:
            rk.ok('/verif/controls/c34_control.c', 'control %s/%s flagged' % w)
    if want - got:
        raise AnalysisBroken('positive control not flagged: %s' % sorted(want - got))

    # ---- scan
    srcs = ctx.all_units() if ctx.tier == 'thorough' else QUICK
    seen = set()
    for kind, fn, loc, detail, ok in ctx.scan(srcs, q_obj, main_only=False):
        if (kind, fn, loc) in seen:
            continue
        seen.add((kind, fn, loc))
        if kind in ('plain', 'dec', 'inc'):
            ra.expect(ok, '%s:%s' % (kind, fn), loc, {'plain': 'non-atomic modification of obj_reference_count in %s (%s)', 'dec': 'atomic decrement of obj_reference_count in %s whose result decides nothing (%s)',
                                                    'inc': '%s %s'}[kind] % (fn, detail), note='%s %s %s' % (fn, kind, detail))
        elif kind == 'force-release':
            rc.bad('force-release:%s' % fn, loc, '%s calls parsec_obj_release(), which releases without consulting the reference count' % fn)
        elif kind == 'release' and fn == 'parsec_obj_release':
            rc.ok(loc, 'parsec_obj_release: unconditional release helper — named exception: it has no caller in the tree (any caller is reported as force-release)')
        elif kind == 'release':
            rc.expect(ok, 'release:%s' % fn, loc, 'obj_release() called in %s without the guard 0 == parsec_obj_update(o, -1)' % fn, note='%s: obj_release under 0 == obj_update(o,-1) [%s]' % (fn, detail))
        elif kind == 'destruct':
            rc.expect(ok, 'destruct:%s' % fn, loc, 'parsec_obj_run_destructors called from %s (only parsec_obj_destruct / PARSEC_OBJ_DESTRUCT may)' % fn, note='%s: run_destructors via %s' % (fn, detail or 'obj_destruct'))

    u = ctx.extract(U)
    for name in ('parsec_obj_update', 'parsec_obj_update_not_inline'):
        f = u.func(name); ctx.functions_analysed.add(name)
        pis = pathq.all_paths(f)
        rev, rexp = pis[0].ret()
        calls = [e for e in f.calls() if e.fn and tables.is_rmw(e.fn) and e.args[0].s.endswith('obj_reference_count')]
        ok = len(pis) == 1 and len(calls) == 1 and tables.atomic_kind(calls[0].fn) == 'fetch_add' and calls[0].args[1].s == f.params[1]['n'] and tables.is_post_value(rexp, calls[0].e)
        rb.expect(ok, 'update:%s' % name, f.where(), '%s must return fetch_add(&refcount, inc) + inc (the post-value)' % name, note='%s returns the post-value' % name)

    # ---- (d)
    f = u.func('parsec_class_initialize'); ctx.functions_analysed.add(f.name)
    cls = f.params[0]['n']
    ls = lockset_analysis(f, BASE_LOCKS)
    init = [s_ for s_ in f.stores() if s_.lhs.k == 'mem' and s_.lhs.n == 'cls_initialized' and s_.rhs is not None and s_.rhs.cv == 1]
    rd.expect(len(init) == 1 and 'class_lock' in (ls.must_before(init[0]) or ()), 'init:flag-locked', init[0].loc if init else f.where(), 'cls_initialized = 1 must be stored under class_lock', note='cls_initialized = 1 under class_lock')
    for rev, must, may, loc in ls.exits():
        rd.expect(not may, 'init:exit-locked', loc, 'parsec_class_initialize may return holding class_lock', note='class_lock released at return')
    # double check: a test of cls_initialized under the lock before any array construction
    mall = f.calls('malloc')
    tests = [b for b in f.blocks if f.cond(b) is not None and 'cls_initialized' in f.cond(b).s]
    locked_tests = [b for b in tests if any('class_lock' in (ls.must_before(e) or ()) for e in f.block_events(b) if e.kind == 'load')]
    rd.expect(len(tests) >= 2 and locked_tests and mall and all(f.dominates((b, 0), mall[0].point) for b in locked_tests), 'init:double-check', f.where(),
              'cls_initialized must be re-checked under class_lock before building the arrays', note='double-checked locking')
    # array fill
    dst = [s_ for s_ in f.stores() if s_.lhs.k == 'un' and s_.lhs.op == '*' and s_.rhs is not None and s_.rhs.k == 'mem' and s_.rhs.n == 'cls_destruct']
    cst = [s_ for s_ in f.stores() if s_.lhs.k == 'un' and s_.lhs.op == '*' and s_.rhs is not None and s_.rhs.k == 'mem' and s_.rhs.n == 'cls_construct']
    if len(dst) != 1 or len(cst) != 1:
        raise AnalysisBroken('class_initialize: array fill stores not found')
    dvar = dst[0].lhs.ch[0].s; cvar = cst[0].lhs.ch[0].s
    walker = dst[0].rhs.ch[0].s
    adv = [s_ for s_ in f.stores(walker) if s_.rhs is not None and s_.rhs.k == 'mem' and s_.rhs.n == 'cls_parent' and f.in_loop(s_.block) and f.in_loop(dst[0].block) & f.in_loop(s_.block)]
    start = [s_ for s_ in f.stores(walker) if s_.rhs is not None and s_.rhs.s == cls and f.dominates(s_.point, dst[0].point) and not (f.in_loop(s_.block) & f.in_loop(dst[0].block))]
    rd.expect(bool(adv) and bool(start), 'init:walk', dst[0].loc, 'arrays must be filled walking from the class itself to its ancestors (c = cls; c = c->cls_parent)', note='walk child -> parent')
    dinc = [s_ for s_ in f.stores(dvar) if s_.op == '++' and f.in_loop(s_.block)]
    cdec = [s_ for s_ in f.stores(cvar) if s_.op == '--' and f.in_loop(s_.block)]
    rd.expect(len(dinc) == 1 and f.precedes(dst[0], dinc[0]) and not [s_ for s_ in f.stores(dvar) if s_.op == '--'], 'init:destruct-order', dst[0].loc,
              'destructor array must be filled with increasing index (most derived first)', note='destructors: store then index++ (child first)')
    rd.expect(len(cdec) == 1 and f.precedes(cdec[0], cst[0]) and not [s_ for s_ in f.stores(cvar) if s_.op == '++'], 'init:construct-order', cst[0].loc,
              'constructor array must be filled with decreasing index (base first)', note='constructors: --index then store (parent first)')
    nulls = [s_ for s_ in f.stores() if s_.lhs.k == 'un' and s_.lhs.op == '*' and s_.rhs is not None and s_.rhs.cv == 0 and s_.lhs.ch[0].s in (dvar, cvar)]
    dn = [s_ for s_ in nulls if s_.lhs.ch[0].s == dvar and not f.in_loop(s_.block) and f.reaches(dst[0].point, s_.point)]
    cn = [s_ for s_ in nulls if s_.lhs.ch[0].s == cvar and not f.in_loop(s_.block) and f.reaches(s_.point, cst[0].point)]
    rd.expect(len(dn) == 1 and len(cn) == 1, 'init:sentinels', (nulls or [dst[0]])[0].loc, 'both arrays must be NULL terminated (constructors: end marker before the fill; destructors: after)', note='NULL sentinels on both arrays')
    # the run loops
    uh = ctx.extract('parsec/class/parsec_object.c')
    for name, arr in (('parsec_obj_run_destructors', 'cls_destruct_array'), ('parsec_obj_run_constructors', 'cls_construct_array')):
        g = uh.func(name); ctx.functions_analysed.add(name)
        st = [s_ for s_ in g.stores() if s_.rhs is not None and s_.rhs.k == 'mem' and s_.rhs.n == arr]
        incs = [s_ for s_ in g.stores() if s_.op == '++' and st and s_.lhs.s == st[0].lhs.s and g.in_loop(s_.block)]
        calls = [e for e in g.calls() if e.fn is None and g.in_loop(e.block)]
        ok = len(st) == 1 and len(incs) == 1 and len(calls) == 1 and g.precedes(calls[0], incs[0]) and calls[0].args[0].s == g.params[0]['n']
        rd.expect(ok, 'run:%s' % name, g.where(), '%s must call the array entries on the object in increasing order until the NULL sentinel' % name, note='%s walks %s upwards' % (name, arr))
