"""C19 — matrix datatypes select exactly the specified elements — clause level.

The element set of a derived datatype is fully determined by the arguments handed to the MPI type
constructors.  Those arguments are closed-form integer expressions of (m, n, ld, diag) and of the
column index; they are compared here, as polynomials over opaque atoms (min(), the "diagonal
excluded" flag), with the closed form of the mathematical region.  Nothing is evaluated for
concrete sizes and no program code runs.

R19.a  parsec_matrix_define_triangle, for uplo = upper and uplo = lower, on the symbolic path through
       one arbitrary loop iteration: with d = 1 iff diag == 0 (diagonal excluded), c the column,
         upper: block length min(c + 1 - d, m), displacement c * ld, columns d .. n-1
         lower: block length m - c - d,         displacement c * ld + c + d, columns 0 .. min(n, m-d)-1
       the loop visits the columns one by one, the count and the two array windows given to
       parsec_type_create_indexed cover exactly those columns (block-length array first), and the
       stores stay inside the n-element allocations.
R19.b  extents: the triangle is resized to lower bound 0 and extent ld * n * sizeof(element) (size
       obtained from the same oldtype), built over the indexed type; rectangle / contiguous are
       resized only on request, to resized * sizeof(element), lower bound 0.
R19.c  rectangle = vector(count n, block length m, stride ld) unless m == ld, where it is the
       contiguous type of ld * n elements; contiguous(k) passes k.
R19.d  dispatch: parsec_matrix_define_datatype sends UPPER / LOWER to the triangle builder and FULL to
       contiguous (m == ld, ld * n elements) or rectangle, with (m, n, ld, diag) in their positions;
       the adt_define_{rect,square,upper,lower} shorthands pass the uplo of their name and their
       sizes in (m, n, ld) order.
R19.e  the MPI back-end wrappers hand their arguments to the MPI constructor of the same kind in the
       same order and commit the new type on the success path.
"""
from sa import aff, pathq
from sa.aff import Poly
from sa.facts import AnalysisBroken, cond_atom

U = 'parsec/data_dist/matrix/matrixtypes.c'
UM = 'parsec/datatype/datatype_mpi.c'


def mk_atomize(env):
    """canonical atoms: fresh path symbols by their variable, 0/1 flags of a zero test, min / max."""
    def at(e):
        if e.k == 'ref' and '@' in e.s:
            return e.s.split('@')[0]
        if e.k == 'un' and e.op == '!':
            return 'Z(%r)' % N0(e.ch[0])
        if e.k == 'cond':
            c, a, b = e.ch
            pa, pb = N0(a), N0(b)
            if pa.is_const() and pb.is_const() and {pa.const_value(), pb.const_value()} == {0, 1}:
                atom, pol = cond_atom(c)
                # c is true iff atom is (pol)
                one_when_nonzero = pol if pa.const_value() == 1 else (not pol)
                return ('NZ(%r)' if one_when_nonzero else 'Z(%r)') % N0(atom)
            if c.k == 'bin' and c.op in ('<', '<=', '>', '>='):
                l, r = N0(c.ch[0]), N0(c.ch[1])
                if {pa.key(), pb.key()} == {l.key(), r.key()} and l != r:
                    picks_left = pa == l
                    is_min = picks_left == (c.op in ('<', '<='))
                    return '%s(%s)' % ('min' if is_min else 'max', ', '.join(sorted([repr(l), repr(r)])))
        return None

    def N0(e):
        return aff.norm(e, None, at)

    def N(e):
        # path environments are fully resolved (values are over the entry symbols): substitute once
        return N0(e.subst(env) if env else e)
    return N


def pmin(a, b):
    return Poly.atom('min(%s)' % ', '.join(sorted([repr(a), repr(b)])))


def scalar_env(env, drop):
    return {k: v for k, v in env.items() if k not in drop and not k.startswith('__')}


def run(ctx):
    ctx.explanation = ('Clause level: the arguments of the type constructors (count, block lengths, displacements, extent) are compared symbolically - polynomial normal '
                       'form over opaque atoms, min() and the diagonal flag canonicalised - with the closed form of the full / upper / lower region for an arbitrary column; '
                       'the dispatch, the shorthands and the MPI wrappers are checked for argument positions. This decides the index tables for every (m, n, ld, diag), '
                       'not only the sizes a test samples; what MPI does with the tables is trusted.')
    ctx.not_decided = 'the behaviour of the MPI library on the constructed type (packing order, extent arithmetic); integer overflow for sizes beyond INT_MAX.'
    ra = ctx.rule('R19.a', 'triangle index tables equal the closed form of the upper / lower region for an arbitrary column; windows and counts cover exactly the non-empty columns', floor=14)
    rb = ctx.rule('R19.b', 'extents: triangle resized to [0, ld*n*size); rectangle / contiguous resized only on request to resized*size', floor=4)
    rc = ctx.rule('R19.c', 'rectangle = vector(n, m, ld) or contiguous(ld*n) when m == ld', floor=3)
    rd = ctx.rule('R19.d', 'dispatch and shorthands pass uplo, diag, m, n, ld in their positions', floor=8)
    re_ = ctx.rule('R19.e', 'MPI wrappers forward their arguments in order and commit the type', floor=8)
    u = ctx.extract(U)
    triangle(ctx, u, ra, rb)
    rect(ctx, u, rb, rc)
    dispatch(ctx, u, rd)
    wrappers(ctx, ctx.extract(UM), re_)


# ------------------------------------------------------------------------------------------------
def triangle(ctx, u, ra, rb):
    f = u.func('parsec_matrix_define_triangle'); ctx.functions_analysed.add(f.name)
    ps = [p['n'] for p in f.params]
    if len(ps) != 7:
        raise AnalysisBroken('parsec_matrix_define_triangle: signature changed')
    oldtype, uplo, diag, m, n, ld, newtype = ps
    pis = pathq.all_paths(f, feasible_only=False)
    seen = {}
    for pi in pis:
        ev_r, rexp = pi.ret()
        if ev_r is None or ev_r.e is None or ev_r.e.cv != 0:
            continue
        idx = pi.calls('parsec_type_create_indexed')
        kind = None
        for atom, truth, ev in pi.assumes():
            if truth and atom.k == 'bin' and atom.op == '==' and uplo in (atom.ch[0].s, atom.ch[1].s):
                other = atom.ch[1] if atom.ch[0].s == uplo else atom.ch[0]
                if other.s.endswith('PARSEC_MATRIX_UPPER'):
                    kind = 'upper'
                elif other.s.endswith('PARSEC_MATRIX_LOWER'):
                    kind = 'lower'
        if kind is None:
            ra.bad('triangle:success-without-uplo', f.where(), 'parsec_matrix_define_triangle returns success on a path that is neither the upper nor the lower case (path %s)' % pi.id)
            continue
        arr_stores = [(ev, env) for ev, env in pi.steps if ev.kind == 'store' and ev.lhs.k == 'idx']
        if not arr_stores:
            continue        # the path with zero iterations carries no table obligation
        if len(idx) != 1:
            ra.bad('triangle:%s:one-indexed-type' % kind, f.where(), 'the %s path must build exactly one indexed type (found %d)' % (kind, len(idx)))
            continue
        seen.setdefault(kind, 0)
        seen[kind] += 1
        check_triangle_path(ctx, f, pi, kind, idx[0], arr_stores, (oldtype, uplo, diag, m, n, ld, newtype), ra, rb)
    for kind in ('upper', 'lower'):
        if not seen.get(kind):
            raise AnalysisBroken('parsec_matrix_define_triangle: no successful %s path through the loop body found' % kind)


def check_triangle_path(ctx, f, pi, kind, idxcall, arr_stores, names, ra, rb):
    oldtype, uplo, diag, m, n, ld, newtype = names
    arrays = set()
    for ev, env in pi.steps:
        if ev.kind == 'store' and ev.lhs.k == 'ref' and ev.rhs is not None and ev.rhs.k == 'call' and ev.rhs.n in ('malloc', 'calloc'):
            arrays.add(ev.lhs.s)
    cev, cenv = idxcall
    N = mk_atomize(scalar_env(cenv, arrays))
    P = Poly.atom
    d = P('Z(%s)' % diag)
    K = 'triangle:%s:' % kind
    loc = cev.loc
    # ---- the two windows
    a_bl, a_dp = N(cev.args[1]), N(cev.args[2])
    bases = []
    for a in (a_bl, a_dp):
        b = [x for x in arrays if a.coeff(x) == 1]
        bases.append(b[0] if len(b) == 1 else None)
    ok = bases[0] is not None and bases[1] is not None and bases[0] != bases[1]
    ra.expect(ok, K + 'arrays', loc, 'parsec_type_create_indexed must receive two different locally allocated arrays (got %s, %s)' % (cev.args[1].s, cev.args[2].s),
              note='%s: indexed(count, %s, %s)' % (kind, cev.args[1].s, cev.args[2].s))
    if not ok:
        return
    S1, S2 = a_bl - P(bases[0]), a_dp - P(bases[1])
    count = N(cev.args[0])
    ra.expect(S1 == S2, K + 'same-window', loc, 'block-length and displacement arrays are passed with different offsets (%r vs %r)' % (S1, S2), note='%s: both arrays offset by %r' % (kind, S1))
    S = S1
    # allocation size
    for ev, env in pi.steps:
        if ev.kind == 'store' and ev.lhs.s in (bases[0], bases[1]) and ev.rhs is not None and ev.rhs.k == 'call':
            sz = mk_atomize(scalar_env(env, arrays))(ev.rhs.ch[0]) if ev.rhs.n == 'malloc' else None
            ra.expect(sz is not None and sz == P(n) * Poly.const(4), K + 'alloc:' + ev.lhs.s, ev.loc, '%s must be allocated with n ints (got %s)' % (ev.lhs.s, ev.rhs.s),
                      note='%s: %s holds n ints' % (kind, ev.lhs.s))
    # ---- the loop: stores, index symbol, bounds
    st = {}
    for ev, env in arr_stores:
        base = ev.lhs.ch[0].s
        st.setdefault(base, []).append((ev, env))
    ok = set(st) == {bases[0], bases[1]} and all(len({e.lhs.nid for e, _ in v}) == 1 for v in st.values())
    ra.expect(ok, K + 'one-store-per-array', loc, 'each of the two arrays must be written by exactly one statement of the loop (writes to: %s)' % sorted(st), note='%s: one store per array per iteration' % kind)
    if not ok:
        return
    (bev, benv), (dev, denv) = st[bases[0]][0], st[bases[1]][0]
    NB, ND = mk_atomize(scalar_env(benv, arrays)), mk_atomize(scalar_env(denv, arrays))
    cb, cd = NB(bev.lhs.ch[1]), ND(dev.lhs.ch[1])
    loopsyms = [x for x in (bev.lhs.ch[1].subst(benv), dev.lhs.ch[1].subst(denv))]
    ok = cb == cd and len(cb.t) == 1 and list(cb.t.values()) == [1] and all('@loop' in x.s for x in loopsyms)
    ra.expect(ok, K + 'column-index', bev.loc, 'both arrays must be indexed by the loop variable itself (got %s and %s)' % (bev.lhs.s, dev.lhs.s), note='%s: both arrays indexed by the loop variable' % kind)
    if not ok:
        return
    cname = list(cb.t)[0][0]
    c = P(cname)
    # initial value, bound, step
    first = pi.index(bev)
    inits = [(ev, env) for ev, env in pi.steps[:first] if ev.kind == 'store' and ev.lhs.s == cname and ev.op == '=']
    lo = mk_atomize(scalar_env(inits[-1][1], arrays))(inits[-1][0].rhs) if inits else None
    steps = [(ev, env) for ev, env in pi.steps[first:] if ev.kind == 'store' and ev.lhs.s == cname and pi.index(ev) < pi.index(cev)]
    step_ok = len(steps) == 1 and (steps[0][0].op in ('++',) or (steps[0][0].op == '+=' and steps[0][0].rhs is not None and steps[0][0].rhs.cv == 1))
    ra.expect(step_ok, K + 'step', steps[0][0].loc if steps else bev.loc, 'the column loop must advance by exactly one column per iteration', note='%s: column loop advances by 1' % kind)
    hi = None
    for ev, env in pi.steps[:first]:
        if ev.kind == 'assume' and ev.op is True and ev.e.k == 'bin' and ev.e.op in ('<', '>', '<=', '>='):
            l, r = (ev.e.ch[0], ev.e.ch[1]) if ev.e.op in ('<', '<=') else (ev.e.ch[1], ev.e.ch[0])
            Nx = mk_atomize(scalar_env(env, arrays))
            if Nx(l) == c:
                hi = Nx(r) + (Poly.const(1) if ev.e.op in ('<=', '>=') else Poly.const(0))
    if lo is None or hi is None:
        raise AnalysisBroken('column loop of the %s case not recognised (initial value %r, bound %r): expected for(c = lo; c < hi; c++)' % (kind, lo, hi))
    # ---- the closed form
    if kind == 'upper':
        want_bl = pmin(c + Poly.const(1) - d, P(m)); want_dp = c * P(ld)
        ok_win = S in (d, Poly.const(0)) and S + count == P(n)
        win_msg = 'columns d .. n-1: window offset must be d (or 0) and offset + count == n'
        bounded = hi == P(n)
    else:
        want_bl = P(m) - c - d; want_dp = c * P(ld) + c + d
        ok_win = S == Poly.const(0) and count == pmin(P(n), P(m) - d)
        win_msg = 'columns 0 .. min(n, m-d)-1: window offset 0 and count == min(n, m - d)'
        bounded = hi == pmin(P(n), P(m) - d) or hi == P(n)
    got_bl, got_dp = NB(bev.rhs), ND(dev.rhs)
    ra.expect(got_bl == want_bl, K + 'blocklen', bev.loc, 'block length of column c is %r, the %s region (d = 1 iff %s == 0) needs %r' % (got_bl, kind, diag, want_bl), note='%s: block length %r' % (kind, want_bl))
    ra.expect(got_dp == want_dp, K + 'displacement', dev.loc, 'displacement of column c is %r, the %s region needs %r' % (got_dp, kind, want_dp), note='%s: displacement %r' % (kind, want_dp))
    ra.expect(ok_win, K + 'window', loc, '%s (offset %r, count %r)' % (win_msg, S, count), note='%s: offset %r, count %r' % (kind, S, count))
    ra.expect(lo in (S, Poly.const(0)) and hi == S + count, K + 'loop-covers-window', bev.loc,
              'the loop fills columns [%r, %r) but the type reads columns [%r, %r)' % (lo, hi, S, S + count), note='%s: loop [%r, %r) covers the window' % (kind, lo, hi))
    ra.expect(bounded, K + 'bounded', bev.loc, 'the loop bound %r is not bounded by the n allocated entries' % hi, note='%s: stores bounded by n' % kind)
    # ---- extent (R19.b)
    rs = pi.calls('parsec_type_create_resized')
    ok = len(rs) == 1
    if ok:
        rev, renv = rs[0]
        NR = mk_atomize(scalar_env(renv, arrays))
        sz = [(ev, env) for ev, env in pi.steps[:pi.index(rev)] if ev.kind == 'call' and ev.fn == 'parsec_type_size']
        szvar = sz[-1][0].args[1].s.lstrip('&') if sz and sz[-1][0].args[0].s == oldtype and sz[-1][0].args[1].s.startswith('&') else None
        tmpvar = cev.args[4].s.lstrip('&')
        ok = szvar is not None and rev.args[0].s == tmpvar and NR(rev.args[1]) == Poly.const(0) and NR(rev.args[2]) == P(ld) * P(n) * P(szvar) and rev.args[3].s == newtype \
            and pi.index(cev) < pi.index(rev)
    rb.expect(ok, 'extent:triangle:%s' % kind, rs[0][0].loc if rs else loc,
              'the %s triangle must be the indexed type resized to lower bound 0 and extent ld * n * size(oldtype), stored in *newtype' % kind, note='%s triangle: resized(indexed, 0, ld*n*size)' % kind)


# ------------------------------------------------------------------------------------------------
def _succ_paths(f):
    out = []
    for pi in pathq.all_paths(f, feasible_only=False):
        ev_r, rexp = pi.ret()
        if ev_r is not None and ev_r.e is not None and ev_r.e.cv == 0:
            out.append(pi)
    return out


def _truth(pi, pred):
    """truth of the last assumption whose atom satisfies pred, None if never tested on the path."""
    t = None
    for atom, truth, ev in pi.assumes():
        if pred(atom):
            t = truth
    return t


def rect(ctx, u, rb, rc):
    P = Poly.atom
    for fname, ctor, nargs in (('parsec_matrix_define_contiguous', 'parsec_type_create_contiguous', 4), ('parsec_matrix_define_rectangle', 'parsec_type_create_vector', 6)):
        f = u.func(fname); ctx.functions_analysed.add(fname)
        ps = [p['n'] for p in f.params]
        if len(ps) != nargs:
            raise AnalysisBroken('%s: signature changed' % fname)
        resized, newtype, oldtype = ps[-2], ps[-1], ps[0]
        n_ok = 0
        for pi in _succ_paths(f):
            N = None
            cs = pi.calls(ctor)
            if len(cs) != 1:
                rc.bad('ctor:%s' % fname, f.where(), '%s returns success without building exactly one %s (path %s)' % (fname, ctor, pi.id)); continue
            cev, cenv = cs[0]
            N = mk_atomize(scalar_env(cenv, ()))
            if ctor == 'parsec_type_create_contiguous':
                ok = N(cev.args[0]) == P(ps[1]) and cev.args[1].s == oldtype and cev.args[2].s == newtype
                msg = 'contiguous(nb_elem, oldtype, newtype)'
            else:
                mb, nb, ld = ps[1], ps[2], ps[3]
                ok = N(cev.args[0]) == P(nb) and N(cev.args[1]) == P(mb) and N(cev.args[2]) == P(ld) and cev.args[3].s == oldtype and cev.args[4].s == newtype
                msg = 'vector(count = columns nb, block length = rows mb, stride = ld, oldtype, newtype)'
                # the path must not be the mb == ld one
                t = _truth(pi, lambda a: a.k == 'bin' and a.op == '==' and {a.ch[0].s, a.ch[1].s} == {mb, ld})
                ok = ok and t is not True
            rc.expect(ok, 'ctor-args:%s' % fname, cev.loc, '%s must build %s, got %s' % (fname, msg, cev.e.s), note='%s: %s' % (fname, msg))
            # resize only on request
            rs = pi.calls('parsec_type_create_resized')
            t = _truth(pi, lambda a: a.k == 'bin' and a.op in ('>=', '<', '>', '<=') and resized in (a.ch[0].s, a.ch[1].s))
            if rs:
                rev, renv = rs[0]
                NR = mk_atomize(scalar_env(renv, ()))
                sz = [ev for ev, env in pi.steps[:pi.index(rev)] if ev.kind == 'call' and ev.fn == 'parsec_type_size' and ev.args[0].s == oldtype and ev.args[1].s.startswith('&')]
                szvar = sz[-1].args[1].s.lstrip('&') if sz else None
                src = rev.args[0].subst(renv).s
                ok = len(rs) == 1 and szvar is not None and NR(rev.args[1]) == Poly.const(0) and NR(rev.args[2]) == P(resized) * P(szvar) and rev.args[3].s == newtype \
                    and f.guarded_by(rev.point, lambda a, tr: a.k == 'bin' and a.op == '>=' and a.ch[0].s == resized and a.ch[1].cv == 0 and tr) \
                    and ('*' + newtype) in src.replace(' ', '').replace('(', '').replace(')', '')
                rb.expect(ok, 'extent:%s:resized' % fname, rev.loc, '%s must resize the type it just built to lower bound 0 and extent resized * size(oldtype), only under resized >= 0' % fname,
                          note='%s: resized(*newtype, 0, resized*size) under resized >= 0' % fname)
            n_ok += 1
        if not n_ok:
            raise AnalysisBroken('%s: no success path found' % fname)
    # rectangle falls back to contiguous when mb == ld
    f = u.func('parsec_matrix_define_rectangle')
    ps = [p['n'] for p in f.params]
    mb, nb, ld = ps[1], ps[2], ps[3]
    cc = f.calls('parsec_matrix_define_contiguous')
    ok = len(cc) == 1
    if ok:
        e = cc[0]
        N = mk_atomize({})
        ok = e.args[0].s == ps[0] and N(e.args[1]) in (Poly.atom(ld) * Poly.atom(nb), Poly.atom(mb) * Poly.atom(nb)) and e.args[2].s == ps[4] and e.args[3].s == ps[5] \
            and f.guarded_by(e.point, lambda a, tr: a.k == 'bin' and a.op == '==' and {a.ch[0].s, a.ch[1].s} == {mb, ld} and tr)
    rc.expect(ok, 'rectangle:contiguous-when-dense', cc[0].loc if cc else f.where(), 'rectangle must delegate to contiguous(oldtype, ld * nb, resized, newtype) exactly when mb == ld',
              note='rectangle: mb == ld -> contiguous(ld*nb)')


# ------------------------------------------------------------------------------------------------
def dispatch(ctx, u, rd):
    f = u.func('parsec_matrix_define_datatype'); ctx.functions_analysed.add(f.name)
    ps = [p['n'] for p in f.params]
    if len(ps) != 9:
        raise AnalysisBroken('parsec_matrix_define_datatype: signature changed')
    newtype, oldtype, uplo, diag, m, n, ld, resized, extent = ps
    N = mk_atomize({})
    P = Poly.atom
    seen = set()
    for pi in _succ_paths(f):
        sw = [lab for e, lab, ev in pi.switches() if e.s == uplo]
        tri = pi.calls('parsec_matrix_define_triangle'); con = pi.calls('parsec_matrix_define_contiguous'); rec = pi.calls('parsec_matrix_define_rectangle')
        built = len(tri) + len(con) + len(rec)
        if built != 1:
            rd.bad('dispatch:one-builder', f.where(), 'define_datatype returns success after %d builders on path %s' % (built, pi.id)); continue
        labs = set()
        for lab in sw:
            labs.add(lab)
        case = None
        if sw:
            lab = sw[-1]
            case = _enum_name(u, lab)
        if tri:
            ev = tri[0][0]
            ok = [a.s for a in ev.args] == [oldtype, uplo, diag, m, n, ld, newtype] and case in ('PARSEC_MATRIX_UPPER', 'PARSEC_MATRIX_LOWER')
            seen.add(('tri', case))
            rd.expect(ok, 'dispatch:triangle:%s' % case, ev.loc, 'case %s must call define_triangle(oldtype, uplo, diag, m, n, ld, newtype); got %s' % (case, ev.e.s), note='%s -> triangle(oldtype, uplo, diag, m, n, ld, newtype)' % case)
        elif con:
            ev = con[0][0]
            t = _truth(pi, lambda a: a.k == 'bin' and a.op == '==' and {a.ch[0].s, a.ch[1].s} == {m, ld})
            # on this path m == ld holds: the two names denote one value
            Neq = mk_atomize({m: [p_ for p_ in ev.args[1].walk() if p_.s == ld][0]} if any(p_.s == ld for p_ in ev.args[1].walk()) else {})
            nelem = Neq(ev.args[1])
            ok = case not in ('PARSEC_MATRIX_UPPER', 'PARSEC_MATRIX_LOWER') and t is True and ev.args[0].s == oldtype and nelem in (P(ld) * P(n), P(m) * P(n)) and ev.args[2].s == resized and ev.args[3].s == newtype
            seen.add(('con', None))
            rd.expect(ok, 'dispatch:full:contiguous', ev.loc, 'the full tile with m == ld must be contiguous(oldtype, ld * n, resized, newtype); got %s' % ev.e.s, note='FULL, m == ld -> contiguous(ld*n)')
        else:
            ev = rec[0][0]
            t = _truth(pi, lambda a: a.k == 'bin' and a.op == '==' and {a.ch[0].s, a.ch[1].s} == {m, ld})
            ok = case not in ('PARSEC_MATRIX_UPPER', 'PARSEC_MATRIX_LOWER') and t is False and [a.s for a in ev.args] == [oldtype, m, n, ld, resized, newtype]
            seen.add(('rec', None))
            rd.expect(ok, 'dispatch:full:rectangle', ev.loc, 'the full tile with m != ld must be rectangle(oldtype, m, n, ld, resized, newtype); got %s' % ev.e.s, note='FULL, m != ld -> rectangle(m, n, ld)')
        # the extent reported is the one of the type just built
        ex = pi.calls('parsec_type_extent')
        ok = len(ex) == 1 and ex[0][0].args[0].s.replace(' ', '') == '*' + newtype and ex[0][0].args[2].s == extent
        rd.expect(ok, 'dispatch:extent-of-newtype', ex[0][0].loc if ex else f.where(), 'the extent returned must be read from *newtype into the extent out-parameter', note='extent read from *newtype')
    want = {('tri', 'PARSEC_MATRIX_UPPER'), ('tri', 'PARSEC_MATRIX_LOWER'), ('con', None), ('rec', None)}
    for w in sorted(want - seen, key=str):
        rd.bad('dispatch:missing:%s:%s' % w, f.where(), 'define_datatype has no success path for %s %s' % w)
    # shorthands
    spec = {'parsec_matrix_adt_define_rect': ('PARSEC_MATRIX_FULL', None, (2, 3, 4)), 'parsec_matrix_adt_define_square': ('PARSEC_MATRIX_FULL', None, (2, 2, 2)),
            'parsec_matrix_adt_define_upper': ('PARSEC_MATRIX_UPPER', 2, (3, 3, 3)), 'parsec_matrix_adt_define_lower': ('PARSEC_MATRIX_LOWER', 2, (3, 3, 3))}
    for name, (up, dpos, dims) in spec.items():
        g = u.func(name); ctx.functions_analysed.add(name)
        gp = [p['n'] for p in g.params]
        cs = g.calls('parsec_matrix_arena_datatype_define_type')
        ok = len(cs) == 1
        if ok:
            a = cs[0].args
            ok = a[0].s == gp[0] and a[1].s == gp[1] and a[2].s.endswith(up) and [x.s for x in a[4:7]] == [gp[i] for i in dims] and \
                ((dpos is None) or a[3].s == gp[dpos]) and any(r.e is not None and any(y.nid == cs[0].e.nid for y in r.e.walk()) for r in g.returns())
        rd.expect(ok, 'shorthand:%s' % name, g.where(), '%s must forward (adt, oldtype, %s, diag, m, n, ld) with its own sizes in (m, n, ld) order and return the result' % (name, up), note='%s -> %s' % (name, up))
    g = u.func('parsec_matrix_arena_datatype_define_type'); ctx.functions_analysed.add(g.name)
    gp = [p['n'] for p in g.params]
    cs = g.calls('parsec_matrix_define_datatype')
    ok = len(cs) == 1 and [a.s for a in cs[0].args[1:8]] == gp[1:7] + [gp[8]] and cs[0].args[0].s.startswith('&')
    rd.expect(ok, 'shorthand:arena_datatype_define_type', g.where(), 'arena_datatype_define_type must forward (oldtype, uplo, diag, m, n, ld, resized) in order', note='define_type -> define_datatype, same order')


def _enum_name(u, lab):
    """name of the parsec_matrix_uplo_t enumerator with this value, read from the unit's own expressions."""
    if isinstance(lab, str):
        return lab
    names = {}
    for fn in ('parsec_matrix_define_triangle', 'parsec_matrix_adt_define_rect', 'parsec_matrix_adt_define_upper', 'parsec_matrix_adt_define_lower'):
        g = u.func(fn)
        exprs = [g.cond(b) for b in g.blocks if g.cond(b) is not None] + [a for e in g.calls() for a in (e.args or ())]
        for x0 in exprs:
            for x in x0.walk():
                if x.k == 'ref' and x.dk == 'enum' and x.cv is not None and x.s.startswith('PARSEC_MATRIX_'):
                    names[x.cv] = x.s
    return names.get(lab, str(lab))


# ------------------------------------------------------------------------------------------------
WRAP = {'parsec_type_create_contiguous': ('MPI_Type_contiguous', 3), 'parsec_type_create_vector': ('MPI_Type_vector', 5), 'parsec_type_create_indexed': ('MPI_Type_indexed', 5),
        'parsec_type_create_resized': ('MPI_Type_create_resized', 4)}


def wrappers(ctx, um, re_):
    for name, (mpi, k) in WRAP.items():
        f = um.func(name); ctx.functions_analysed.add(name)
        ps = [p['n'] for p in f.params]
        cs = f.calls(mpi)
        ok = len(cs) == 1 and len(ps) == k and [a.s for a in cs[0].args] == ps
        re_.expect(ok, 'wrapper:%s:args' % name, cs[0].loc if cs else f.where(), '%s must call %s with its own parameters in order' % (name, mpi), note='%s -> %s(%s)' % (name, mpi, ', '.join(ps)))
        n = 0
        for pi in _succ_paths(f):
            n += 1
            cm = pi.calls('MPI_Type_commit'); cc = pi.calls(mpi)
            ok = len(cc) == 1 and len(cm) == 1 and cm[0][0].args[0].s == ps[-1] and pi.index(cc[0][0]) < pi.index(cm[0][0])
            re_.expect(ok, 'wrapper:%s:commit' % name, f.where(), '%s returns success without committing the type it built' % name, note='%s commits the new type' % name)
        if not n:
            # success is returned through a conditional expression: every return follows the commit
            cm = f.calls('MPI_Type_commit')
            ok = len(cm) == 1 and cs and f.precedes(cs[0], cm[0]) and cm[0].args[0].s == ps[-1]
            re_.expect(ok, 'wrapper:%s:commit' % name, f.where(), '%s must commit the type it built before returning' % name, note='%s commits the new type' % name)
