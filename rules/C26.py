"""C26 — data copy ownership transfers (parsec/data.c) — clause level, weak.

R26.a  start_transfer: the switch on the target copy's coherency state has a case for each of the four
       states; a transfer is requested only in the INVALID case or, for a SHARED copy, when an OWNED
       copy with a strictly newer version exists; an access without READ never requests one.
R26.b  bookkeeping on every path to a return (including the "already owner" shortcut): readers++ exactly
       under READ, owner_device = device exactly under WRITE.
R26.c  a source device is returned only when a transfer is required, after the target copy was marked
       INVALID; -1 is returned otherwise; a WRITE access demotes every other valid copy to SHARED.
R26.d  end_transfer: READ makes the target SHARED, WRITE makes it OWNED, WRITE last (read-write ends
       OWNED); the combined call runs start and end under the data lock.
"""
from sa.facts import AnalysisBroken, cond_atom, lockset_analysis
from sa.tables import BASE_LOCKS
from rules import gencommon as gc

U = 'parsec/data.c'
STATES = ('PARSEC_DATA_COHERENCY_INVALID', 'PARSEC_DATA_COHERENCY_SHARED', 'PARSEC_DATA_COHERENCY_EXCLUSIVE', 'PARSEC_DATA_COHERENCY_OWNED')


def mode_guard(f, point, flag):
    """truth of (FLAG & access_mode) among the dominating branch outcomes, or None"""
    for a, t, b in f.guards(point):
        if a.k == 'bin' and a.op == '&' and 'access_mode' in a.s and flag in gc.macro_names(f, a):
            return t
    return None


def run(ctx):
    ctx.explanation = ('Clause level (weak): the case analysis of start_transfer is exhaustive and requests a transfer only when the target copy is not up to date '
                       'by its state (R26.a); reader/owner bookkeeping happens on every path under exactly the access bits (R26.b); the returned source and the '
                       'INVALID marking go together, a write demotes the other copies (R26.c); end_transfer installs SHARED/OWNED from the access bits and the '
                       'combined call is atomic under the data lock (R26.d).')
    ctx.not_decided = 'that the copy named as source holds the newest version (version arithmetic over histories); at-most-one-owner over sequences of calls.'
    u = ctx.extract(U)
    ra = ctx.rule('R26.a', 'start_transfer: exhaustive state switch; transfer requested only for a stale target; never without READ', floor=4)
    rb = ctx.rule('R26.b', 'readers++ iff READ, owner_device = device iff WRITE, on every path to a return', floor=3)
    rc = ctx.rule('R26.c', 'source returned only with transfer_required after marking the target INVALID; WRITE demotes other valid copies', floor=4)
    rd = ctx.rule('R26.d', 'end_transfer installs SHARED / OWNED; combined call under the data lock', floor=4)
    f = u.func('parsec_data_start_transfer_ownership_to_copy')
    if f is None:
        raise AnalysisBroken('parsec_data_start_transfer_ownership_to_copy not found')
    ctx.functions_analysed.add(f.name)
    data = f.params[0]['n']; dev = f.params[1]['n']
    # ---- R26.a
    sw = [n for n in f.ast_walk() if f.nodes[n]['k'] == 'switch']
    oksw = len(sw) == 1 and f.expr(f.nodes[sw[0]]['cond']).s == 'copy->coherency_state'
    cases = set()
    if oksw:
        for n in f.ast_walk(sw[0]):
            if f.nodes[n]['k'] == 'case':
                for c in f.nodes[n].get('ch', [])[:1]:
                    cases |= gc.macro_names(f, f.expr(c)) if c is not None and c >= 0 else set()
                v = f.nodes[n].get('val')
                if v is not None and isinstance(v, int) and v >= 0:
                    cases |= gc.macro_names(f, f.expr(v))
    if not cases and oksw:
        # fall back on the enumerator references of the case labels
        for n in f.ast_walk(sw[0]):
            if f.nodes[n]['k'] == 'case':
                for x in f.ast_children(n)[:1]:
                    e = f.expr(x)
                    cases |= {r.n for r in e.walk() if r.k == 'ref'} | ({e.n} if e.k == 'int' and e.n else set())
    ra.expect(oksw and set(STATES) <= cases, 'start:switch-exhaustive', f.loc(sw[0]) if sw else f.where(),
              'the state switch of start_transfer must handle INVALID, SHARED, EXCLUSIVE and OWNED (found %s)' % sorted(cases), note='switch over the 4 coherency states')
    tr1 = [s_ for s_ in f.stores('transfer_required') if s_.rhs is not None and s_.rhs.cv == 1]
    tr0 = [s_ for s_ in f.stores('transfer_required') if s_.rhs is not None and s_.rhs.cv == 0]
    def case_of(s_):
        for a, t, b in f.guards(s_.point):
            pass
        labs = []
        for b in f.blocks:
            for succ, lab in f.succs(b):
                if isinstance(lab, tuple) and lab[0] == 'case' and f.edge_dominates(b, lab, s_.point):
                    labs.append(lab[1])
        return labs
    inv = [s_ for s_ in tr1 if not [g for g in f.guards(s_.point) if 'version' in g[0].s]]
    shr = [s_ for s_ in tr1 if [g for g in f.guards(s_.point) if 'version' in g[0].s]]
    ra.expect(len(tr1) == 2 and len(inv) == 1 and len(shr) == 1, 'start:request-sites', f.where(),
              'a transfer may be requested at two places only: for an INVALID target, and for a SHARED target older than the OWNED copy (found %d)' % len(tr1),
              note='two request sites')
    if shr:
        g = f.guards(shr[0].point)
        okv = any(a.k == 'bin' and a.op == '>' and a.ch[0].s.endswith('->version') and a.ch[1].s == 'copy->version' and t is True for a, t, _ in g) and \
            any('PARSEC_DATA_COHERENCY_OWNED' in gc.macro_names(f, a) and a.op == '==' and t is True for a, t, _ in g if a.k == 'bin')
        ra.expect(okv, 'start:shared-needs-newer-owned', shr[0].loc, 'a SHARED target needs a transfer exactly when another copy is OWNED with a strictly newer version',
                  note='SHARED target: transfer iff an OWNED copy is strictly newer')
    ra.expect(len(tr0) == 2 and any(mode_guard(f, s_.point, 'PARSEC_FLOW_ACCESS_READ') is False for s_ in tr0), 'start:no-read-no-transfer', f.where(),
              'an access that does not read must not request a transfer (the copy is overwritten)', note='no READ: no transfer')
    # ---- R26.b
    rets = f.returns()
    inc = [e for e in f.events() if e.kind == 'call' and e.fn and e.fn.startswith('parsec_atomic_fetch_inc') and 'readers' in e.e.s]
    own = [s_ for s_ in f.stores('%s->owner_device' % data) if s_.rhs is not None and s_.rhs.s == dev]
    okb = len(inc) == 1 and mode_guard(f, inc[0].point, 'PARSEC_FLOW_ACCESS_READ') is True and 'copy->readers' in inc[0].e.s
    rb.expect(okb, 'start:readers', inc[0].loc if inc else f.where(), 'the target copy gains one reader exactly when the access reads', note='readers++ iff READ')
    oko = len(own) == 1 and mode_guard(f, own[0].point, 'PARSEC_FLOW_ACCESS_WRITE') is True
    rb.expect(oko, 'start:owner', own[0].loc if own else f.where(), 'the device becomes the owner exactly when the access writes', note='owner_device = device iff WRITE')
    # ownership is given up (owner_device = -1) only on account of the target's own copy being the OWNED one: a reader must never
    # strip the ownership of another device, whose copy stays OWNED and is found through owner_device by the next access
    rel = [s_ for s_ in f.stores('%s->owner_device' % data) if s_.rhs is not None and (s_.rhs.cv == -1 or s_.rhs.s == '-1')]
    tgt = [s_ for s_ in f.stores() if s_.lhs.k == 'ref' and s_.rhs is not None and s_.rhs.s == '%s->device_copies[%s]' % (data, dev)]
    tname = tgt[0].lhs.s if len(tgt) == 1 else None
    for s_ in rel:
        def own_copy_owned(a, t):
            return t is True and a.k == 'bin' and a.op == '==' and any(x.s == '%s->coherency_state' % tname for x in a.ch) and 'PARSEC_DATA_COHERENCY_OWNED' in (gc.macro_names(f, a) | {x.s for x in a.ch})
        rb.expect(tname is not None and f.guarded_by(s_.point, own_copy_owned) and mode_guard(f, s_.point, 'PARSEC_FLOW_ACCESS_WRITE') is False, 'start:owner-release', s_.loc,
                  'owner_device may be reset to -1 only when the copy of the requesting device itself is the OWNED one and the access does not write: a read by another device must leave the owner in place (its copy stays OWNED and later accesses locate it through owner_device)',
                  note='owner_device = -1 only for an OWNED target copy on a read-only access')
    # both tests are on every path to every return: the blocks holding the READ/WRITE tests of the bookkeeping dominate all returns
    okall = False
    if okb and oko:
        def test_block(ev, flag):
            for a, t, b in f.guards(ev.point):
                if a.k == 'bin' and a.op == '&' and flag in gc.macro_names(f, a):
                    return b
        b1 = test_block(inc[0], 'PARSEC_FLOW_ACCESS_READ'); b2 = test_block(own[0], 'PARSEC_FLOW_ACCESS_WRITE')
        okall = bool(rets) and all(f.dominates((b1, 0), r.point) and f.dominates((b2, 0), r.point) for r in rets)
    rb.expect(okall, 'start:bookkeeping-all-paths', f.where(), 'every return of start_transfer (the "already owner" shortcut included) must pass through the reader / owner bookkeeping',
              note='bookkeeping dominates every return')
    # ---- R26.c
    pos = [r for r in rets if r.e is not None and r.e.cv != -1]
    neg = [r for r in rets if r.e is not None and r.e.cv == -1]
    okr = len(pos) == 1 and len(neg) == 1 and pos[0].e.s == 'valid_copy' and f.guarded_by(neg[0].point, lambda a, t: a.s == 'transfer_required' and t is False) \
        and f.guarded_by(pos[0].point, lambda a, t: a.s == 'transfer_required' and t is True)
    rc.expect(okr, 'start:returns', f.where(), 'start_transfer must return -1 when no transfer is required and the source device otherwise', note='-1 iff no transfer, else the source')
    mk = [s_ for s_ in f.stores('copy->coherency_state') if 'PARSEC_DATA_COHERENCY_INVALID' in gc.macro_names(f, s_.rhs)]
    rc.expect(len(mk) == 1 and bool(pos) and f.precedes(mk[0], pos[0]) and f.guarded_by(mk[0].point, lambda a, t: a.s == 'transfer_required' and t is True), 'start:target-invalid',
              mk[0].loc if mk else f.where(), 'when a transfer is required the target copy must be marked INVALID before the source is returned (and only then)',
              note='target INVALID until the transfer ends')
    dem = [s_ for s_ in f.events() if s_.kind == 'store' and s_.lhs.s.endswith('->coherency_state') and 'device_copies[' in s_.lhs.s
           and 'PARSEC_DATA_COHERENCY_SHARED' in gc.macro_names(f, s_.rhs) and mode_guard(f, s_.point, 'PARSEC_FLOW_ACCESS_WRITE') is True]
    okd = len(dem) == 1
    if okd:
        g = f.guards(dem[0].point)
        # INVALID is 0: "INVALID == state -> continue" folds to the outcome (state, True)
        okd = any(a.s.endswith(']->coherency_state') and t is True for a, t, _ in g) and any(a.s.startswith('%s->device_copies[' % data) and a.s.endswith(']') and t is True for a, t, _ in g)
    rc.expect(okd, 'start:write-demotes', dem[0].loc if dem else f.where(), 'a WRITE access must turn every other existing, valid copy into SHARED', note='WRITE: other valid copies -> SHARED')
    # the staleness decision (the switch) looks at the states of the other copies: it must be taken before this access changes any of them
    if sw:
        swb = None
        for b in f.blocks:
            if f.blocks[b].get('term') == sw[0] or (f.blocks[b].get('cond') is not None and f.expr(f.blocks[b]['cond']).s == 'copy->coherency_state' and f.term_kind(b) == 'switch'):
                swb = b
        others = [s_ for s_ in f.events() if s_.kind == 'store' and s_.lhs.s.endswith('->coherency_state') and 'device_copies[' in s_.lhs.s]
        early = [s_ for s_ in others if swb is not None and f.reaches(s_.point, (swb, 0), acyclic=True)]
        rc.expect(swb is not None and bool(others) and not early, 'start:decide-before-demote', (early or others or [None])[0].loc if (early or others) else f.where(),
                  'start_transfer changes the coherency state of other copies before it has decided (switch on the target state) whether the target is stale: an OWNED newer copy demoted first is no longer seen and the stale target becomes the owner',
                  note='staleness decided on the states as found, before any copy is demoted')
    vs = [s_ for s_ in f.stores('valid_copy')]
    rc.expect(all((s_.rhs.s == '%s->owner_device' % data) or (s_.rhs.s == 'i' and f.guarded_by(s_.point, lambda a, t: a.s.endswith(']->coherency_state') and t is True)) for s_ in vs) and len(vs) == 2,
              'start:source-valid', f.where(), 'the source is the owner device or, without owner, a copy that is not INVALID', note='source = owner, else a valid copy')
    # the recorded owner holds the newest version: another valid copy may only be chosen when there is no owner (-1)
    scan = [s_ for s_ in vs if s_.rhs is not None and s_.rhs.s != '%s->owner_device' % data]
    def no_owner(a, t):
        return t is True and a.k == 'bin' and a.op == '==' and {a.ch[0].s, a.ch[1].s} >= {'valid_copy'} and any((x.cv == -1) or (x.k == 'un' and x.op == '-' and x.ch[0].cv == 1) for x in a.ch)
    rc.expect(bool(scan) and all(f.guarded_by(s_.point, no_owner) for s_ in scan), 'start:source-owner-first', scan[0].loc if scan else f.where(),
              'a copy other than the owner\'s may become the transfer source only when no owner is recorded (valid_copy == -1): a SHARED copy can be older than the OWNED one, the owner holds the newest version',
              note='another valid copy is the source only when there is no owner')
    # ---- R26.d
    g = u.func('parsec_data_end_transfer_ownership_to_copy')
    if g is None:
        raise AnalysisBroken('parsec_data_end_transfer_ownership_to_copy not found')
    ctx.functions_analysed.add(g.name)
    st = g.stores('copy->coherency_state')
    sh = [s_ for s_ in st if 'PARSEC_DATA_COHERENCY_SHARED' in gc.macro_names(g, s_.rhs) and mode_guard(g, s_.point, 'PARSEC_FLOW_ACCESS_READ') is True]
    ow = [s_ for s_ in st if 'PARSEC_DATA_COHERENCY_OWNED' in gc.macro_names(g, s_.rhs) and mode_guard(g, s_.point, 'PARSEC_FLOW_ACCESS_WRITE') is True]
    rd.expect(len(st) == 2 and len(sh) == 1 and len(ow) == 1, 'end:states', g.where(), 'end_transfer must make the target SHARED on READ and OWNED on WRITE, nothing else', note='READ -> SHARED, WRITE -> OWNED')
    rd.expect(len(sh) == 1 and len(ow) == 1 and g.reaches(sh[0].point, ow[0].point) and not g.reaches(ow[0].point, sh[0].point), 'end:write-last', g.where(),
              'a read-write access must end OWNED: the WRITE assignment comes after the READ one', note='read-write ends OWNED')
    cps = g.stores('copy')
    rd.expect(len(cps) == 1 and cps[0].rhs.s == '%s->device_copies[%s]' % (g.params[0]['n'], g.params[1]['n']),
              'end:target', g.where(), 'end_transfer must act on the copy of the requested device', note='acts on device_copies[device]')
    w = u.func('parsec_data_transfer_ownership_to_copy')
    if w is None:
        raise AnalysisBroken('parsec_data_transfer_ownership_to_copy not found')
    ctx.functions_analysed.add(w.name)
    ls = lockset_analysis(w, BASE_LOCKS)
    c1 = w.calls(f.name); c2 = w.calls(g.name)
    okw = len(c1) == 1 and len(c2) == 1 and w.precedes(c1[0], c2[0]) and all(any(l.endswith('->lock') for l in (ls.must_before(c) or ())) for c in (c1[0], c2[0])) \
        and all(not may for _, must, may, _ in ls.exits()) and [a.s for a in c1[0].args] == [a.s for a in c2[0].args]
    rd.expect(okw, 'transfer:atomic', w.where(), 'the combined call must run start then end with the same arguments under the data lock and release it', note='start + end under data->lock')
