"""C06 — wait and completion calls return exactly when the work is done (parsec/scheduling.c)."""
from sa import aff, tables, pathq
from sa.facts import cond_atom, AnalysisBroken, field_accesses

UNIT = 'parsec/scheduling.c'
QUICK_UNITS = ['parsec/scheduling.c', 'parsec/parsec.c', 'parsec/interfaces/dtd/insert_function.c', 'parsec/compound.c',
               'parsec/mca/termdet/local/termdet_local_module.c']
# (function, kind) allowed to modify parsec_context_t.active_taskpools — confirmed by reading
WRITERS = {
    ('parsec_init', 'store'): 'construction of the context',
    ('parsec_context_add_taskpool', 'atomic:parsec_atomic_fetch_inc_int32'): 'one unit per enqueued taskpool',
    ('parsec_context_start', 'atomic:parsec_atomic_fetch_inc_int32'): 'extra unit held until parsec_context_wait',
    ('parsec_context_wait', 'atomic:parsec_atomic_fetch_dec_int32'): 'drops the unit taken by context_start',
    ('parsec_context_wait', 'atomic:parsec_atomic_fetch_inc_int32'): 'restores the unit on the not-started error path',
    ('parsec_taskpool_termination_detected', 'atomic:parsec_atomic_fetch_dec_int32'): 'one unit per terminated taskpool',
    ('parsec_dtd_taskpool_leave_wait', 'atomic:parsec_atomic_fetch_inc_int32'): 'DTD taskpool re-attached after a taskpool wait',
}


def q_active(unit):
    out = []
    for f in unit.funcs().values():
        for ac in field_accesses(f, ('active_taskpools',)):
            if ac.kind != 'load':
                out.append((f.name, ac.kind, ac.ev.loc))
        for e in f.calls():
            if e.fn is None and e.callee is not None and e.callee.k == 'mem' and e.callee.n == 'on_complete':
                out.append((f.name, 'call:on_complete', e.loc))
    return out


def run(ctx):
    ctx.explanation = ('Static clauses: (a) the normal return of __parsec_taskpool_wait is reachable only through the exit edge of the loop testing taskpool_state != TERMINATED, and the normal '
                       'return of __parsec_context_wait only through the all_tasks_done exit edge or the finalisation branch; all_tasks_done is active_taskpools == 0; (b) active_taskpools is '
                       'modified only by the atomic inc/dec of a frozen writer table; (c) in parsec_taskpool_termination_detected the user callback precedes the decrement, in add_taskpool the '
                       'increment precedes startup_hook and scheduling, in context_wait the post-value of the decrement is tested and restored on error; (d) on_complete is invoked from one function only.')
    ctx.not_decided = 'multi-epoch histories and taskpools added from callbacks; that termination_detected is reached exactly once per taskpool (C10).'
    u = ctx.extract(UNIT)
    ra = ctx.rule('R06.a', 'wait loops can only be left through the termination / all-done exit edge', floor=3)
    rb = ctx.rule('R06.b', 'active_taskpools written only by the frozen writer table', floor=6)
    rc = ctx.rule('R06.c', 'callback before decrement; increment before startup; post-value tested in context_wait', floor=4)
    rd = ctx.rule('R06.d', 'on_complete invoked from exactly one function', floor=1)

    # ---- (a)
    f = u.func('__parsec_taskpool_wait'); ctx.functions_analysed.add(f.name)
    rets = [r for r in f.returns() if not (r.e is not None and r.e.cv is not None and r.e.cv < 0)]
    if not rets:
        raise AnalysisBroken('__parsec_taskpool_wait: no normal return')
    def is_state_test(c):
        atom, pol = cond_atom(c)
        if atom.k == 'bin' and atom.op in ('!=', '=='):
            l, r = atom.ch
            call, k = (l, r) if l.k == 'call' else (r, l)
            if call.k == 'call' and call.n is None and call.extra is not None and call.extra.k == 'mem' and call.extra.n == 'taskpool_state' and k.s == 'PARSEC_TERM_TP_TERMINATED':
                return atom.op, pol
        return None
    exit_edges = []
    for bid in f.blocks:
        c = f.cond(bid)
        if c is None:
            continue
        t = is_state_test(c)
        if t is not None and f.term_kind(bid) in ('while', 'for', 'do'):
            op, pol = t
            # edge on which state == TERMINATED
            term_label = (op == '==') if pol else (op != '==')
            exit_edges.append((bid, term_label))
    for r in rets:
        ok = bool(exit_edges) and not f.reachable_without_edges(r.block, exit_edges)
        ra.expect(ok, 'taskpool_wait:early-return', r.loc, '__parsec_taskpool_wait can return %s without having observed taskpool_state == TERMINATED' % (r.e.s if r.e else ''),
                  note='return only via state == TERMINATED exit edge')
    f = u.func('__parsec_context_wait'); ctx.functions_analysed.add(f.name)
    rets = [r for r in f.returns() if not (r.e is not None and r.e.cv is not None and r.e.cv < 0)]
    edges = []
    for bid in f.blocks:
        c = f.cond(bid)
        if c is None:
            continue
        atom, pol = cond_atom(c)
        if atom.k == 'call' and atom.n == 'all_tasks_done' and f.term_kind(bid) in ('while', 'for', 'do'):
            edges.append((bid, True if pol else False))
        if atom.k == 'mem' and atom.n == '__parsec_internal_finalization_in_progress':
            edges.append((bid, True if pol else False))
    n_done = len([e for e in edges])
    for r in rets:
        ok = n_done >= 2 and not f.reachable_without_edges(r.block, edges)
        ra.expect(ok, 'context_wait:early-return', r.loc, '__parsec_context_wait can return without all_tasks_done() (and outside finalisation)', note='return only via all_tasks_done exit edge or finalisation')
    g = u.func('all_tasks_done')
    rr = g.returns()
    ok = len(rr) == 1 and rr[0].e.k == 'bin' and rr[0].e.op == '==' and {rr[0].e.ch[0].s.split('->')[-1], rr[0].e.ch[1].s} >= {'active_taskpools', '0'}
    ra.expect(ok, 'all_tasks_done:shape', g.where(), 'all_tasks_done must be active_taskpools == 0 (found %s)' % (rr[0].e.s if rr else '?'), note='all_tasks_done = (active_taskpools == 0)')

    # ---- (b) + (d)
    if ctx.tier == 'thorough':
        srcs = ctx.all_units()
    else:
        srcs = QUICK_UNITS
    hits = ctx.scan(srcs, q_active)
    seen_writers = set()
    for fn, kind, loc in hits:
        if kind == 'call:on_complete':
            rd.expect(fn == 'parsec_taskpool_termination_detected', 'on_complete:caller:%s' % fn, loc, 'on_complete invoked from %s (only parsec_taskpool_termination_detected may)' % fn,
                      note='on_complete called from parsec_taskpool_termination_detected')
            continue
        seen_writers.add((fn, kind))
        rb.expect((fn, kind) in WRITERS, 'writer:%s:%s' % (fn, kind), loc, '%s modifies active_taskpools (%s) — not in the reviewed writer table' % (fn, kind),
                  note='%s %s: %s' % (fn, kind, WRITERS.get((fn, kind), '')))

    # ---- (c)
    f = u.func('parsec_taskpool_termination_detected'); ctx.functions_analysed.add(f.name)
    cbs = [e for e in f.calls() if e.fn is None and e.callee is not None and e.callee.k == 'mem' and e.callee.n == 'on_complete']
    decs = [e for e in f.calls('parsec_atomic_fetch_dec_int32') if e.args[0].s.endswith('active_taskpools')]
    if not cbs or not decs:
        raise AnalysisBroken('termination_detected: callback or decrement anchor missing')
    rc.expect(len(decs) == 1 and f.postdominates(decs[0].point, (f.entry, 0)) and not f.in_loop(decs[0].block), 'detected:one-dec', decs[0].loc,
              'active_taskpools must be decremented exactly once on every path', note='one decrement per termination')
    for cb in cbs:
        rc.expect(not f.reaches(decs[0].point, cb.point) and f.reaches(cb.point, decs[0].point), 'detected:cb-after-dec', cb.loc,
                  'completion callback may run after active_taskpools was decremented (context_wait could already have returned)', note='on_complete precedes the decrement')
    f = u.func('parsec_context_add_taskpool'); ctx.functions_analysed.add(f.name)
    incs = [e for e in f.calls('parsec_atomic_fetch_inc_int32') if e.args[0].s.endswith('active_taskpools')]
    hooks = [e for e in f.calls() if e.fn is None and e.callee is not None and e.callee.k == 'mem' and e.callee.n == 'startup_hook'] + f.calls('__parsec_schedule_vp')
    if len(incs) != 1 or not hooks:
        raise AnalysisBroken('add_taskpool: increment/startup anchors missing')
    rc.expect(f.postdominates(incs[0].point, (f.entry, 0)) and all(f.precedes(incs[0], h) for h in hooks), 'add_taskpool:inc-order', incs[0].loc,
              'active_taskpools must be incremented before startup_hook / scheduling of startup tasks', note='increment precedes startup_hook and __parsec_schedule_vp')
    f = u.func('parsec_context_wait'); ctx.functions_analysed.add(f.name)
    n = 0
    for pi in pathq.all_paths(f):
        w = pi.calls('__parsec_context_wait')
        d = [(e, v) for e, v in pi.calls('parsec_atomic_fetch_dec_int32') if e.args[0].s.endswith('active_taskpools')]
        i = [(e, v) for e, v in pi.calls('parsec_atomic_fetch_inc_int32') if e.args[0].s.endswith('active_taskpools')]
        rev, rexp = pi.ret()
        if w:
            n += 1
            ok = len(d) == 1 and not i and pi.index(d[0][0]) < pi.index(w[0][0])
            if ok:
                pv = tables.post_value(d[0][0].e.subst(d[0][1]))
                neg = pathq.assumed(pi, '<', pv, aff.Poly.const(0))
                ok = neg is False
            rc.expect(ok, 'context_wait:dec', w[0][0].loc, 'context_wait must drop its unit (post-value tested non-negative) before waiting', note='dec (post-value >= 0) then __parsec_context_wait')
        elif d:
            n += 1
            rc.expect(len(i) == len(d) == 1, 'context_wait:restore', rev.loc if rev else f.where(), 'error path of context_wait must restore active_taskpools', note='error path: dec then inc (restore)')
    if n == 0:
        raise AnalysisBroken('parsec_context_wait: no path analysed')
