/* Positive control for R34.a / R34.c (never compiled into anything): the forbidden constructs the
 * zero-expected rules must flag on every run. */
#include "parsec/parsec_config.h"
#include "parsec/class/parsec_object.h"

void c34_control_plain_decrement(parsec_object_t *o)
{
    o->obj_reference_count--;                 /* plain RMW: forbidden */
}

void c34_control_plain_store(parsec_object_t *o)
{
    o->obj_reference_count = 0;               /* plain store of something else than the initial 1: forbidden */
}

void c34_control_unguarded_release(parsec_object_t *o)
{
    parsec_obj_update(o, -1);
    o->obj_release(o);                        /* release not guarded by the zero test: forbidden */
}

void c34_control_discarded_decrement(parsec_object_t *o)
{
    (void)parsec_atomic_fetch_dec_int32(&o->obj_reference_count);   /* result discarded: forbidden */
}
