/* positive control for R24.d: must be recognised on every run (never part of the build) */
#include <stdio.h>
#include <time.h>
static void coutput(const char *fmt, ...);
void c24_control(void *p)
{
    coutput("/* generated at %ld */\n", (long)time(NULL));
    fprintf(stderr, "%p\n", p);
}
