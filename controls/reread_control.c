/* Positive control for the decide-on-re-read rule (rules/reread.py; never compiled into anything). */
#include "parsec/parsec_config.h"
#include "parsec/sys/atomic.h"
#include <stdint.h>

struct reread_control_s { int32_t count; int done; };

int reread_control_decides_on_reread(struct reread_control_s *s)
{
    (void)parsec_atomic_fetch_dec_int32(&s->count);   /* the post-value is thrown away ... */
    if( 0 == s->count ) {                              /* ... and the decision is taken on a second read: forbidden */
        s->done = 1;
        return 1;
    }
    return 0;
}

int reread_control_decides_on_result(struct reread_control_s *s)
{
    if( 0 == parsec_atomic_fetch_dec_int32(&s->count) - 1 ) {   /* accepted */
        s->done = 1;
        return 1;
    }
    return 0;
}
