#!/bin/sh
# Builds the fact extractor (clang 14 LibTooling) from files on disk only.
set -e
cd "$(dirname "$0")"
clang++ $(llvm-config-14 --cxxflags) -fno-rtti -O1 sa/extract.cc -o sa/extract \
   /usr/lib/llvm-14/lib/libclang-cpp.so.14 /usr/lib/llvm-14/lib/libLLVM-14.so
echo "extractor built: $(pwd)/sa/extract"
