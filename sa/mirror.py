"""A-mir: canonical form of statements / expressions modulo local-variable renaming and a token swap
(left<->right ...), conjunction / disjunction operands compared as sets."""


class Canon:
    def __init__(self, func, swap=None, patterns=None):
        self.f = func; self.swap = swap or {}
        self.names = {}
        self.patterns = patterns or []

    def name(self, n):
        if n not in self.names:
            self.names[n] = 'v%d' % len(self.names)
        return self.names[n]

    def fn(self, n):
        return self.swap.get(n, n)

    def expr(self, e):
        if e is None:
            return None
        k = e.k
        if k == 'int':
            return ('int', e.cv)
        if k == 'str':
            return ('str', e.n)
        if k == 'ref':
            if e.dk in ('var', 'parm', 'svar'):
                return ('v', self.name(e.n))
            if e.dk == 'fn':
                return ('fn', self.fn(e.n))
            return ('g', self.fn(e.n))
        if k == 'mem':
            return ('mem', e.op, self.fn(e.n), self.expr(e.ch[0]))
        if k == 'idx':
            return ('idx', self.expr(e.ch[0]), self.expr(e.ch[1]))
        if k == 'un':
            return ('un', e.op, self.expr(e.ch[0]))
        if k in ('bin', 'asg'):
            if e.op in ('&&', '||'):
                ops = []
                def flat(x):
                    if x.k == 'bin' and x.op == e.op:
                        flat(x.ch[0]); flat(x.ch[1])
                    else:
                        ops.append(x)
                flat(e)
                # operands as a set; variables must be numbered in a traversal order that does not depend on
                # the operand order: number them in the order given, then sort the results
                return (e.op, tuple(sorted((self.expr(o) for o in ops), key=repr)))
            return (k, e.op, self.expr(e.ch[0]), self.expr(e.ch[1]))
        if k == 'cond':
            return ('?:',) + tuple(self.expr(c) for c in e.ch[:3])
        if k == 'call':
            callee = ('fn', self.fn(e.n)) if e.n else self.expr(e.extra)
            return ('call', callee, tuple(self.expr(a) for a in e.ch))
        if k == 'init':
            return ('init', tuple(self.expr(c) for c in e.ch))
        return (k,)

    def stmt(self, nid):
        f = self.f
        if nid is None or nid < 0:
            return None
        n = f.nodes[nid]
        k = n['k']
        if k == 'compound':
            return ('{', tuple(self.stmt(c) for c in n.get('ch', []) if c >= 0))
        if k == 'if':
            if self.patterns:
                for pat in self.patterns:
                    r = pat(self, f, n)
                    if r is not None:
                        return r
            return ('if', self.expr(f.expr(n['cond'])), self.stmt(n['then']), self.stmt(n.get('else')) if 'else' in n else None)
        if k == 'while':
            return ('while', self.expr(f.expr(n['cond'])), self.stmt(n['body']))
        if k == 'do':
            return ('do', self.stmt(n['body']), self.expr(f.expr(n['cond'])))
        if k == 'for':
            return ('for', self.stmt(n.get('init')) if 'init' in n else None, self.expr(f.expr(n['cond'])) if 'cond' in n else None,
                    self.expr(f.expr(n['inc'])) if 'inc' in n else None, self.stmt(n['body']))
        if k == 'decl':
            out = []
            for v in n.get('vars', []):
                init = self.expr(f.expr(v['init'])) if 'init' in v else None
                out.append((self.name(v['n']), init))
            return ('decl', tuple(out))
        if k == 'ret':
            ch = n.get('ch', [])
            return ('ret', self.expr(f.expr(ch[0])) if ch and ch[0] >= 0 else None)
        if k in ('break', 'continue', 'nullstmt'):
            return (k,)
        if k == 'goto':
            return ('goto', n.get('n'))
        if k == 'label':
            return ('label', n.get('n'), self.stmt(n.get('sub')))
        if k in ('switch',):
            return ('switch', self.expr(f.expr(n['cond'])), self.stmt(n['body']))
        if k in ('case',):
            return ('case', self.expr(f.expr(n['val'])), self.stmt(n['sub']))
        if k == 'default':
            return ('default', self.stmt(n['sub']))
        if k == 'attributed':
            return self.stmt(n.get('sub'))
        # expression statement
        return ('e', self.expr(f.expr(nid)))


def canon_stmt(func, nid, swap=None, seed_names=(), patterns=None):
    c = Canon(func, swap, patterns)
    for s in seed_names:
        c.name(s)
    return c.stmt(nid)


def first_diff(a, b, path=''):
    """human-readable location of the first structural difference"""
    if a == b:
        return None
    if isinstance(a, tuple) and isinstance(b, tuple) and len(a) == len(b):
        for i, (x, y) in enumerate(zip(a, b)):
            d = first_diff(x, y, path + '/%d' % i)
            if d:
                return d
    return '%s: %r  vs  %r' % (path, a if not isinstance(a, tuple) or len(repr(a)) < 160 else repr(a)[:160], b if not isinstance(b, tuple) or len(repr(b)) < 160 else repr(b)[:160])
