"""Single-path symbolic substitution of locals (reaching definitions along one path)."""
from .facts import E, Event


def fresh(name, tag):
    return E('ref', n='%s@%s' % (name, tag), dk='sym')


def symexec(func, path, env0=None, inliner=None, depth=0):
    """Returns list of (event, env) where env maps the rendering of a local variable to
    the expression (over parameters, memory reads and call results) it holds *before* the
    event.  Assume pseudo-events carry the substituted condition in ev.rhs.
    inliner(ev, env, depth) may return a list of (event, env) steps of the callee to splice
    in right after the call event (events of the callee are expressed over the caller's values)."""
    env = dict(env0 or {})
    out = []
    for ev in func.path_events(path):
        if ev.kind == 'loophead':
            # the path stands for an arbitrary iteration: loop-carried locals are unknown here
            for v in ev.args:
                env[v] = fresh(v, 'loop%d' % ev.block)
            continue
        out.append((ev, dict(env)))
        if ev.kind == 'store' and ev.lhs.k == 'ref' and ev.lhs.dk in ('var', 'parm', 'svar'):
            name = ev.lhs.s
            if ev.op == '=':
                env[name] = ev.rhs.subst(env)
            elif ev.op in ('++', '--'):
                old = env.get(name, ev.lhs)
                env[name] = E('bin', op='+' if ev.op == '++' else '-', ch=[old, E('int', cv=1)])
            else:
                old = env.get(name, ev.lhs)
                env[name] = E('bin', op=ev.op[:-1], ch=[old, ev.rhs.subst(env)])
        elif ev.kind == 'call':
            for a in ev.args or ():
                if a.k == 'un' and a.op == '&' and a.ch[0].k == 'ref':
                    env[a.ch[0].s] = fresh(a.ch[0].s, 'out%d' % ev.nid)
            if inliner is not None:
                sub = inliner(ev, out[-1][1], depth)
                if sub:
                    out.extend(sub)
    return out


def resolve(e, env):
    return e.subst(env) if e is not None else None
