"""Single-path symbolic substitution of locals (reaching definitions along one path)."""
from .facts import E, Event


def fresh(name, tag):
    return E('ref', n='%s@%s' % (name, tag), dk='sym')


def _rebuild(e, ch, extra):
    ne = E(e.k, e.op, ch, e.n, e.cv, e.nid, e.rec, e.dk, e.did, e.ty, extra)
    if ne.k in ('bin', 'un', 'cond') and any(c is not o for c, o in zip(ch, e.ch)):
        ne.cv = None
    return ne


def resolve(e, env):
    """Value of expression e in the state env: locals are replaced by the (already resolved) values they
    hold; when the path is executed with track_mem, a read of a memory cell the path has written yields
    the written value, any other read stays symbolic and denotes the cell's INITIAL content.  Substituted
    values are final: they are never re-interpreted against later memory states."""
    if e is None:
        return None
    mem = env.get('__mem__') if isinstance(env, dict) else None
    if mem is None:
        return e.subst(env)

    def res(x):
        if x.k == 'ref':
            v = env.get(x.s)
            return v if v is not None and x.s != '__mem__' else x
        ch = [res(c) for c in x.ch]
        extra = res(x.extra) if isinstance(x.extra, E) else x.extra
        nx = _rebuild(x, ch, extra) if (any(c is not o for c, o in zip(ch, x.ch)) or extra is not x.extra) else x
        if nx.k in ('mem', 'idx') or (nx.k == 'un' and nx.op == '*'):
            v = mem.get(nx.s)
            if v is not None:
                return v
        return nx
    return res(e)


def symexec(func, path, env0=None, inliner=None, depth=0, track_mem=False):
    """Returns list of (event, env) where env maps the rendering of a local variable to
    the expression (over parameters, memory reads and call results) it holds *before* the
    event.  Assume pseudo-events carry the substituted condition in ev.rhs.
    inliner(ev, env, depth) may return a list of (event, env) steps of the callee to splice
    in right after the call event (events of the callee are expressed over the caller's values)."""
    env = dict(env0 or {})
    out = []
    for ev in func.path_events(path):
        if ev.kind == 'loophead':
            # the path stands for an arbitrary iteration: loop-carried locals are unknown here
            for v in ev.args:
                env[v] = fresh(v, 'loop%d' % ev.block)
            continue
        snap = dict(env)
        if track_mem:
            snap['__mem__'] = dict(env.get('__mem__', {}))
        out.append((ev, snap))
        if track_mem and ev.kind == 'store' and not (ev.lhs.k == 'ref' and ev.lhs.dk in ('var', 'parm', 'svar')):
            # strong update of a memory cell identified by its resolved lvalue (no aliasing between
            # syntactically different cells is assumed: the rule that asks for track_mem states why)
            mem = env.setdefault('__mem__', {})
            # the cell's address: pointer sub-expressions are evaluated in the current state (locals AND tracked memory)
            lh = ev.lhs
            if lh.ch:
                nch = [resolve(c, env) for c in lh.ch]
                key = _rebuild(lh, nch, lh.extra)
            else:
                key = lh
            old = mem.get(key.s, key)
            if ev.op == '=':
                val = resolve(ev.rhs, env)
            elif ev.op in ('++', '--'):
                val = E('bin', op='+' if ev.op == '++' else '-', ch=[old, E('int', cv=1)])
            else:
                val = E('bin', op=ev.op[:-1], ch=[old, resolve(ev.rhs, env)])
            mem = dict(mem); mem[key.s] = val
            env['__mem__'] = mem
            continue
        if ev.kind == 'store' and ev.lhs.k == 'ref' and ev.lhs.dk in ('var', 'parm', 'svar'):
            name = ev.lhs.s
            if ev.op == '=':
                env[name] = resolve(ev.rhs, env) if track_mem else ev.rhs.subst(env)
            elif ev.op in ('++', '--'):
                old = env.get(name, ev.lhs)
                env[name] = E('bin', op='+' if ev.op == '++' else '-', ch=[old, E('int', cv=1)])
            else:
                old = env.get(name, ev.lhs)
                env[name] = E('bin', op=ev.op[:-1], ch=[old, ev.rhs.subst(env)])
        elif ev.kind == 'call':
            for a in ev.args or ():
                if a.k == 'un' and a.op == '&' and a.ch[0].k == 'ref':
                    env[a.ch[0].s] = fresh(a.ch[0].s, 'out%d' % ev.nid)
            if inliner is not None:
                sub = inliner(ev, out[-1][1], depth)
                if sub:
                    out.extend(sub)
    if depth == 0:
        # pseudo-event carrying the state AFTER the last event of the path
        end = Event('end')
        end.block = path[-1][0] if path else None; end.idx = 1 << 30; end.loc = func.where()
        snap = dict(env)
        if track_mem:
            snap['__mem__'] = dict(env.get('__mem__', {}))
        out.append((end, snap))
    return out

