"""A-aff: polynomial normal form of integer expressions over opaque atoms.
Purely syntactic normalisation; no solver.  %, /, <<, >>, &, |, comparisons, calls,
memory reads are opaque atoms built over the normal forms of their operands, so
`(a+b) % n` and `(b+a) % n` are the same atom."""
from .facts import E


class Poly:
    """sum of coeff * monomial ; monomial = sorted tuple of atom strings."""
    __slots__ = ('t',)

    def __init__(self, t=None):
        self.t = {k: v for k, v in (t or {}).items() if v != 0}

    @staticmethod
    def const(c):
        return Poly({(): c})

    @staticmethod
    def atom(s):
        return Poly({(s,): 1})

    def __add__(self, o):
        t = dict(self.t)
        for k, v in o.t.items():
            t[k] = t.get(k, 0) + v
        return Poly(t)

    def __neg__(self):
        return Poly({k: -v for k, v in self.t.items()})

    def __sub__(self, o):
        return self + (-o)

    def __mul__(self, o):
        t = {}
        for k1, v1 in self.t.items():
            for k2, v2 in o.t.items():
                k = tuple(sorted(k1 + k2))
                t[k] = t.get(k, 0) + v1 * v2
        return Poly(t)

    def is_const(self):
        return all(k == () for k in self.t)

    def const_value(self):
        return self.t.get((), 0) if self.is_const() else None

    def __eq__(self, o):
        return isinstance(o, Poly) and self.t == o.t

    def __hash__(self):
        return hash(self.key())

    def key(self):
        return tuple(sorted(self.t.items()))

    def __repr__(self):
        if not self.t:
            return '0'
        parts = []
        for k, v in sorted(self.t.items()):
            m = '*'.join(k)
            if not k:
                parts.append(str(v))
            elif v == 1:
                parts.append(m)
            elif v == -1:
                parts.append('-' + m)
            else:
                parts.append('%d*%s' % (v, m))
        return ' + '.join(parts).replace('+ -', '- ')

    def atoms(self):
        return {a for k in self.t for a in k}

    def coeff(self, atom):
        """coefficient of the degree-1 monomial (atom,) """
        return self.t.get((atom,), 0)


def norm(e, env=None, atomize=None):
    """E -> Poly.  env: {rendered lvalue: Poly or E} substitution for locals.
    atomize(e) may return a string to force e to be an opaque atom."""
    env = env or {}
    if atomize is not None:
        a = atomize(e)
        if a is not None:
            return Poly.atom(a)
    if e.s in env:
        v = env[e.s]
        return v if isinstance(v, Poly) else norm(v, env, atomize)
    if e.cv is not None and e.k in ('int', 'ref') and (e.k == 'int' or e.dk == 'enum'):
        return Poly.const(e.cv)
    k = e.k
    if k == 'bin':
        op = e.op
        l, r = e.ch
        if op == '+':
            return norm(l, env, atomize) + norm(r, env, atomize)
        if op == '-':
            return norm(l, env, atomize) - norm(r, env, atomize)
        if op == '*':
            return norm(l, env, atomize) * norm(r, env, atomize)
        if op == '<<':
            rp = norm(r, env, atomize)
            if rp.is_const() and 0 <= rp.const_value() < 62:
                return norm(l, env, atomize) * Poly.const(1 << rp.const_value())
        if op == ',':
            return norm(r, env, atomize)
        lp, rp = norm(l, env, atomize), norm(r, env, atomize)
        if lp.is_const() and rp.is_const():
            a, b = lp.const_value(), rp.const_value()
            try:
                v = {'/': lambda: int(a / b) if b else None, '%': lambda: a - b * int(a / b) if b else None,
                     '>>': lambda: a >> b, '&': lambda: a & b, '|': lambda: a | b, '^': lambda: a ^ b,
                     '==': lambda: int(a == b), '!=': lambda: int(a != b), '<': lambda: int(a < b),
                     '<=': lambda: int(a <= b), '>': lambda: int(a > b), '>=': lambda: int(a >= b),
                     '&&': lambda: int(bool(a) and bool(b)), '||': lambda: int(bool(a) or bool(b))}[op]()
                if v is not None:
                    return Poly.const(v)
            except KeyError:
                pass
        if op in ('&', '|', '^', '==', '!=', '&&', '||'):   # commutative: order operands
            a, b = sorted([repr(lp), repr(rp)])
            return Poly.atom('(%s %s %s)' % (a, op, b))
        if op in ('>', '>='):       # a > b  ==  b < a
            return Poly.atom('(%s %s %s)' % (repr(rp), '<' if op == '>' else '<=', repr(lp)))
        return Poly.atom('(%s %s %s)' % (repr(lp), op, repr(rp)))
    if k == 'un':
        if e.op == '-':
            return -norm(e.ch[0], env, atomize)
        if e.op == '+':
            return norm(e.ch[0], env, atomize)
        if e.op in ('!', '~'):
            return Poly.atom('%s(%s)' % (e.op, repr(norm(e.ch[0], env, atomize))))
        if e.op == '*':
            return Poly.atom('*(%s)' % repr(norm(e.ch[0], env, atomize)))
        if e.op == '&':
            return Poly.atom('&' + e.ch[0].s)
        return Poly.atom(e.s)
    if k == 'cond':
        c, a, b = e.ch
        return Poly.atom('(%s ? %s : %s)' % (repr(norm(c, env, atomize)), repr(norm(a, env, atomize)), repr(norm(b, env, atomize))))
    if k == 'call':
        return Poly.atom('%s(%s)' % (e.n or ('(%s)' % (e.extra.s if e.extra is not None else '?')),
                                     ', '.join(repr(norm(a, env, atomize)) for a in e.ch)))
    if k == 'idx':
        return Poly.atom('%s[%s]' % (_lv(e.ch[0], env, atomize), repr(norm(e.ch[1], env, atomize))))
    if k == 'mem':
        return Poly.atom(_lv(e, env, atomize))
    return Poly.atom(e.s)


def _lv(e, env, atomize):
    if e.k == 'mem':
        return '%s%s%s' % (_lv(e.ch[0], env, atomize), e.op, e.n)
    if e.k == 'idx':
        return '%s[%s]' % (_lv(e.ch[0], env, atomize), repr(norm(e.ch[1], env, atomize)))
    if e.s in env:
        v = env[e.s]
        return repr(v) if isinstance(v, Poly) else _lv(v, env, atomize) if v.s != e.s else e.s
    return e.s


def same(a, b, env=None):
    return norm(a, env) == norm(b, env)
