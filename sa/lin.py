"""A-lin: linear-resource typestate for a ring / item pointer along enumerated paths.
owned --sink--> consumed ; consumed --source assignment--> owned ; owned at return = lost ;
sink while consumed = duplicated."""
from . import pathq
from .facts import AnalysisBroken

# leaf sinks: function -> index of the ring/item argument.  Reviewed against class/list.h,
# class/lifo.h, class/dequeue.h, hbbuffer.c (they link every element of the ring into the container).
LEAF_SINKS = {
    'parsec_list_chain_sorted': 1, 'parsec_list_chain_front': 1, 'parsec_list_chain_back': 1,
    'parsec_list_nolock_chain_sorted': 1, 'parsec_list_nolock_chain_front': 1, 'parsec_list_nolock_chain_back': 1,
    'parsec_list_push_sorted': 1, 'parsec_list_push_front': 1, 'parsec_list_push_back': 1,
    'parsec_list_nolock_push_sorted': 1, 'parsec_list_nolock_push_front': 1, 'parsec_list_nolock_push_back': 1,
    'parsec_dequeue_chain_front': 1, 'parsec_dequeue_chain_back': 1, 'parsec_dequeue_push_front': 1, 'parsec_dequeue_push_back': 1,
    'parsec_lifo_chain': 1, 'parsec_lifo_push': 1, 'parsec_lifo_nolock_push': 1, 'parsec_lifo_nolock_chain': 1,
    'parsec_hbbuffer_push_all': 1, 'parsec_hbbuffer_push_all_by_priority': 1,
    'lifo_chain_sorted': 1,          # sched_llp_module.c, push rule checked under C30
}
LEAF_SOURCES = {'parsec_list_nolock_unchain', 'parsec_list_unchain'}


def ring_aliases(name):
    return {name, '&%s->super' % name, '&%s->super.super' % name, '%s->super' % name}


def consumes_param(func, pidx, sinks, sources=LEAF_SOURCES, max_paths=4000):
    """Check that parameter #pidx of func is handed to exactly one sink on every path to a
    return.  Returns (ok, problems, npaths) ; problems = [(kind, loc, text)]."""
    pname = func.params[pidx]['n']
    problems = []
    npaths = 0
    for pi in pathq.all_paths(func, max_paths=max_paths):
        npaths += 1
        aliases = set(ring_aliases(pname))
        state = 'owned'
        for ev, env in pi.steps:
            if ev.kind == 'store' and ev.lhs.k == 'ref' and ev.op == '=' and ev.rhs is not None:
                r = ev.rhs
                if r.k == 'call' and r.n in sources:
                    # new ring obtained from a temporary container that consumed the old one
                    if state == 'consumed':
                        state = 'owned'
                        aliases = set(ring_aliases(ev.lhs.s))
                    else:
                        problems.append(('overwrite', ev.loc, 'ring variable %s overwritten while it still owns the ring' % ev.lhs.s))
                elif r.s in aliases:
                    aliases |= ring_aliases(ev.lhs.s)
                elif ev.lhs.s in aliases and ev.lhs.s == pname and state == 'owned' and not (r.k == 'call' and r.n in sources):
                    # parameter reassigned to something else while owning the ring
                    problems.append(('overwrite', ev.loc, 'ring %s overwritten by %s before being handed over' % (pname, r.s)))
            if ev.kind == 'call' and ev.fn in sinks:
                idx = sinks[ev.fn]
                if idx < len(ev.args) and ev.args[idx].s in aliases:
                    if state == 'consumed':
                        problems.append(('duplicate', ev.loc, 'ring handed to a second sink %s' % ev.fn))
                    state = 'consumed'
        rev, rexp = pi.ret()
        if state != 'consumed':
            problems.append(('lost', rev.loc if rev is not None else func.where(), 'a path reaches the return without handing the ring %s to any container' % pname))
    return (not problems, problems, npaths)


def wrapper_sinks(unit, base=None, rounds=3):
    """Grow the sink table with wrappers: functions of the unit one of whose pointer parameters is
    consumed (exactly one sink on every path)."""
    sinks = dict(base or LEAF_SINKS)
    for _ in range(rounds):
        grew = False
        for f in unit.funcs().values():
            if f.name in sinks:
                continue
            called = {e.fn for e in f.calls()}
            if not (called & set(sinks)):
                continue
            for i, p in enumerate(f.params):
                if '*' not in p.get('ty', ''):
                    continue
                try:
                    ok, probs, n = consumes_param(f, i, sinks, max_paths=400)
                except AnalysisBroken:
                    continue
                if ok and n:
                    sinks[f.name] = i; grew = True
                    break
        if not grew:
            break
    return sinks
