"""Queries over one symbolically-substituted path (A-path + reaching definitions)."""
from . import sym, aff, tables
from .facts import cond_atom, E


class Inliner:
    """Splices the events of small unit-local callees into caller paths (helper functions
    introduced by refactoring must not change what a path rule sees).  A callee is inlinable
    when it is defined in the unit, is not the caller itself, and has at most `max_paths`
    feasible paths; the product with the caller's paths is enumerated by all_paths()."""
    def __init__(self, unit, names=None, max_paths=6, max_depth=2, only_static=False):
        self.unit = unit; self.names = names; self.max_paths = max_paths; self.max_depth = max_depth
        self._paths = {}
        self.sites = []        # filled during a dry run: number of paths of each inlinable call met
        self.choice = None
        self.pos = 0

    def callee_paths(self, name):
        if name not in self._paths:
            fs = self.unit.funcs()
            g = fs.get(name)
            ps = None
            if g is not None and (self.names is None or name in self.names):
                try:
                    cand = g.paths(max_paths=200)
                    if 0 < len(cand) <= self.max_paths:
                        ps = (g, cand)
                except AnalysisBrokenT:
                    ps = None
            self._paths[name] = ps
        return self._paths[name]

    def __call__(self, ev, env, depth):
        if ev.fn is None or depth >= self.max_depth:
            return None
        cp = self.callee_paths(ev.fn)
        if cp is None:
            return None
        g, cand = cp
        if self.choice is None:
            self.sites.append(len(cand))
            k = 0
        else:
            k = self.choice[self.pos] if self.pos < len(self.choice) else 0
            self.pos += 1
        env0 = {}
        for i, p in enumerate(g.params):
            if i < len(ev.args):
                env0[p['n']] = ev.args[i].subst(env)
        steps = sym.symexec(g, cand[k], env0=env0, inliner=self, depth=depth + 1)
        return [(e2, v2) for e2, v2 in steps if e2.kind != 'ret']


from .facts import AnalysisBroken as AnalysisBrokenT


class PathInfo:
    def __init__(self, func, path, inliner=None, track_mem=False):
        self.func = func; self.path = path
        self.track_mem = track_mem
        self.steps = sym.symexec(func, path, inliner=inliner, track_mem=track_mem)
        self.id = '/'.join('%d%s' % (b, '' if l is None else ('T' if l is True else 'F' if l is False else str(l))) for b, l in path)

    def events(self, kind=None):
        return [(ev, env) for ev, env in self.steps if kind is None or ev.kind == kind]

    def calls(self, fn=None, pred=None):
        out = []
        for ev, env in self.steps:
            if ev.kind == 'call' and (fn is None or ev.fn == fn or (not isinstance(fn, str) and ev.fn in fn)):
                if pred is None or pred(ev, env):
                    out.append((ev, env))
        return out

    def rcall(self, ev, env):
        return ev.e.subst(env)

    def assumes(self):
        """[(resolved atom E, truth, event)] with !, ==0, !=0 folded into truth."""
        out = []
        for ev, env in self.steps:
            if ev.kind == 'assume' and isinstance(ev.op, bool):
                atom, pol = cond_atom(sym.resolve(ev.e, env))
                out.append((atom, ev.op if pol else (not ev.op), ev))
        return out

    def switches(self):
        """[(resolved switch condition E, case value or 'default', event)]"""
        out = []
        for ev, env in self.steps:
            if ev.kind == 'assume' and not isinstance(ev.op, bool):
                lab = ev.op[1] if isinstance(ev.op, tuple) else ev.op
                out.append((ev.e.subst(env), lab, ev))
        return out

    def final_env(self):
        return self.steps[-1][1] if self.steps and self.steps[-1][0].kind == 'end' else {}

    def ret(self):
        r = [(ev, env) for ev, env in self.steps if ev.kind == 'ret']
        if not r:
            return None, None
        ev, env = r[-1]
        return ev, (ev.e.subst(env) if ev.e is not None else None)

    def index(self, ev):
        for i, (e2, _) in enumerate(self.steps):
            if e2 is ev:
                return i
        return -1

    def before(self, ev):
        return self.steps[:self.index(ev)]

    def after(self, ev):
        return self.steps[self.index(ev) + 1:]

    PURE_CALLS = ()

    def _pure(self, atom):
        for x in atom.walk():
            if x.k == 'call' and x.n not in self.PURE_CALLS and x.n not in getattr(self, 'pure_calls', ()):
                return False
        return True

    def feasible(self, stable=()):
        """Drop paths on which a resolved branch condition is a constant contradicting the edge,
        or two relational assumptions over the same resolved operands contradict.
        stable: names of struct fields the rule declares constant during the function
        (configuration fields); conditions reading only those (and locals) may contradict too."""
        # a pointer through which a member was reached (p->f, &p->f) earlier on the path is not NULL afterwards
        nonnull = set()
        for ev, env in self.steps:
            if ev.kind == 'assume' and isinstance(ev.op, bool):
                atom, pol = cond_atom(sym.resolve(ev.e, env))
                truth = ev.op if pol else (not ev.op)
                if not truth and atom.s in nonnull and atom.k in ('call', 'ref', 'mem', 'idx'):
                    return False
                continue
            exprs = []
            if ev.kind == 'call':
                exprs = list(ev.args or ())
            elif ev.kind == 'store':
                exprs = [ev.lhs] + ([ev.rhs] if ev.rhs is not None else [])
            elif ev.kind in ('load', 'ret') and ev.e is not None:
                exprs = [ev.e]
            for x in exprs:
                for y in x.walk():
                    if y.k == 'mem' and y.op == '->':
                        b = sym.resolve(y.ch[0], env)
                        if b.k in ('call', 'ref', 'mem', 'idx'):
                            nonnull.add(b.s)
        sw = {}
        for c, lab, ev in self.switches():
            if lab != 'default':
                if c.cv is not None and c.cv != lab:
                    return False
                if '->' not in c.s.split('(')[0]:
                    if c.s in sw and sw[c.s] != lab:
                        return False
                    sw[c.s] = lab
        facts = {}
        for atom, truth, ev in self.assumes():
            p = aff.norm(atom)
            c = p.const_value()
            if c is not None and bool(c) != truth:
                return False
            key = repr(p)
            if key in facts and facts[key] != truth:
                # same resolved expression assumed both ways with no redefinition in between:
                # only contradictory if nothing it reads from memory changed; be conservative
                # (keep) unless it is made of locals/calls only
                if '->' not in key and '[' not in key and '*(' not in key:
                    return False
                if stable and _only_stable_memory(atom, stable):
                    return False
                if self.track_mem and '(' not in key.replace('SEGMENT_AT_TID(', '').replace('(%s' % '', '') and False:
                    return False
                if self.track_mem and self._pure(atom):
                    # memory cells are tracked on this path: an identical resolved expression reads identical values
                    return False
            facts.setdefault(key, truth)
        return True


def _only_stable_memory(atom, stable):
    for x in atom.walk():
        if x.k == 'mem' and x.n not in stable:
            # a member access is fine when it is only the path to a stable field (a->b->stable)
            if not any(y.k == 'mem' and y.n in stable and x in list(y.walk())[1:] for y in atom.walk()):
                return False
        if x.k in ('idx', 'call') or (x.k == 'un' and x.op == '*'):
            return False
    return True


def all_paths(func, feasible_only=True, inline=None, inline_names=None, stable=(), track_mem=False, pure_calls=(), **kw):
    """inline: a facts.Unit — calls to its small functions are expanded into the paths."""
    out = []
    import itertools
    for p in func.paths(**kw):
        if inline is None:
            pis = [PathInfo(func, p, track_mem=track_mem)]
            pis[0].pure_calls = tuple(pure_calls)
        else:
            dry = Inliner(inline, inline_names)
            dry.names = None if inline_names is None else set(inline_names)
            if dry.names is not None:
                dry.names.discard(func.name)
            first = PathInfo(func, p, inliner=_guard(dry, func))
            combos = list(itertools.product(*[range(n) for n in dry.sites])) if dry.sites else [()]
            if len(combos) > 64:
                combos = combos[:64]
            pis = []
            for ch in combos:
                if not any(ch):
                    pis.append(first); continue
                inl = Inliner(inline, dry.names); inl._paths = dry._paths; inl.choice = ch
                pis.append(PathInfo(func, p, inliner=_guard(inl, func)))
        for pi in pis:
            if feasible_only and not pi.feasible(stable):
                continue
            out.append(pi)
    return out


def _guard(inl, func):
    def f(ev, env, depth):
        if ev.fn == func.name:
            return None
        return inl(ev, env, depth)
    return f


def rel(atom):
    """Normalise a relational atom to (op, lhs Poly, rhs Poly) with op in == != < <= ; None otherwise."""
    if atom.k == 'bin' and atom.op in ('==', '!=', '<', '<=', '>', '>='):
        l, r = aff.norm(atom.ch[0]), aff.norm(atom.ch[1])
        op = atom.op
        if op == '>':
            op, l, r = '<', r, l
        elif op == '>=':
            op, l, r = '<=', r, l
        return op, l, r
    return None


def assumed(pi, op, lhs, rhs):
    """Is `lhs op rhs` (Polys; op in == < <= !=) among the path's assumptions (as stated or
    as the negation of its complement)?  Returns True / False (assumed false) / None."""
    comp = {'==': '!=', '!=': '==', '<': '>=', '<=': '>', '>': '<=', '>=': '<'}
    for atom, truth, ev in pi.assumes():
        r = rel(atom)
        if r is None:
            # bare value used as condition:  x  means x != 0
            p = aff.norm(atom)
            r = ('!=', p, aff.Poly.const(0))
        o, l, rr = r
        for (oo, ll, rrr) in ((o, l, rr), _flip(o, l, rr)):
            if ll == lhs and rrr == rhs:
                if oo == op:
                    return truth
                if comp.get(oo) == op:
                    return not truth
    return None


def _flip(o, l, r):
    m = {'==': '==', '!=': '!=', '<': '>', '<=': '>=', '>': '<', '>=': '<='}
    return (m[o], r, l)


def asserted_zero(atom, truth):
    """If the branch outcome (atom, truth) asserts that some value equals 0, return its Poly."""
    r = rel(atom)
    if r is not None:
        op, l, rr = r
        if (op == '==' and truth) or (op == '!=' and not truth):
            if rr == aff.Poly.const(0):
                return l
            if l == aff.Poly.const(0):
                return rr
            return l - rr
        return None
    if not truth:
        return aff.norm(atom)
    return None
