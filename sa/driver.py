"""Driver: compile database, extraction, rule bookkeeping (instances, floors, controls),
known findings, evidence, exit codes."""
import json, os, re, shlex, subprocess, sys, time, hashlib, shutil, tempfile, traceback
from concurrent.futures import ThreadPoolExecutor
from . import facts
from .facts import AnalysisBroken

VERIF = os.path.dirname(os.path.dirname(os.path.abspath(__file__)))
REPO = os.environ.get('VERIF_REPO', '/repo')
BUILD = os.path.join(REPO, '_build')
EXTRACT = os.path.join(VERIF, 'sa', 'extract')
NPROC = int(os.environ.get('VERIF_JOBS', '16'))


def _resource_dir():
    try:
        return subprocess.check_output(['clang', '-print-resource-dir'], text=True).strip()
    except Exception:
        return '/usr/lib/llvm-14/lib/clang/14.0.6'


class Violation:
    def __init__(self, rule, key, loc, msg, detail=None):
        self.rule = rule; self.key = key; self.loc = loc; self.msg = msg; self.detail = detail or {}


class Rule:
    def __init__(self, ctx, rid, desc, floor, control=False):
        self.ctx = ctx; self.id = rid; self.desc = desc; self.floor = floor
        self.sites = []          # [(loc, note)]
        self.violations = []
        self.control = control
        self._seen = set()

    def ok(self, loc, note=''):
        if (loc, note) not in self._seen:
            self._seen.add((loc, note))
            self.sites.append((loc, note))

    def bad(self, key, loc, msg, **detail):
        """key: stable identifier of the failing instance (no line numbers)."""
        if (loc, 'V:' + key) in self._seen:
            return
        self._seen.add((loc, 'V:' + key))
        self.sites.append((loc, 'VIOLATES: ' + msg))
        self.violations.append(Violation(self.id, key, loc, msg, detail))

    def expect(self, cond, key, loc, msg, note='', **detail):
        if cond:
            self.ok(loc, note or msg)
        else:
            self.bad(key, loc, msg, **detail)
        return cond


class Ctx:
    def __init__(self, prop, tier):
        self.prop = prop; self.tier = tier
        self.rules = []
        self.units = {}
        self.t0 = time.time()
        self.scratch = tempfile.mkdtemp(prefix='sa-%s-' % prop, dir=_scratch_root())
        self._compdb = None
        self.resource_dir = _resource_dir()
        self.notes = []
        self.functions_analysed = set()
        self.explanation = ''
        self.not_decided = ''
        self.level = 'other'
        self.programs = None
        self.samples = []
        self.extra_cov = {}

    # -- compile database --------------------------------------------------------------
    def compdb(self):
        if self._compdb is None:
            if not os.path.exists(os.path.join(BUILD, 'build.ninja')):
                raise AnalysisBroken('no build tree at %s (needed for the real compile flags)' % BUILD)
            out = subprocess.check_output(['ninja', '-C', BUILD, '-t', 'compdb'], text=True)
            db = {}
            for e in json.loads(out):
                f = os.path.normpath(e['file'])
                if not f.endswith('.c'):
                    continue
                if f in db:
                    continue
                argv = shlex.split(e['command'])
                if '-c' not in argv or '-o' not in argv:
                    continue      # custom commands (copies, generators), not compilations
                db[f] = (e['directory'], self._clean(shlex.split(e['command'])))
            self._compdb = db
        return self._compdb

    @staticmethod
    def _clean(argv):
        out = []
        skip = 0
        for i, a in enumerate(argv[1:]):
            if skip:
                skip -= 1; continue
            if a in ('-o', '-MT', '-MF', '-MQ'):
                skip = 1; continue
            if a in ('-c', '-MD', '-MMD', '-MP', '-g', '-fdiagnostics-color') or a.startswith('-O') or a.startswith('-W'):
                continue
            if a.endswith('.c') and not a.startswith('-'):
                continue
            out.append(a)
        return out

    def flags_for(self, src):
        db = self.compdb()
        src = os.path.normpath(src)
        if src in db:
            return db[src]
        raise AnalysisBroken('%s is not in the compile database' % src)

    def all_units(self, pred=None):
        return sorted(f for f in self.compdb() if pred is None or pred(f))

    # -- extraction --------------------------------------------------------------------
    def _extract_cmd(self, src, out, flags, cwd, keep, main_only):
        cmd = [EXTRACT, '--out=' + out]
        for k in keep:
            cmd.append('--keep=' + k)
        if main_only:
            cmd.append('--main-only')
        cmd += [src, '--'] + flags + ['-w', '-resource-dir', self.resource_dir]
        return cmd

    def extract(self, src, keep=None, main_only=False, flags=None, cwd=None):
        """Extract one unit (path absolute or relative to /repo); returns facts.Unit."""
        if not os.path.isabs(src):
            src = os.path.join(REPO, src)
        key = (src, main_only)
        if key in self.units:
            return self.units[key]
        if not os.path.exists(src):
            raise AnalysisBroken('source file %s does not exist' % src)
        if not os.path.exists(EXTRACT):
            raise AnalysisBroken('extractor not built (run MANIFEST.setup_cmd)')
        if flags is None:
            cwd, flags = self.flags_for(src)
        keep = keep or [REPO, self.scratch, VERIF]
        out = os.path.join(self.scratch, hashlib.sha1(src.encode()).hexdigest()[:12] + ('.m' if main_only else '') + '.json')
        p = subprocess.run(self._extract_cmd(src, out, flags, cwd, keep, main_only), cwd=cwd or BUILD,
                           stdout=subprocess.PIPE, stderr=subprocess.PIPE, text=True)
        if p.returncode != 0 or not os.path.exists(out):
            raise AnalysisBroken('extractor failed on %s: %s' % (src, (p.stderr or '')[-800:]))
        u = facts.Unit(out)
        self.units[key] = u
        return u

    def extract_many(self, srcs, main_only=True, keep=None):
        """Parallel extraction; returns list of json paths (not loaded)."""
        keep = keep or [REPO, self.scratch, VERIF]
        jobs = []
        for s in srcs:
            if not os.path.isabs(s):
                s = os.path.join(REPO, s)
            cwd, flags = self.flags_for(s)
            out = os.path.join(self.scratch, hashlib.sha1(s.encode()).hexdigest()[:12] + ('.m' if main_only else '') + '.json')
            jobs.append((s, out, self._extract_cmd(s, out, flags, cwd, keep, main_only), cwd))

        def run(j):
            s, out, cmd, cwd = j
            if not os.path.exists(s):
                return (s, None, 'missing source (generated file not built?)')
            p = subprocess.run(cmd, cwd=cwd, stdout=subprocess.PIPE, stderr=subprocess.PIPE, text=True)
            if p.returncode != 0 or not os.path.exists(out):
                return (s, None, (p.stderr or '')[-400:])
            return (s, out, None)
        with ThreadPoolExecutor(NPROC) as ex:
            res = list(ex.map(run, jobs))
        return res

    def scan(self, srcs, query, main_only=True):
        """Whole-program scan: extract every unit in `srcs` (parallel processes), load it,
        run the module-level function query(unit) -> picklable list, and concatenate.
        Units whose source does not exist (generated files of an unbuilt tree) are reported
        in self.notes; an extraction failure is analysis-broken."""
        from concurrent.futures import ProcessPoolExecutor
        jobs = []
        for s in srcs:
            if not os.path.isabs(s):
                s = os.path.join(REPO, s)
            if not os.path.exists(s):
                self.notes.append('scan: %s missing (generated source not built), skipped' % s)
                continue
            cwd, flags = self.flags_for(s)
            out = os.path.join(self.scratch, 'scan-' + hashlib.sha1(s.encode()).hexdigest()[:12] + '.json')
            jobs.append((s, out, self._extract_cmd(s, out, flags, cwd, [REPO, self.scratch, VERIF], main_only), cwd, query))
        res = []
        with ProcessPoolExecutor(NPROC) as ex:
            for s, r, err in ex.map(_scan_one, jobs):
                if err:
                    raise AnalysisBroken('scan: extractor failed on %s: %s' % (s, err))
                res.extend(r)
        self.extra_cov.setdefault('units', [])
        self.extra_cov['units'] = sorted(set(self.extra_cov['units']) | {j[0] for j in jobs})
        self.extra_cov['units_scanned'] = len(self.extra_cov['units'])
        return res

    # -- rules -------------------------------------------------------------------------
    def rule(self, rid, desc, floor, control=False):
        r = Rule(self, rid, desc, floor, control)
        self.rules.append(r)
        return r

    def note(self, s):
        self.notes.append(s)

    def cleanup(self):
        shutil.rmtree(self.scratch, ignore_errors=True)


def _scan_one(job):
    s, out, cmd, cwd, query = job
    p = subprocess.run(cmd, cwd=cwd, stdout=subprocess.PIPE, stderr=subprocess.PIPE, text=True)
    if p.returncode != 0 or not os.path.exists(out):
        return (s, [], (p.stderr or 'failed')[-400:])
    try:
        u = facts.Unit(out)
        r = query(u)
    finally:
        try:
            os.unlink(out)
        except OSError:
            pass
    return (s, r, None)


def _scratch_root():
    for d in (os.environ.get('XDG_RUNTIME_DIR'), '/var/tmp', '/dev/shm'):
        if d and os.path.isdir(d) and os.access(d, os.W_OK):
            return d
    return tempfile.gettempdir()


def load_known():
    p = os.path.join(VERIF, 'known_findings.json')
    if not os.path.exists(p):
        return []
    return json.load(open(p)).get('findings', [])


def run_check(prop, tier, module, replay=None):
    """Runs module.run(ctx); handles floors, known findings, evidence, exit status."""
    ctx = Ctx(prop, tier)
    status = 0
    broken = []
    try:
        try:
            module.run(ctx)
            from rules import reread
            reread.thorough(ctx, prop)
        except AnalysisBroken as e:
            broken.append(str(e))
        except Exception as e:      # an engine bug is analysis-broken, never a violation
            broken.append('engine exception: %s\n%s' % (e, traceback.format_exc()))
        for r in ctx.rules:
            if len(r.sites) < r.floor:
                broken.append('rule=%s expected>=%d instances got %d' % (r.id, r.floor, len(r.sites)))
        known = [k for k in load_known() if k.get('property') == prop and k.get('status') == 'open']
        known_keys = {(k['rule'], k['key']): k for k in known}
        viols = []
        nknown = 0
        seen_v = set()
        for r in ctx.rules:
            for v in r.violations:
                if (v.rule, v.key, v.loc) in seen_v:
                    continue
                seen_v.add((v.rule, v.key, v.loc))
                k = known_keys.get((v.rule, v.key))
                if k is not None:
                    nknown += 1
                    print('KNOWN-FINDING: property=%s rule=%s %s at %s — %s' % (prop, v.rule, v.key, v.loc, v.msg))
                else:
                    viols.append(v)
        os.makedirs(os.path.join(VERIF, 'evidence', 'replay'), exist_ok=True)
        for i, v in enumerate(viols):
            rp = os.path.join(VERIF, 'evidence', 'replay', '%s-%d.json' % (prop, i))
            json.dump({'property': prop, 'rule': v.rule, 'key': v.key, 'loc': v.loc, 'message': v.msg,
                       'detail': v.detail, 'tier': tier}, open(rp, 'w'), indent=1, default=str)
            print('%s: rule %s: %s [%s]' % (v.loc, v.rule, v.msg, v.key))
            print('VIOLATION property=%s replay=%s' % (prop, rp))
        for b in broken:
            print('ANALYSIS-BROKEN property=%s %s' % (prop, b))
        if viols:
            status = 1
        elif broken:
            status = 2
        write_evidence(ctx, prop, tier, viols, nknown, broken)
        nsites = sum(len(r.sites) for r in ctx.rules)
        print('%s [%s]: %d rules, %d instances, %d violations, %d known findings, %.1fs%s' % (
            prop, tier, len(ctx.rules), nsites, len(viols), nknown, time.time() - ctx.t0,
            ' — ANALYSIS BROKEN' if broken else ''))
        if replay or os.environ.get('VERIF_VERBOSE'):
            for r in ctx.rules:
                print('  rule %s (%s): %d instances (floor %d)' % (r.id, r.desc, len(r.sites), r.floor))
                for loc, note in r.sites:
                    print('     %s  %s' % (loc, note))
    finally:
        ctx.cleanup()
    return status


def write_evidence(ctx, prop, tier, viols, nknown, broken):
    obligations = sum(len(r.sites) for r in ctx.rules)
    discharged = obligations - sum(len(r.violations) for r in ctx.rules)
    rules = []
    samples = list(ctx.samples)
    for r in ctx.rules:
        rules.append({'rule': r.id, 'description': r.desc, 'instances': len(r.sites), 'floor': r.floor,
                      'violations': len(r.violations),
                      'sites': ['%s %s' % (l, n) for l, n in r.sites[:60]]})
        for l, n in r.sites[:2]:
            samples.append({'rule': r.id, 'site': l, 'obligation': n or r.desc})
    cov = {
        'explanation': ctx.explanation or 'clause-level static rules; see DESIGN.md',
        'not_decided': ctx.not_decided,
        'obligations': obligations,
        'discharged': discharged,
        'evaluations': max(obligations, 1),
        'distinct_nontrivial': max(len({l for r in ctx.rules for l, _ in r.sites}), 0),
        'rule': 'one obligation per rule instance (site in /repo source matched by a frozen rule table); distinct = distinct file:line sites',
        'samples': samples[:40] or [{'note': 'no instance analysed'}],
        'units_analysed': sorted({u.src for u in ctx.units.values()} | set(ctx.extra_cov.get('units', [])))[:400],
        'functions_analysed': sorted(ctx.functions_analysed)[:400],
        'rules': rules,
        'known_findings_reported': nknown,
        'analysis_broken': broken,
        'checker_cmd': './check %s --tier %s' % (prop, tier),
        'trusted_base': ['clang 14 parser, constant evaluator and CFG builder',
                         'lock / atomic / sink tables in sa/tables.py (reviewed against the source)',
                         'build configuration of /repo/_build (RelWithDebInfo, NDEBUG, MPI, no GPU, no PARANOID)'],
        'notes': ctx.notes,
    }
    if ctx.programs is not None:
        cov['programs'] = ctx.programs
        cov['disagreements_checked'] = len(viols) + nknown
    for k, v in ctx.extra_cov.items():
        if k != 'units':
            cov[k] = v
    ev = {
        'property_id': prop, 'tier': tier, 'seed': int(os.environ.get('VERIF_SEED', '0') or 0),
        'level': ctx.level, 'coverage': cov,
        'assumptions': ['single build configuration analysed', 'lock identity by access path (no points-to)',
                        'indirect calls resolved only through initialiser tables'],
        'wall_s': round(time.time() - ctx.t0, 2), 'violations': len(viols),
    }
    os.makedirs(os.path.join(VERIF, 'evidence'), exist_ok=True)
    with open(os.path.join(VERIF, 'evidence', '%s.json' % prop), 'w') as f:
        json.dump(ev, f, indent=1, default=str)
