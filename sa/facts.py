"""Loader for the JSON facts written by sa/extract, and the generic analyses
(A-dom, A-path, A-lock, A-eff) the rule modules use.  Standard library only."""
import json, os, re, itertools
from collections import defaultdict, deque


class AnalysisBroken(Exception):
    """An anchor the rule needs does not exist / cannot be analysed (exit 2)."""


# ------------------------------------------------------------------------------------
# expressions
# ------------------------------------------------------------------------------------
class E:
    """Normalised expression tree: casts and parentheses dropped, (*p).f == p->f,
    (&x)->f == x.f, &*p == p, constants folded where clang could."""
    __slots__ = ('k', 'op', 'ch', 'n', 'cv', 'nid', 'rec', 'dk', 'did', 'ty', '_s', 'extra')

    def __init__(self, k, op=None, ch=(), n=None, cv=None, nid=None, rec=None, dk=None, did=None, ty=None, extra=None):
        self.k = k; self.op = op; self.ch = tuple(ch); self.n = n; self.cv = cv; self.nid = nid
        self.rec = rec; self.dk = dk; self.did = did; self.ty = ty; self._s = None; self.extra = extra

    @property
    def s(self):
        if self._s is None:
            self._s = self._render()
        return self._s

    def __repr__(self):
        return 'E<%s>' % self.s

    def __eq__(self, o):
        return isinstance(o, E) and self.s == o.s

    def __hash__(self):
        return hash(self.s)

    def _render(self):
        k = self.k
        if k == 'int':
            return str(self.cv)
        if k == 'const':
            return str(self.cv)
        if k == 'float':
            return str(self.n)
        if k == 'str':
            return json.dumps(self.n if self.n is not None else '')
        if k == 'ref':
            return self.n
        if k == 'mem':
            b = self.ch[0]
            if self.op == '->':
                return '%s->%s' % (b._post(), self.n)
            return '%s.%s' % (b._post(), self.n)
        if k == 'idx':
            return '%s[%s]' % (self.ch[0]._post(), self.ch[1].s)
        if k == 'un':
            op = self.op
            if op.startswith('post'):
                return '%s%s' % (self.ch[0]._atom(), op[4:])
            if op.startswith('pre'):
                return '%s%s' % (op[3:], self.ch[0]._atom())
            return '%s%s' % (op, self.ch[0]._atom())
        if k in ('bin', 'asg'):
            return '%s %s %s' % (self.ch[0]._atom(), self.op, self.ch[1]._atom())
        if k == 'cond':
            return '%s ? %s : %s' % tuple(c._atom() for c in self.ch[:3])
        if k == 'call':
            if self.n:
                return '%s(%s)' % (self.n, ', '.join(a.s for a in self.ch))
            return '(%s)(%s)' % (self.extra.s if self.extra is not None else '?', ', '.join(a.s for a in self.ch))
        if k == 'sizeof':
            return 'sizeof(%s)' % (self.ty or (self.ch[0].s if self.ch else '?'))
        if k == 'init':
            return '{%s}' % ', '.join(c.s for c in self.ch)
        if k == 'stmtexpr':
            return '({...})'
        return '<%s>' % k

    def _atom(self):
        if self.k in ('bin', 'asg', 'cond'):
            return '(%s)' % self.s
        return self.s

    def _post(self):
        """as the base of a postfix operator ([] . ->): unary prefix expressions need parentheses too"""
        if self.k in ('bin', 'asg', 'cond') or (self.k == 'un' and not self.op.startswith('post')):
            return '(%s)' % self.s
        return self.s

    # -- traversal -------------------------------------------------------------------
    def walk(self):
        yield self
        if self.extra is not None and isinstance(self.extra, E):
            yield from self.extra.walk()
        for c in self.ch:
            yield from c.walk()

    def calls(self, name=None):
        return [e for e in self.walk() if e.k == 'call' and (name is None or e.n == name)]

    def mentions(self, s):
        """Does any sub-expression render exactly as s?"""
        return any(e.s == s for e in self.walk())

    def refs(self):
        return {e.n for e in self.walk() if e.k == 'ref'}

    def subst(self, mapping):
        """Replace sub-expressions whose rendering is a key of mapping (str -> E)."""
        if self.s in mapping:
            return mapping[self.s]
        if not self.ch and self.extra is None:
            return self
        ne = E(self.k, self.op, [c.subst(mapping) for c in self.ch], self.n, self.cv, self.nid, self.rec,
               self.dk, self.did, self.ty, self.extra.subst(mapping) if isinstance(self.extra, E) else self.extra)
        if ne.k in ('bin', 'un', 'cond'):
            ne.cv = None if ne.s != self.s else self.cv
        return ne


def const_of(e):
    return e.cv if e is not None else None


def is_zero(e):
    return e is not None and e.cv == 0


class Event:
    __slots__ = ('kind', 'fn', 'args', 'lhs', 'rhs', 'op', 'e', 'nid', 'loc', 'block', 'idx', 'macro', 'callee')

    def __init__(self, kind, **kw):
        self.kind = kind
        for a in ('fn', 'args', 'lhs', 'rhs', 'op', 'e', 'nid', 'loc', 'block', 'idx', 'macro', 'callee'):
            setattr(self, a, kw.get(a))

    def __repr__(self):
        if self.kind == 'call':
            return 'call %s @%s' % (self.e.s, self.loc)
        if self.kind == 'store':
            return 'store %s %s %s @%s' % (self.lhs.s, self.op, self.rhs.s if self.rhs is not None else '', self.loc)
        if self.kind == 'ret':
            return 'return %s @%s' % (self.e.s if self.e is not None else '', self.loc)
        if self.kind == 'load':
            return 'load %s @%s' % (self.e.s, self.loc)
        return '%s @%s' % (self.kind, self.loc)

    @property
    def point(self):
        return (self.block, self.idx)


class Func:
    def __init__(self, unit, d):
        self.unit = unit
        self.d = d
        self.name = d['name']
        self.nodes = d['nodes']
        self.file = unit.files[d['f']] if 'f' in d else '?'
        self.line = d.get('l', 0)
        self.endl = d.get('endl', 0)
        self.params = d.get('params', [])
        self.renamed = alpha_normalise(unit, d, self.file)
        self.static = d.get('static', False)
        self.ret = d.get('ret')
        self._ecache = {}
        self.blocks = {}
        cfg = d.get('cfg')
        if cfg is None:
            raise AnalysisBroken('no CFG for %s' % self.name)
        for b in cfg['blocks']:
            self.blocks[b['id']] = b
        self.entry = cfg['entry']
        self.exit = cfg['exit']
        self._events = None
        self._preds = None
        self._dom = None
        self._pdom = None
        self._loop_assigned = None
        self.validation_exits = []
        if not os.environ.get('VERIF_NO_VALIDATION_PRUNE'):
            self._prune_validation_exits()

    # -- locations -------------------------------------------------------------------
    def loc(self, nid):
        n = self.nodes[nid]
        if 'f' not in n:
            return '%s:?' % self.file
        return '%s:%d' % (self.unit.files[n['f']], n['l'])

    def line_of(self, nid):
        return self.nodes[nid].get('l', 0)

    def macro_of(self, nid):
        return self.nodes[nid].get('mo')

    def where(self):
        return '%s:%d' % (self.file, self.line)

    # -- expression building -----------------------------------------------------------
    def expr(self, nid):
        if nid is None or nid < 0:
            return None
        e = self._ecache.get(nid)
        if e is None:
            e = self._build(nid)
            self._ecache[nid] = e
        return e

    def _build(self, nid):
        n = self.nodes[nid]
        k = n['k']
        cv = n.get('cv')
        if k in ('cast', 'paren'):
            ch = n.get('ch', [])
            if not ch:
                return E('other', nid=nid)
            inner = self.expr(ch[0])
            return inner
        if k == 'int':
            return E('int', cv=cv, nid=nid, n=n.get('mo'))     # n = name of the macro it was spelled through, if any
        if k == 'float':
            return E('float', n=n.get('v'), nid=nid)
        if k == 'str':
            return E('str', n=n.get('v'), nid=nid)
        if k == 'ref':
            return E('ref', n=n['n'], cv=cv, nid=nid, dk=n.get('dk'), did=n.get('d'), ty=n.get('ty'))
        if k == 'mem':
            b = self.expr(n['ch'][0])
            arrow = n['arrow']
            # (*p).f -> p->f ; (&x)->f -> x.f
            if not arrow and b.k == 'un' and b.op == '*':
                b = b.ch[0]; arrow = True
            elif arrow and b.k == 'un' and b.op == '&':
                b = b.ch[0]; arrow = False
            return E('mem', op='->' if arrow else '.', ch=[b], n=n['n'], nid=nid, rec=n.get('rec'), ty=n.get('ty'))
        if k == 'idx':
            return E('idx', ch=[self.expr(n['ch'][0]), self.expr(n['ch'][1])], nid=nid)
        if k == 'un':
            c = self.expr(n['ch'][0])
            op = n['op']
            if op == '&' and c.k == 'un' and c.op == '*':
                return c.ch[0]
            if op == '*' and c.k == 'un' and c.op == '&':
                return c.ch[0]
            if cv is not None and op in ('-', '+', '~', '!'):
                return E('int', cv=cv, nid=nid)
            return E('un', op=op, ch=[c], cv=cv, nid=nid)
        if k in ('bin', 'asg'):
            l = self.expr(n['ch'][0]); r = self.expr(n['ch'][1])
            if k == 'bin' and cv is not None and l.cv is not None and r.cv is not None and not (l.refs() or r.refs()):
                return E('int', cv=cv, nid=nid)
            return E(k, op=n['op'], ch=[l, r], cv=cv if k == 'bin' else None, nid=nid)
        if k == 'cond':
            ch = [self.expr(c) for c in n['ch'][:3]]
            return E('cond', ch=ch, cv=cv, nid=nid)
        if k == 'call':
            ch = n['ch']
            args = [self.expr(c) for c in ch[1:]]
            fn = n.get('fn')
            callee = None if fn else self.expr(ch[0])
            return E('call', ch=args, n=fn, nid=nid, extra=callee, ty=n.get('ty'))
        if k == 'atomic':
            return E('call', ch=[self.expr(c) for c in n['ch']], n=n.get('fn'), nid=nid)
        if k == 'sizeof':
            if cv is not None:
                return E('int', cv=cv, nid=nid)
            return E('sizeof', ty=n.get('ty'), ch=[self.expr(c) for c in n.get('ch', [])], nid=nid)
        if k == 'offsetof':
            return E('int', cv=cv, nid=nid)
        if k == 'init':
            e = E('init', ch=[self.expr(c) for c in n['ch']], nid=nid, rec=n.get('rec'), ty=n.get('ty'))
            e.extra = n.get('fields')
            return e
        if k == 'zeroinit':
            return E('int', cv=0, nid=nid)
        if k == 'stmtexpr':
            return E('stmtexpr', nid=nid)
        if k == 'complit':
            return self.expr(n['ch'][0]) if n.get('ch') else E('other', nid=nid)
        return E(k if k in ('other',) else 'stmt:' + k, nid=nid)

    # -- events ----------------------------------------------------------------------
    def block_events(self, bid):
        self.events()
        return self._bevents[bid]

    def events(self):
        if self._events is not None:
            return self._events
        evs = []
        self._bevents = {}
        for bid, b in self.blocks.items():
            bl = []
            for idx, nid in enumerate(b['elems']):
                n = self.nodes[nid]
                k = n['k']
                ev = None
                if k == 'call' or k == 'atomic':
                    e = self.expr(nid)
                    ev = Event('call', fn=e.n, args=list(e.ch), e=e, callee=e.extra)
                elif k == 'asg':
                    e = self.expr(nid)
                    ev = Event('store', lhs=e.ch[0], rhs=e.ch[1], op=e.op, e=e)
                elif k == 'un' and n['op'] in ('post++', 'post--', 'pre++', 'pre--'):
                    e = self.expr(nid)
                    ev = Event('store', lhs=e.ch[0], rhs=None, op=n['op'][-2:], e=e)
                elif k == 'decl':
                    for v in n.get('vars', []):
                        if 'init' in v:
                            lhs = E('ref', n=v['n'], dk='var', did=v['d'], ty=v.get('ty'))
                            ev2 = Event('store', lhs=lhs, rhs=self.expr(v['init']), op='=', e=None)
                            ev2.nid = nid; ev2.loc = self.loc(nid); ev2.block = bid; ev2.idx = idx
                            ev2.macro = n.get('mo')
                            bl.append(ev2)
                    continue
                elif k == 'ret':
                    ch = n.get('ch', [])
                    ev = Event('ret', e=self.expr(ch[0]) if ch and ch[0] >= 0 else None)
                elif k == 'cast' and n.get('ck') == 'LValueToRValue':
                    ev = Event('load', e=self.expr(nid))
                if ev is not None:
                    ev.nid = nid; ev.loc = self.loc(nid); ev.block = bid; ev.idx = idx
                    ev.macro = n.get('mo')
                    bl.append(ev)
            self._bevents[bid] = bl
            evs.extend(bl)
        if getattr(self, 'validation_exits', None):
            # blocks only reachable through a pruned argument-validation edge contribute no events
            live = self.reachable_blocks()
            evs = [e for e in evs if e.block in live]
            for bid in self._bevents:
                if bid not in live:
                    self._bevents[bid] = []
        self._events = evs
        return evs

    def calls(self, name=None, pred=None):
        r = [e for e in self.events() if e.kind == 'call' and (name is None or e.fn == name
                                                              or (isinstance(name, (set, frozenset, tuple, list)) and e.fn in name))]
        if pred:
            r = [e for e in r if pred(e)]
        return r

    def stores(self, lhs=None, pred=None):
        r = [e for e in self.events() if e.kind == 'store']
        if lhs is not None:
            if hasattr(lhs, 'search'):
                r = [e for e in r if lhs.search(e.lhs.s)]
            else:
                r = [e for e in r if e.lhs.s == lhs]
        if pred:
            r = [e for e in r if pred(e)]
        return r

    def returns(self):
        return [e for e in self.events() if e.kind == 'ret']

    def loads(self, s=None):
        return [e for e in self.events() if e.kind == 'load' and (s is None or e.e.s == s)]

    # -- argument-validation exits ----------------------------------------------------------
    def _prune_validation_exits(self):
        """`if (NULL == <pointer parameter>) return <constant>;` at the top of a function, before any work, is an
        argument validation: the path it opens carries no obligation of any property (the quantifier domains are
        the valid uses of the API).  Such edges are removed from the CFG so that all-paths rules, dominance and
        post-dominance see the function as if called with valid arguments; they are listed in validation_exits."""
        ptr_params = {p_['n'] for p_ in self.params if p_.get('n') and (p_.get('ty') or '').rstrip().endswith('*')}
        if not ptr_params:
            return
        b = self.entry; seen = set()
        while b not in seen:
            seen.add(b)
            work = False
            for ev in self.block_events(b):
                if ev.kind == 'call':
                    work = True
                elif ev.kind == 'store':
                    if not (ev.lhs.k == 'ref' and ev.lhs.dk in ('var',)) or (ev.rhs is not None and any(x.k == 'call' for x in ev.rhs.walk())) or ev.op not in ('=',):
                        work = True
                elif ev.kind == 'ret':
                    work = True
            if work:
                return
            ss = self.succs(b)
            if len(ss) == 1:
                b = ss[0][0]; continue
            if len(ss) != 2 or self.term_kind(b) == 'switch':
                return
            c = self.cond(b)
            if c is None:
                return
            atom, pol = cond_atom(c)
            if not (atom.k == 'ref' and atom.s in ptr_params and atom.dk == 'parm'):
                return
            null_lab = not pol
            tgt = [s_ for s_, lab in ss if lab is null_lab]; oth = [s_ for s_, lab in ss if lab is not null_lab]
            if len(tgt) != 1 or len(oth) != 1:
                return
            if self._trivial_return(tgt[0]):
                bl = self.blocks[b]
                bl['succs'] = [None if x == tgt[0] else x for x in bl['succs']]
                self.validation_exits.append((b, tgt[0], atom.s))
                self._events = None; self._preds = None; self._dom = None; self._pdom = None
                b = oth[0]
                seen.discard(b)
                continue
            if self._trivial_return(oth[0]):
                return
            # `NULL == p || NULL == q`: the null edge leads to the shared return through the next disjunct's block
            return

    def _trivial_return(self, bid):
        hops = 0
        while hops < 3:
            evs = [e for e in self.block_events(bid) if e.kind != 'load']
            if len(evs) == 1 and evs[0].kind == 'ret' and (evs[0].e is None or evs[0].e.cv is not None or evs[0].e.k in ('int',) or
                                                         (evs[0].e.k == 'un' and evs[0].e.op == '-' and evs[0].e.ch[0].k == 'int')):
                return True
            if evs:
                return False
            ss = self.succs(bid)
            if len(ss) != 1:
                return False
            bid = ss[0][0]; hops += 1
        return False

    # -- CFG -------------------------------------------------------------------------
    def succs(self, bid):
        """[(succ_block, label)] ; label True/False for two-way branches, ('case', v),
        'default', or None."""
        b = self.blocks[bid]
        ss = b['succs']
        term = b.get('term')
        out = []
        if term is not None and len(ss) == 2 and self.nodes[term]['k'] != 'switch':
            for s, lab in zip(ss, (True, False)):
                if s is not None:
                    out.append((s, lab))
            return out
        if term is not None and self.nodes[term]['k'] == 'switch':
            for i, s in enumerate(ss):
                if s is None:
                    continue
                lab = None
                lb = self.blocks[s].get('label')
                if lb is not None and self.nodes[lb]['k'] == 'case':
                    v = self.nodes[self.nodes[lb]['val']].get('cv')
                    lab = ('case', v)
                elif lb is not None and self.nodes[lb]['k'] == 'default':
                    lab = 'default'
                else:
                    lab = 'default'   # implicit default: falls out of the switch
                out.append((s, lab))
            return out
        for s in ss:
            if s is not None:
                out.append((s, None))
        return out

    def cond(self, bid):
        """The atomic condition the block branches on: for `if (a && b)` the block that
        evaluates b branches on b (clang reports the whole `a && b`), so strip to the
        right-most operand of && / ||."""
        c = self.blocks[bid].get('cond')
        if c is None:
            return None
        e = self.expr(c)
        while e is not None and e.k == 'bin' and e.op in ('&&', '||'):
            e = e.ch[1]
        return e

    def term_kind(self, bid):
        t = self.blocks[bid].get('term')
        if t is None:
            return None
        n = self.nodes[t]
        if n['k'] == 'bin':
            return n['op']
        return n['k']

    def preds(self):
        if self._preds is None:
            p = defaultdict(list)
            for bid in self.blocks:
                for s, lab in self.succs(bid):
                    p[s].append((bid, lab))
            self._preds = p
        return self._preds

    def reachable_blocks(self, start=None):
        start = self.entry if start is None else start
        seen = {start}; dq = deque([start])
        while dq:
            b = dq.popleft()
            for s, _ in self.succs(b):
                if s not in seen:
                    seen.add(s); dq.append(s)
        return seen

    # dominators over blocks (iterative)
    def _compute_dom(self, forward=True):
        if forward:
            root = self.entry
            nxt = lambda b: [s for s, _ in self.succs(b)]
            prv = lambda b: [p for p, _ in self.preds()[b]]
        else:
            root = self.exit
            nxt = lambda b: [p for p, _ in self.preds()[b]]
            prv = lambda b: [s for s, _ in self.succs(b)]
        # reachable set
        seen = {root}; order = [root]; dq = deque([root])
        while dq:
            b = dq.popleft()
            for s in nxt(b):
                if s not in seen:
                    seen.add(s); order.append(s); dq.append(s)
        dom = {b: set(seen) for b in seen}
        dom[root] = {root}
        changed = True
        while changed:
            changed = False
            for b in order:
                if b == root:
                    continue
                ps = [p for p in prv(b) if p in seen]
                if not ps:
                    continue
                new = set.intersection(*(dom[p] for p in ps)) | {b}
                if new != dom[b]:
                    dom[b] = new; changed = True
        return dom

    def dom(self):
        if self._dom is None:
            self._dom = self._compute_dom(True)
        return self._dom

    def pdom(self):
        if self._pdom is None:
            self._pdom = self._compute_dom(False)
        return self._pdom

    def dominates(self, p1, p2):
        """Every path from entry to point p2 passes through point p1 (points = (block, idx))."""
        b1, i1 = p1; b2, i2 = p2
        if b1 == b2:
            return i1 <= i2
        d = self.dom().get(b2)
        return d is not None and b1 in d

    def postdominates(self, p1, p2):
        """Every path from p2 to the exit passes through p1 (paths ending in noreturn calls excluded)."""
        b1, i1 = p1; b2, i2 = p2
        if b1 == b2:
            return i1 >= i2
        d = self.pdom().get(b2)
        return d is not None and b1 in d

    def edge_dominates(self, src, lab, p2):
        """Every path from entry to p2 traverses the edge src --lab-->."""
        tgt = [s for s, l in self.succs(src) if l == lab]
        if not tgt:
            return False
        tgt = tgt[0]
        b2 = p2[0]
        # remove the edge and test reachability of b2 from entry
        seen = {self.entry}; dq = deque([self.entry])
        while dq:
            b = dq.popleft()
            if b == b2:
                return False
            for s, l in self.succs(b):
                if b == src and l == lab:
                    continue
                if s not in seen:
                    seen.add(s); dq.append(s)
        return b2 not in seen

    def guards(self, point):
        """Branch outcomes every path from entry to `point` has taken:
        [(atom E, truth, block)] with !/==0 folded into truth."""
        out = []
        pruned = {b for b, _, _ in getattr(self, 'validation_exits', ())}
        for bid in self.blocks:
            if bid in pruned:
                continue        # an argument validation whose exit was pruned is no longer a branch
            c = self.cond(bid)
            if c is None:
                continue
            labs = [l for _, l in self.succs(bid)]
            for lab in labs:
                if isinstance(lab, bool) and self.edge_dominates(bid, lab, point) and (bid != point[0]):
                    atom, pol = cond_atom(c)
                    out.append((atom, lab if pol else (not lab), bid))
        return out

    def guarded_by(self, point, pred):
        """pred(atom, truth) holds for some dominating branch outcome."""
        return any(pred(a, t) for a, t, _ in self.guards(point))

    def precedes(self, e1, e2):
        """Event e1 is executed before e2 on every path reaching e2, and (within one loop
        iteration) never after it."""
        return self.dominates(e1.point, e2.point) and not self.reaches(e2.point, e1.point, acyclic=True)

    def ordered(self, e1, e2):
        """Within one loop iteration e2 can follow e1 but e1 can never follow e2 (neither needs to dominate)."""
        return self.reaches(e1.point, e2.point, acyclic=True) and not self.reaches(e2.point, e1.point, acyclic=True)

    def reachable_without_edges(self, target_block, edges, start=None):
        """Is target_block reachable from entry when the given (src, label) edges are removed?"""
        edges = set(edges)
        start = self.entry if start is None else start
        seen = {start}; dq = deque([start])
        while dq:
            b = dq.popleft()
            if b == target_block:
                return True
            for s_, l in self.succs(b):
                if (b, l) in edges:
                    continue
                if s_ not in seen:
                    seen.add(s_); dq.append(s_)
        return False

    def reaches(self, p1, p2, avoiding=(), acyclic=False):
        """Is there a CFG path from point p1 to point p2 that avoids the given points?
        acyclic=True: "within one iteration" — the back edges of the loops that contain BOTH
        points are not followed (a point after a loop is still reachable from its body)."""
        avoiding = set(avoiding)
        be = ()
        if acyclic:
            common = self.in_loop(p1[0]) & self.in_loop(p2[0])
            be = {(s_, h) for (s_, h) in self.back_edges() if h in common}
        b1, i1 = p1; b2, i2 = p2
        def blocked(b, lo, hi):
            return any(ab == b and lo <= ai < hi for ab, ai in avoiding)
        n1 = len(self.blocks[b1]['elems'])
        if b1 == b2 and i1 <= i2 and not blocked(b1, i1 + 1, i2):
            return True
        if blocked(b1, i1 + 1, n1 + 1):
            return False
        seen = set(); dq = deque(s for s, _ in self.succs(b1) if (b1, s) not in be)
        while dq:
            b = dq.popleft()
            if b in seen:
                continue
            seen.add(b)
            if b == b2:
                if not blocked(b, 0, i2):
                    return True
                continue
            if blocked(b, 0, len(self.blocks[b]['elems']) + 1):
                continue
            for s, _ in self.succs(b):
                if (b, s) not in be:
                    dq.append(s)
        return False

    def back_edges(self):
        """Edges (src, dst) where dst dominates src."""
        d = self.dom()
        r = set()
        for b in self.blocks:
            for s, _ in self.succs(b):
                if b in d and s in d[b]:
                    r.add((b, s))
        return r

    def loop_assigned(self):
        """{loop header block: set of local variable names stored to inside that natural loop}."""
        if getattr(self, '_loop_assigned', None) is not None:
            return self._loop_assigned
        out = {}
        for (src, hdr) in self.back_edges():
            body = {hdr, src}; st = [src]
            while st:
                x = st.pop()
                if x == hdr:
                    continue
                for p, _ in self.preds()[x]:
                    if p not in body:
                        body.add(p); st.append(p)
            vs = out.setdefault(hdr, set())
            for b in body:
                for ev in self.block_events(b):
                    # only scalar (non-pointer) locals: counters and flags.  Pointer locals keep their
                    # path value (documented imprecision: a pointer carried over from an earlier
                    # iteration is not modelled).
                    if ev.kind == 'store' and ev.lhs.k == 'ref' and ev.lhs.dk in ('var', 'parm', 'svar') and '*' not in (ev.lhs.ty or '*'):
                        vs.add(ev.lhs.s)
        self._loop_assigned = out
        return out

    def in_loop(self, bid):
        """Is the block inside a natural loop?  Returns the set of loop headers."""
        hs = set()
        for (src, hdr) in self.back_edges():
            # natural loop body: nodes that reach src without going through hdr
            body = {hdr, src}; st = [src]
            while st:
                x = st.pop()
                if x == hdr:
                    continue
                for p, _ in self.preds()[x]:
                    if p not in body:
                        body.add(p); st.append(p)
            if bid in body:
                hs.add(hdr)
        return hs

    # -- A-path ----------------------------------------------------------------------
    def paths(self, start=None, max_paths=20000, loop_iters=1, prune=True):
        """Enumerate paths start(entry) .. exit-or-noreturn.  A path is a list of steps
        (block, label_taken).  Each CFG edge is used at most `loop_iters` times.
        With prune=True, syntactically contradictory branch outcomes are dropped."""
        start = self.entry if start is None else start
        out = []
        count = [0]

        def rec(b, path, used, known):
            if count[0] > max_paths:
                raise AnalysisBroken('too many paths in %s' % self.name)
            ss = self.succs(b)
            # kill knowledge invalidated by stores in this block
            if prune:
                known = self._kill(known, b)
            if not ss:
                count[0] += 1
                out.append(path + [(b, None)])
                return
            c = self.cond(b) if len(ss) > 1 or self.blocks[b].get('term') is not None else None
            for s, lab in ss:
                key = (b, s, lab)
                if used.get(key, 0) >= loop_iters:
                    continue
                k2 = known
                if prune and c is not None and isinstance(lab, bool):
                    atom, pol = cond_atom(c)
                    truth = lab if pol else (not lab)
                    if atom.cv is not None:
                        if bool(atom.cv) != truth:
                            continue
                    prev = known.get(atom.s)
                    if prev is not None and prev != truth:
                        continue
                    k2 = dict(known); k2[atom.s] = truth
                u2 = dict(used); u2[key] = u2.get(key, 0) + 1
                rec(s, path + [(b, lab)], u2, k2)

        rec(start, [], {}, {})
        return out

    def _kill(self, known, b):
        if not known:
            return known
        killed = set()
        for ev in self.block_events(b):
            if ev.kind == 'store':
                killed.add(ev.lhs.s)
            elif ev.kind == 'call':
                # a call may modify anything whose address is passed, and any non-local
                for a in ev.args or ():
                    if a.k == 'un' and a.op == '&':
                        killed.add(a.ch[0].s)
                killed.add('*call*')
        if not killed:
            return known
        nk = {}
        for a, t in known.items():
            drop = False
            for kname in killed:
                if kname == '*call*':
                    # conditions over memory (->, ., [], *) or globals may change across calls
                    if '->' in a or '(' in a or '[' in a or '*' in a:
                        drop = True
                elif re.search(r'(?<![\w>.])%s(?![\w])' % re.escape(kname), a):
                    drop = True
            if not drop:
                nk[a] = t
        return nk

    def path_events(self, path):
        """Events along a path, with ('assume', cond, label) pseudo-events at branches."""
        out = []
        la = self.loop_assigned()
        for b, lab in path:
            if b in la:
                ev = Event('loophead', args=sorted(la[b]))
                ev.block = b; ev.idx = -1; ev.loc = self.where()
                out.append(ev)
            out.extend(self.block_events(b))
            if lab is not None:
                c = self.cond(b)
                if c is not None:
                    ev = Event('assume', e=c, op=lab)
                    ev.block = b; ev.idx = len(self.blocks[b]['elems']); ev.loc = self.loc(self.blocks[b]['cond'])
                    out.append(ev)
        return out

    # -- generic forward dataflow ------------------------------------------------------
    def forward(self, init, transfer, join, refine=None, start=None):
        """Worklist solver at block level. transfer(event, state)->state ; join(a,b)->state ;
        refine(block, label, cond, state)->state|None (None = edge infeasible).
        Returns (state_in, state_at) where state_at(point) gives the state *before* the event."""
        start = self.entry if start is None else start
        sin = {start: init}
        wl = deque([start])
        sout_edge = {}
        iters = 0
        while wl:
            iters += 1
            if iters > 100000:
                raise AnalysisBroken('dataflow did not converge in %s' % self.name)
            b = wl.popleft()
            st = sin[b]
            for ev in self.block_events(b):
                st = transfer(ev, st)
            c = self.cond(b)
            for s, lab in self.succs(b):
                st2 = st
                if refine is not None and c is not None:
                    st2 = refine(b, lab, c, st)
                    if st2 is None:
                        continue
                if s in sin:
                    j = join(sin[s], st2)
                    if j != sin[s]:
                        sin[s] = j; wl.append(s)
                else:
                    sin[s] = st2; wl.append(s)

        def state_before(ev):
            st = sin.get(ev.block)
            if st is None:
                return None       # unreachable
            for e2 in self.block_events(ev.block):
                if e2 is ev:
                    return st
                st = transfer(e2, st)
            return st

        def state_at_end(bid):
            st = sin.get(bid)
            if st is None:
                return None
            for e2 in self.block_events(bid):
                st = transfer(e2, st)
            return st
        return sin, state_before, state_at_end

    # -- AST helpers -------------------------------------------------------------------
    def ast_children(self, nid):
        n = self.nodes[nid]
        k = n['k']
        out = []
        for key in ('init', 'cond', 'inc', 'then', 'else', 'body', 'val', 'sub'):
            if key in n and isinstance(n[key], int) and n[key] >= 0:
                out.append(n[key])
        for c in n.get('ch', []):
            if c is not None and c >= 0:
                out.append(c)
        if k == 'decl':
            for v in n.get('vars', []):
                if 'init' in v:
                    out.append(v['init'])
        return out

    def ast_walk(self, nid=None):
        nid = self.d['body'] if nid is None else nid
        st = [nid]
        while st:
            x = st.pop()
            yield x
            st.extend(reversed(self.ast_children(x)))

    def stmts_of_kind(self, kind, root=None):
        return [x for x in self.ast_walk(root) if self.nodes[x]['k'] == kind]


def cond_atom(c):
    """Normalise a branch condition to (atom, polarity): !a -> (a, False);
    a != 0 -> (a, True); a == 0 / 0 == a -> (a, False)."""
    pol = True
    while True:
        if c.k == 'asg' and c.op == '=':
            c = c.ch[1]; continue
        if c.k == 'un' and c.op == '!':
            c = c.ch[0]; pol = not pol; continue
        if c.k == 'bin' and c.op in ('==', '!='):
            l, r = c.ch
            z = None
            if r.k == 'int' and r.cv == 0:
                z = l
            elif l.k == 'int' and l.cv == 0:
                z = r
            if z is not None:
                if c.op == '==':
                    pol = not pol
                c = z
                continue
        break
    return c, pol



# ------------------------------------------------------------------------------------
# alpha-conversion of renamed locals (see tools/gen_names.py)
# ------------------------------------------------------------------------------------
_NAMES = None


def decl_list(fd):
    """[(decl id, name, type, kind)] of the parameters and locals of a function record, in declaration order."""
    out = {}
    for p in fd.get('params', []):
        if p.get('n') and 'd' in p:
            out[p['d']] = (p['n'], p.get('ty', ''), 'parm')
    for n in fd.get('nodes', []):
        if n.get('k') == 'decl':
            for v in n.get('vars', []):
                if v.get('n') and 'd' in v and v['d'] not in out:
                    out[v['d']] = (v['n'], v.get('ty', ''), 'var')
    return [[d, out[d][0], out[d][1], out[d][2]] for d in sorted(out)]


def alpha_normalise(unit, fd, file):
    """If the locals / parameters of this function differ from the reference spelling only by their names,
    rewrite the facts to the reference names (binding by declaration: same type, same order among the
    renamed ones).  Returns {reference name: actual name} or {}."""
    global _NAMES
    import os as _os
    if _os.environ.get('VERIF_NO_ALPHA'):
        return {}
    if _NAMES is None:
        try:
            with open(_os.path.join(_os.path.dirname(_os.path.abspath(__file__)), 'names.json')) as f:
                _NAMES = json.load(f)
        except OSError:
            _NAMES = {}
    if not file.startswith('/repo/'):
        return {}
    ref = _NAMES.get('%s:%s' % (_os.path.relpath(file, '/repo'), fd['name']))
    if not ref:
        return {}
    act = decl_list(fd)
    ref_names = [r[1] for r in ref]; act_names = [a[1] for a in act]
    if ref_names == act_names:
        return {}
    new = [a for a in act if a[1] not in ref_names]
    missing = [r for r in ref if r[1] not in act_names]
    if not new or not missing:
        return {}
    mapping = {}        # decl id -> reference name
    by_ty_new, by_ty_mis = {}, {}
    for a in new:
        by_ty_new.setdefault((a[2], a[3]), []).append(a)
    for r in missing:
        by_ty_mis.setdefault((r[2], r[3]), []).append(r)
    for ty, an in by_ty_new.items():
        rm = by_ty_mis.get(ty, [])
        if len(rm) == len(an):
            for a, r in zip(an, rm):
                mapping[a[0]] = r[1]
    if not mapping:
        return {}
    back = {}
    for p in fd.get('params', []):
        if p.get('d') in mapping:
            back[mapping[p['d']]] = p['n']; p['n'] = mapping[p['d']]
    for n in fd.get('nodes', []):
        if n.get('k') == 'ref' and n.get('d') in mapping and n.get('dk') in ('var', 'parm', 'svar'):
            back[mapping[n['d']]] = n['n']; n['n'] = mapping[n['d']]
        elif n.get('k') == 'decl':
            for v in n.get('vars', []):
                if v.get('d') in mapping:
                    back[mapping[v['d']]] = v['n']; v['n'] = mapping[v['d']]
    return back

# ------------------------------------------------------------------------------------
# units
# ------------------------------------------------------------------------------------
class Unit:
    def __init__(self, path):
        with open(path) as f:
            d = json.load(f)
        self.path = path
        self.src = d['unit']
        self.files = d['files']
        self.d = d
        self._funcs = None
        self._globals = None

    def funcs(self):
        if self._funcs is None:
            self._funcs = {}
            for fd in self.d['functions']:
                if 'cfg' not in fd:
                    continue
                self._funcs.setdefault(fd['name'], Func(self, fd))
        return self._funcs

    def func(self, name):
        f = self.funcs().get(name)
        if f is None:
            raise AnalysisBroken('function %s not found in %s' % (name, self.src))
        return f

    def has_func(self, name):
        return name in self.funcs()

    def globals(self):
        if self._globals is None:
            self._globals = {}
            for g in self.d['globals']:
                self._globals[g['name']] = Global(self, g)
        return self._globals

    def glob(self, name):
        g = self.globals().get(name)
        if g is None:
            raise AnalysisBroken('global %s not found in %s' % (name, self.src))
        return g

    def records(self):
        return {r['name']: r for r in self.d['records']}


class Global:
    """File-scope variable with an initialiser; reuses Func's expression builder."""
    def __init__(self, unit, d):
        self.unit = unit; self.d = d; self.name = d['name']
        self.nodes = d.get('nodes', [])
        self.file = unit.files[d['f']] if 'f' in d else '?'
        self.line = d.get('l', 0)
        self.ty = d.get('ty')
        self._ecache = {}

    expr = Func.expr
    _build = Func._build

    def loc(self, nid):
        n = self.nodes[nid]
        return '%s:%d' % (self.unit.files[n['f']], n['l']) if 'f' in n else self.file

    def init(self):
        return self.expr(self.d['init']) if 'init' in self.d else None

    def fields(self):
        """For a struct initialiser: {field: E}."""
        e = self.init()
        if e is None or e.k != 'init' or not isinstance(e.extra, list):
            raise AnalysisBroken('%s is not a struct initialiser' % self.name)
        return dict(zip(e.extra, e.ch))


def init_fields(e):
    if e is None or e.k != 'init' or not isinstance(e.extra, list):
        return None
    return dict(zip(e.extra, e.ch))


# ------------------------------------------------------------------------------------
# A-lock : lockset typestate
# ------------------------------------------------------------------------------------
class LockTable:
    """acquire / release / trylock primitives: name -> (argument index, lock-name transform)."""
    def __init__(self, acquire, release, trylock=None, wrappers=None):
        self.acquire = acquire      # {fn: argidx or callable(ev)->lockname}
        self.release = release
        self.trylock = trylock or {}   # {fn: (argidx, success_value_truthy)}
        self.wrappers = wrappers or {}  # {fn: ('acq'|'rel', callable(ev)->lockname)}

    def lockname(self, spec, ev):
        if callable(spec):
            return spec(ev)
        a = ev.args[spec]
        s = a.s
        if s.startswith('&'):
            s = s[1:]
        return s


def lockset_analysis(func, table, init=frozenset()):
    """Must-hold and may-hold locksets.  Returns object with .must_before(ev), .may_before(ev),
    .must_at_exit(), .may_at_exit(), per return."""
    def transfer(ev, st):
        must, may = st
        if ev.kind == 'call':
            if ev.fn in table.acquire:
                l = table.lockname(table.acquire[ev.fn], ev)
                if l is not None:
                    return (must | {l}, may | {l})
            if ev.fn in table.release:
                l = table.lockname(table.release[ev.fn], ev)
                if l is not None:
                    return (must - {l}, may - {l})
        return st

    def join(a, b):
        return (a[0] & b[0], a[1] | b[1])

    def refine(b, lab, c, st):
        if not isinstance(lab, bool):
            return st
        atom, pol = cond_atom(c)
        # comparison of trylock result with a constant
        target = atom
        expect_true = lab if pol else (not lab)
        if atom.k == 'bin' and atom.op in ('==', '!=') :
            l, r = atom.ch
            call, k = (l, r) if l.k == 'call' else (r, l)
            if call.k == 'call' and k.cv is not None and call.n in table.trylock:
                succ_val = table.trylock[call.n][1]
                is_succ = (k.cv == succ_val) if atom.op == '==' else (k.cv != succ_val)
                got = is_succ if expect_true else (not is_succ)
                # only definite when the value space is {0,1}
                if got:
                    ln = table.lockname(table.trylock[call.n][0], Event('call', fn=call.n, args=list(call.ch)))
                    return (st[0] | {ln}, st[1] | {ln})
                return st
        if target.k == 'call' and target.n in table.trylock:
            succ_val = table.trylock[target.n][1]
            got = expect_true if succ_val else (not expect_true)
            if got:
                ln = table.lockname(table.trylock[target.n][0], Event('call', fn=target.n, args=list(target.ch)))
                return (st[0] | {ln}, st[1] | {ln})
        return st

    sin, before, at_end = func.forward((frozenset(init), frozenset(init)), transfer, join, refine)

    class R:
        pass
    r = R()
    r.before = before
    r.at_end = at_end
    r.sin = sin
    def must_before(ev):
        s = before(ev)
        return s[0] if s is not None else None
    def may_before(ev):
        s = before(ev)
        return s[1] if s is not None else None
    r.must_before = must_before
    r.may_before = may_before
    def exits():
        """[(ret_event_or_None, must, may, loc)] for every edge into the exit block
        (explicit returns and falling off the end); noreturn blocks excluded."""
        out = []
        for pb, _ in func.preds()[func.exit]:
            if func.blocks[pb].get('noreturn'):
                continue          # exit(), abort(), parsec_fatal-like calls: not a return
            st = at_end(pb)
            if st is None:
                continue
            rets = [e for e in func.block_events(pb) if e.kind == 'ret']
            ev = rets[-1] if rets else None
            loc = ev.loc if ev is not None else '%s:%d' % (func.file, func.endl)
            out.append((ev, st[0], st[1], loc))
        return out
    r.exits = exits
    return r


# ------------------------------------------------------------------------------------
# misc helpers used by rules
# ------------------------------------------------------------------------------------
def strip_addr(e):
    if e.k == 'un' and e.op == '&':
        return e.ch[0]
    return e


def render_path(func, path):
    return ['%s:B%d%s' % (func.name, b, '' if lab is None else '[%s]' % (lab,)) for b, lab in path]


# ------------------------------------------------------------------------------------
# A-eff helpers: field accesses inside one function
# ------------------------------------------------------------------------------------
class Access:
    __slots__ = ('ev', 'kind', 'lv', 'field', 'rec', 'func')

    def __init__(self, ev, kind, lv, func):
        self.ev = ev; self.kind = kind; self.lv = lv; self.field = lv.n; self.rec = lv.rec; self.func = func

    def __repr__(self):
        return '%s %s @%s' % (self.kind, self.lv.s, self.ev.loc)


def _mem_nodes(e):
    return [x for x in e.walk() if x.k == 'mem']


def field_accesses(func, fields, rec=None):
    """Every access (plain load, plain store, ++/--, compound store, address-taken-in-call:
    kind 'atomic:<fn>' when passed by address to an atomic wrapper, else 'addr:<fn>') to a
    struct field named in `fields` (optionally restricted to record `rec`)."""
    out = []
    fields = set(fields)

    def want(m):
        return m.k == 'mem' and m.n in fields and (rec is None or m.rec == rec or (isinstance(rec, (set, tuple, list)) and m.rec in rec))

    for ev in func.events():
        if ev.kind == 'store':
            if want(ev.lhs):
                out.append(Access(ev, 'store' if ev.op == '=' else 'rmw-plain', ev.lhs, func))
        elif ev.kind == 'load':
            if want(ev.e):
                out.append(Access(ev, 'load', ev.e, func))
        elif ev.kind == 'call':
            for a in ev.args or ():
                if a.k == 'un' and a.op == '&' and want(a.ch[0]):
                    fn = ev.fn or 'indirect'
                    kind = 'atomic:' + fn if fn.startswith('parsec_atomic_') or fn.startswith('__sync') or fn.startswith('__atomic') else 'addr:' + fn
                    out.append(Access(ev, kind, a.ch[0], func))
    # a load that is merely the operand of a store/++ on the same lvalue is reported once (as the store)
    return out
