// Fact extractor for the PaRSEC static checks (clang 14 LibTooling).
//
// For one C translation unit, compiled with the flags of the real build, writes a JSON
// file with: every function defined in a file matching --keep (AST node table + clang CFG
// built with setAllAlwaysAdd), file-scope variable initialisers, record layouts.
//
// usage: extract --out=<file.json> [--keep=<path-prefix>]... <source> -- <compile flags>
#include "clang/AST/ASTConsumer.h"
#include "clang/AST/ASTContext.h"
#include "clang/AST/Decl.h"
#include "clang/AST/Expr.h"
#include "clang/AST/Stmt.h"
#include "clang/AST/RecursiveASTVisitor.h"
#include "clang/Analysis/CFG.h"
#include "clang/Frontend/CompilerInstance.h"
#include "clang/Frontend/FrontendAction.h"
#include "clang/Lex/Lexer.h"
#include "clang/Tooling/CommonOptionsParser.h"
#include "clang/Tooling/Tooling.h"
#include "llvm/Support/CommandLine.h"
#include "llvm/Support/JSON.h"
#include "llvm/Support/raw_ostream.h"
#include <map>
#include <set>
#include <string>
#include <vector>

using namespace clang;
using namespace clang::tooling;

static llvm::cl::OptionCategory Cat("extract options");
static llvm::cl::opt<std::string> OutFile("out", llvm::cl::desc("output json"), llvm::cl::cat(Cat));
static llvm::cl::list<std::string> Keep("keep", llvm::cl::desc("keep functions defined in files with this prefix"), llvm::cl::cat(Cat));
static llvm::cl::opt<bool> MainOnly("main-only", llvm::cl::desc("only functions of the main file"), llvm::cl::cat(Cat));

namespace {

struct Emitter {
  ASTContext &Ctx;
  SourceManager &SM;
  llvm::json::OStream &J;
  std::map<std::string, int> FileIds;
  std::vector<std::string> Files;
  // per function
  std::map<const Stmt *, int> Ids;
  std::vector<const Stmt *> Order;
  std::map<const Decl *, int> DeclIds;

  Emitter(ASTContext &C, llvm::json::OStream &J) : Ctx(C), SM(C.getSourceManager()), J(J) {}

  int fileId(StringRef F) {
    auto It = FileIds.find(F.str());
    if (It != FileIds.end()) return It->second;
    int Id = Files.size();
    Files.push_back(F.str());
    FileIds[F.str()] = Id;
    return Id;
  }

  std::string fileOf(SourceLocation L) {
    if (L.isInvalid()) return "";
    PresumedLoc P = SM.getPresumedLoc(SM.getExpansionLoc(L), /*UseLineDirectives=*/false);
    if (P.isInvalid()) return "";
    std::string F = P.getFilename();
    // normalise a/b/../c
    llvm::SmallString<256> S(F);
    llvm::sys::path::remove_dots(S, true);
    return std::string(S.str());
  }

  bool keepFile(const std::string &F) {
    if (Keep.empty()) return true;
    for (auto &K : Keep)
      if (StringRef(F).startswith(K)) return true;
    return false;
  }

  int declId(const Decl *D) {
    auto It = DeclIds.find(D);
    if (It != DeclIds.end()) return It->second;
    int Id = DeclIds.size();
    DeclIds[D] = Id;
    return Id;
  }

  void emitLoc(SourceLocation L) {
    if (L.isInvalid()) return;
    SourceLocation E = SM.getExpansionLoc(L);
    PresumedLoc P = SM.getPresumedLoc(E, false);
    if (P.isInvalid()) return;
    llvm::SmallString<256> S(P.getFilename());
    llvm::sys::path::remove_dots(S, true);
    J.attribute("f", fileId(S.str()));
    J.attribute("l", (int64_t)P.getLine());
    J.attribute("c", (int64_t)P.getColumn());
    if (L.isMacroID()) {
      // outermost macro name: identifier token at the expansion location
      llvm::SmallString<64> Buf;
      StringRef Tok = Lexer::getSpelling(E, Buf, SM, Ctx.getLangOpts());
      J.attribute("mo", Tok);
      StringRef Imm = Lexer::getImmediateMacroName(L, SM, Ctx.getLangOpts());
      if (!Imm.empty() && Imm != Tok) J.attribute("mi", Imm);
      SourceLocation Sp = SM.getSpellingLoc(L);
      PresumedLoc PS = SM.getPresumedLoc(Sp, false);
      if (PS.isValid()) {
        llvm::SmallString<256> S2(PS.getFilename());
        llvm::sys::path::remove_dots(S2, true);
        J.attribute("sf", fileId(S2.str()));
        J.attribute("sl", (int64_t)PS.getLine());
      }
    }
  }

  static std::string recName(const RecordDecl *RD) {
    if (!RD) return "";
    if (RD->getIdentifier()) return RD->getName().str();
    if (const TypedefNameDecl *T = RD->getTypedefNameForAnonDecl()) return T->getName().str();
    // anonymous struct inside another: use parent name + "::<anon>"
    if (const auto *P = dyn_cast_or_null<RecordDecl>(RD->getDeclContext()))
      return recName(P) + "::<anon>";
    return "<anon>";
  }

  std::string typeStr(QualType T) {
    if (T.isNull()) return "";
    PrintingPolicy PP(Ctx.getLangOpts());
    PP.SuppressTagKeyword = true;
    return T.getUnqualifiedType().getAsString(PP);
  }

  void number(const Stmt *S) {
    if (!S) return;
    if (Ids.count(S)) return;
    Ids[S] = Order.size();
    Order.push_back(S);
    for (const Stmt *C : S->children()) number(C);
  }

  int idOf(const Stmt *S) {
    if (!S) return -1;
    auto It = Ids.find(S);
    if (It != Ids.end()) return It->second;
    number(S);
    return Ids[S];
  }

  void childArray(const Stmt *S) {
    J.attributeArray("ch", [&] {
      for (const Stmt *C : S->children()) J.value(C ? (int64_t)idOf(C) : (int64_t)-1);
    });
  }

  void emitConst(const Expr *E) {
    if (!E || E->isValueDependent()) return;
    if (!E->getType()->isIntegralOrEnumerationType()) return;
    Expr::EvalResult R;
    if (E->EvaluateAsInt(R, Ctx, Expr::SE_NoSideEffects)) {
      llvm::APSInt V = R.Val.getInt();
      if (V.isSigned() ? V.getMinSignedBits() <= 64 : V.getActiveBits() <= 63)
        J.attribute("cv", V.isSigned() ? V.getSExtValue() : (int64_t)V.getZExtValue());
      else
        J.attribute("cvs", llvm::toString(V, 10));
    }
  }

  void emitNode(const Stmt *S) {
    J.object([&] {
      if (!S) { J.attribute("k", "null"); return; }
      emitLoc(S->getBeginLoc());
      if (const auto *E = dyn_cast<Expr>(S)) {
        // constant value where the front end can fold it
        if (!isa<InitListExpr>(E)) emitConst(E);
      }
      if (const auto *IL = dyn_cast<IntegerLiteral>(S)) {
        J.attribute("k", "int");
        (void)IL;
      } else if (const auto *CL = dyn_cast<CharacterLiteral>(S)) {
        J.attribute("k", "int"); (void)CL;
      } else if (const auto *FL = dyn_cast<FloatingLiteral>(S)) {
        J.attribute("k", "float");
        J.attribute("v", FL->getValueAsApproximateDouble());
      } else if (const auto *SL = dyn_cast<StringLiteral>(S)) {
        J.attribute("k", "str");
        if (SL->getCharByteWidth() == 1) J.attribute("v", SL->getString());
      } else if (const auto *DR = dyn_cast<DeclRefExpr>(S)) {
        J.attribute("k", "ref");
        const ValueDecl *D = DR->getDecl();
        J.attribute("n", D->getNameAsString());
        if (isa<FunctionDecl>(D)) J.attribute("dk", "fn");
        else if (isa<EnumConstantDecl>(D)) J.attribute("dk", "enum");
        else if (isa<ParmVarDecl>(D)) { J.attribute("dk", "parm"); J.attribute("d", declId(D)); }
        else if (const auto *VD = dyn_cast<VarDecl>(D)) {
          if (VD->isLocalVarDecl() ) { J.attribute("dk", VD->isStaticLocal() ? "svar" : "var"); J.attribute("d", declId(D)); }
          else J.attribute("dk", "gvar");
        } else J.attribute("dk", "other");
        J.attribute("ty", typeStr(DR->getType()));
      } else if (const auto *ME = dyn_cast<MemberExpr>(S)) {
        J.attribute("k", "mem");
        J.attribute("n", ME->getMemberDecl()->getNameAsString());
        if (const auto *FD = dyn_cast<FieldDecl>(ME->getMemberDecl()))
          J.attribute("rec", recName(FD->getParent()));
        J.attribute("arrow", ME->isArrow());
        J.attribute("ty", typeStr(ME->getType()));
        childArray(S);
      } else if (isa<ArraySubscriptExpr>(S)) {
        J.attribute("k", "idx");
        childArray(S);
      } else if (const auto *UO = dyn_cast<UnaryOperator>(S)) {
        J.attribute("k", "un");
        std::string Op = UnaryOperator::getOpcodeStr(UO->getOpcode()).str();
        if (UO->isPostfix()) Op = "post" + Op; else if (UO->isIncrementDecrementOp()) Op = "pre" + Op;
        J.attribute("op", Op);
        childArray(S);
      } else if (const auto *BO = dyn_cast<BinaryOperator>(S)) {
        J.attribute("k", BO->isAssignmentOp() ? "asg" : "bin");
        J.attribute("op", BO->getOpcodeStr());
        childArray(S);
      } else if (isa<ConditionalOperator>(S) || isa<BinaryConditionalOperator>(S)) {
        J.attribute("k", "cond");
        childArray(S);
      } else if (const auto *CE = dyn_cast<CallExpr>(S)) {
        J.attribute("k", "call");
        if (const FunctionDecl *FD = CE->getDirectCallee()) {
          J.attribute("fn", FD->getNameAsString());
          if (FD->getBuiltinID()) J.attribute("builtin", true);
        }
        J.attribute("ty", typeStr(CE->getType()));
        childArray(S);
      } else if (const auto *CA = dyn_cast<CastExpr>(S)) {
        J.attribute("k", "cast");
        J.attribute("ck", CA->getCastKindName());
        if (isa<ExplicitCastExpr>(CA)) { J.attribute("ex", true); J.attribute("ty", typeStr(CA->getType())); }
        childArray(S);
      } else if (isa<ParenExpr>(S)) {
        J.attribute("k", "paren");
        childArray(S);
      } else if (const auto *UE = dyn_cast<UnaryExprOrTypeTraitExpr>(S)) {
        J.attribute("k", "sizeof");
        if (UE->isArgumentType()) J.attribute("ty", typeStr(UE->getArgumentType()));
        else childArray(S);
      } else if (const auto *AE = dyn_cast<AtomicExpr>(S)) {
        J.attribute("k", "atomic");
        J.attribute("op", (int64_t)AE->getOp());
        // spelled builtin name
        llvm::SmallString<64> Buf;
        StringRef Tok = Lexer::getSpelling(SM.getSpellingLoc(AE->getBuiltinLoc()), Buf, SM, Ctx.getLangOpts());
        J.attribute("fn", Tok);
        // in source order: ptr, val1/order...
        J.attributeArray("ch", [&] {
          for (const Stmt *C : const_cast<AtomicExpr *>(AE)->children()) J.value((int64_t)idOf(C));
        });
      } else if (isa<StmtExpr>(S)) {
        J.attribute("k", "stmtexpr");
        childArray(S);
      } else if (const auto *IL = dyn_cast<InitListExpr>(S)) {
        J.attribute("k", "init");
        const InitListExpr *Sem = IL->isSemanticForm() ? IL : (IL->getSemanticForm() ? IL->getSemanticForm() : IL);
        QualType T = Sem->getType();
        J.attribute("ty", typeStr(T));
        if (const RecordType *RT = T->getAs<RecordType>()) {
          const RecordDecl *RD = RT->getDecl();
          J.attribute("rec", recName(RD));
          J.attributeArray("fields", [&] {
            if (RD->isUnion()) {
              if (const FieldDecl *F = Sem->getInitializedFieldInUnion()) J.value(F->getNameAsString());
            } else {
              unsigned i = 0;
              for (const FieldDecl *F : RD->fields()) {
                if (F->isUnnamedBitfield()) continue;
                if (i++ >= Sem->getNumInits()) break;
                J.value(F->getIdentifier() ? F->getNameAsString() : std::string("<anon>"));
              }
            }
          });
        }
        J.attributeArray("ch", [&] {
          for (unsigned i = 0; i < Sem->getNumInits(); ++i) J.value((int64_t)idOf(Sem->getInit(i)));
        });
      } else if (isa<ImplicitValueInitExpr>(S)) {
        J.attribute("k", "zeroinit");
      } else if (const auto *DS = dyn_cast<DeclStmt>(S)) {
        J.attribute("k", "decl");
        J.attributeArray("vars", [&] {
          for (const Decl *D : DS->decls()) {
            if (const auto *VD = dyn_cast<VarDecl>(D)) {
              J.object([&] {
                J.attribute("n", VD->getNameAsString());
                J.attribute("d", declId(VD));
                J.attribute("ty", typeStr(VD->getType()));
                if (VD->isStaticLocal()) J.attribute("static", true);
                if (VD->hasInit()) J.attribute("init", idOf(VD->getInit()));
              });
            }
          }
        });
      } else if (isa<ReturnStmt>(S)) {
        J.attribute("k", "ret");
        childArray(S);
      } else if (isa<CompoundStmt>(S)) {
        J.attribute("k", "compound");
        childArray(S);
      } else if (const auto *If = dyn_cast<IfStmt>(S)) {
        J.attribute("k", "if");
        J.attribute("cond", idOf(If->getCond()));
        J.attribute("then", idOf(If->getThen()));
        if (If->getElse()) J.attribute("else", idOf(If->getElse()));
      } else if (const auto *W = dyn_cast<WhileStmt>(S)) {
        J.attribute("k", "while");
        J.attribute("cond", idOf(W->getCond()));
        J.attribute("body", idOf(W->getBody()));
      } else if (const auto *D = dyn_cast<DoStmt>(S)) {
        J.attribute("k", "do");
        J.attribute("cond", idOf(D->getCond()));
        J.attribute("body", idOf(D->getBody()));
      } else if (const auto *F = dyn_cast<ForStmt>(S)) {
        J.attribute("k", "for");
        if (F->getInit()) J.attribute("init", idOf(F->getInit()));
        if (F->getCond()) J.attribute("cond", idOf(F->getCond()));
        if (F->getInc()) J.attribute("inc", idOf(F->getInc()));
        J.attribute("body", idOf(F->getBody()));
      } else if (const auto *Sw = dyn_cast<SwitchStmt>(S)) {
        J.attribute("k", "switch");
        J.attribute("cond", idOf(Sw->getCond()));
        J.attribute("body", idOf(Sw->getBody()));
      } else if (const auto *Cs = dyn_cast<CaseStmt>(S)) {
        J.attribute("k", "case");
        J.attribute("val", idOf(Cs->getLHS()));
        J.attribute("sub", idOf(Cs->getSubStmt()));
      } else if (const auto *Df = dyn_cast<DefaultStmt>(S)) {
        J.attribute("k", "default");
        J.attribute("sub", idOf(Df->getSubStmt()));
      } else if (isa<BreakStmt>(S)) {
        J.attribute("k", "break");
      } else if (isa<ContinueStmt>(S)) {
        J.attribute("k", "continue");
      } else if (const auto *G = dyn_cast<GotoStmt>(S)) {
        J.attribute("k", "goto");
        J.attribute("n", G->getLabel()->getName());
      } else if (const auto *L = dyn_cast<LabelStmt>(S)) {
        J.attribute("k", "label");
        J.attribute("n", L->getName());
        J.attribute("sub", idOf(L->getSubStmt()));
      } else if (isa<NullStmt>(S)) {
        J.attribute("k", "nullstmt");
      } else if (const auto *AS = dyn_cast<AttributedStmt>(S)) {
        J.attribute("k", "attributed");
        J.attribute("sub", idOf(AS->getSubStmt()));
      } else if (const auto *CLE = dyn_cast<CompoundLiteralExpr>(S)) {
        J.attribute("k", "complit");
        J.attribute("ty", typeStr(CLE->getType()));
        childArray(S);
      } else if (const auto *OE = dyn_cast<OffsetOfExpr>(S)) {
        J.attribute("k", "offsetof"); (void)OE;
      } else if (const auto *CO = dyn_cast<ConstantExpr>(S)) {
        J.attribute("k", "paren"); (void)CO;
        childArray(S);
      } else if (const auto *OV = dyn_cast<OpaqueValueExpr>(S)) {
        J.attribute("k", "paren");
        J.attributeArray("ch", [&] { if (OV->getSourceExpr()) J.value((int64_t)idOf(OV->getSourceExpr())); });
      } else {
        J.attribute("k", "other");
        J.attribute("cls", S->getStmtClassName());
        childArray(S);
      }
    });
  }

  void emitNodeTable() {
    J.attributeArray("nodes", [&] {
      // Order may grow while emitting (idOf on unseen statements)
      for (size_t i = 0; i < Order.size(); ++i) emitNode(Order[i]);
    });
  }

  void emitCFG(const FunctionDecl *FD) {
    CFG::BuildOptions BO;
    BO.setAllAlwaysAdd();
    BO.PruneTriviallyFalseEdges = true;
    BO.AddEHEdges = false;
    BO.AddInitializers = false;
    BO.AddImplicitDtors = false;
    std::unique_ptr<CFG> G = CFG::buildCFG(FD, FD->getBody(), &Ctx, BO);
    if (!G) { J.attribute("cfg_error", true); return; }
    J.attributeObject("cfg", [&] {
      J.attribute("entry", (int64_t)G->getEntry().getBlockID());
      J.attribute("exit", (int64_t)G->getExit().getBlockID());
      J.attributeArray("blocks", [&] {
        for (const CFGBlock *B : *G) {
          J.object([&] {
            J.attribute("id", (int64_t)B->getBlockID());
            J.attributeArray("elems", [&] {
              for (const CFGElement &E : *B)
                if (auto CS = E.getAs<CFGStmt>()) J.value((int64_t)idOf(CS->getStmt()));
            });
            if (const Stmt *L = B->getLabel()) {
              J.attribute("label", (int64_t)idOf(L));
            }
            if (const Stmt *T = B->getTerminatorStmt()) {
              J.attribute("term", (int64_t)idOf(T));
              if (const Stmt *C = B->getTerminatorCondition(/*StripParens=*/false))
                J.attribute("cond", (int64_t)idOf(C));
            }
            if (B->hasNoReturnElement()) J.attribute("noreturn", true);
            J.attributeArray("succs", [&] {
              for (auto I = B->succ_begin(); I != B->succ_end(); ++I) {
                if (const CFGBlock *SB = I->getReachableBlock()) J.value((int64_t)SB->getBlockID());
                else J.value(nullptr);
              }
            });
            J.attributeArray("usuccs", [&] {
              for (auto I = B->succ_begin(); I != B->succ_end(); ++I) {
                if (I->getReachableBlock()) J.value(nullptr);
                else if (const CFGBlock *SB = I->getPossiblyUnreachableBlock()) J.value((int64_t)SB->getBlockID());
                else J.value(nullptr);
              }
            });
          });
        }
      });
    });
  }

  void emitFunction(const FunctionDecl *FD) {
    Ids.clear(); Order.clear(); DeclIds.clear();
    J.object([&] {
      J.attribute("name", FD->getNameAsString());
      emitLoc(FD->getLocation());
      PresumedLoc PE = SM.getPresumedLoc(SM.getExpansionLoc(FD->getEndLoc()), false);
      if (PE.isValid()) J.attribute("endl", (int64_t)PE.getLine());
      J.attribute("static", FD->getStorageClass() == SC_Static);
      J.attribute("inline", FD->isInlineSpecified());
      J.attribute("ret", typeStr(FD->getReturnType()));
      J.attributeArray("params", [&] {
        for (const ParmVarDecl *P : FD->parameters())
          J.object([&] {
            J.attribute("n", P->getNameAsString());
            J.attribute("d", declId(P));
            J.attribute("ty", typeStr(P->getType()));
          });
      });
      number(FD->getBody());
      J.attribute("body", idOf(FD->getBody()));
      // CFG first (may add synthetic statements), serialised after nodes by buffering order:
      // llvm::json::OStream is streaming, so emit the CFG first, nodes after.
      emitCFG(FD);
      emitNodeTable();
    });
  }

  void emitGlobal(const VarDecl *VD) {
    Ids.clear(); Order.clear(); DeclIds.clear();
    J.object([&] {
      J.attribute("name", VD->getNameAsString());
      emitLoc(VD->getLocation());
      J.attribute("ty", typeStr(VD->getType()));
      J.attribute("static", VD->getStorageClass() == SC_Static);
      if (VD->hasInit()) {
        number(VD->getInit());
        J.attribute("init", idOf(VD->getInit()));
        emitNodeTable();
      }
    });
  }

  void emitRecord(const RecordDecl *RD) {
    J.object([&] {
      J.attribute("name", recName(RD));
      emitLoc(RD->getLocation());
      J.attribute("union", RD->isUnion());
      J.attributeArray("fields", [&] {
        for (const FieldDecl *F : RD->fields()) {
          J.object([&] {
            J.attribute("n", F->getNameAsString());
            J.attribute("ty", typeStr(F->getType()));
            QualType T = F->getType().getCanonicalType();
            bool FnPtr = T->isFunctionPointerType();
            J.attribute("fnptr", FnPtr);
            if (const RecordType *RT = T->getAs<RecordType>()) J.attribute("rec", recName(RT->getDecl()));
            else if (T->isPointerType())
              if (const RecordType *RT2 = T->getPointeeType()->getAs<RecordType>())
                J.attribute("prec", recName(RT2->getDecl()));
          });
        }
      });
    });
  }
};

class Consumer : public ASTConsumer {
public:
  void HandleTranslationUnit(ASTContext &Ctx) override {
    std::error_code EC;
    llvm::raw_fd_ostream OS(OutFile, EC);
    if (EC) { llvm::errs() << "cannot open " << OutFile << "\n"; exit(3); }
    llvm::json::OStream J(OS);
    Emitter E(Ctx, J);
    SourceManager &SM = Ctx.getSourceManager();
    std::vector<const FunctionDecl *> Fns;
    std::vector<const VarDecl *> Globals;
    std::vector<const RecordDecl *> Recs;
    for (const Decl *D : Ctx.getTranslationUnitDecl()->decls()) {
      SourceLocation L = SM.getExpansionLoc(D->getLocation());
      if (L.isInvalid()) continue;
      if (MainOnly && !SM.isInMainFile(L) && !isa<RecordDecl>(D) && !isa<TypedefDecl>(D)) continue;
      std::string F = E.fileOf(L);
      if (!E.keepFile(F)) continue;
      if (const auto *FD = dyn_cast<FunctionDecl>(D)) {
        if (FD->doesThisDeclarationHaveABody()) Fns.push_back(FD);
      } else if (const auto *VD = dyn_cast<VarDecl>(D)) {
        if (VD->hasInit() && VD->isThisDeclarationADefinition()) Globals.push_back(VD);
      } else if (const auto *RD = dyn_cast<RecordDecl>(D)) {
        if (RD->isCompleteDefinition()) Recs.push_back(RD);
      }
    }
    J.object([&] {
      J.attribute("unit", SM.getFileEntryForID(SM.getMainFileID())->getName());
      J.attributeArray("functions", [&] { for (auto *F : Fns) E.emitFunction(F); });
      J.attributeArray("globals", [&] { for (auto *G : Globals) E.emitGlobal(G); });
      J.attributeArray("records", [&] { for (auto *R : Recs) E.emitRecord(R); });
      J.attributeArray("files", [&] { for (auto &F : E.Files) J.value(F); });
    });
    OS << "\n";
  }
};

class Action : public ASTFrontendAction {
public:
  std::unique_ptr<ASTConsumer> CreateASTConsumer(CompilerInstance &CI, StringRef) override {
    CI.getDiagnostics().setSuppressAllDiagnostics(false);
    return std::make_unique<Consumer>();
  }
};

} // namespace

int main(int argc, const char **argv) {
  auto Exp = CommonOptionsParser::create(argc, argv, Cat);
  if (!Exp) { llvm::errs() << Exp.takeError(); return 2; }
  ClangTool Tool(Exp->getCompilations(), Exp->getSourcePathList());
  return Tool.run(newFrontendActionFactory<Action>().get());
}
