"""Frozen tables of the repository's primitives (reviewed against the source), and the
rules that re-check the tables against the headers on every run."""
import re
from .facts import E, AnalysisBroken, LockTable
from . import aff

# ---- atomic read-modify-write API: what the call returns ------------------------------
# name-regex -> (builtin it must bottom out in, 'old' | 'bool', delta description)
ATOMIC_SEM = {
    'fetch_add': ('__sync_fetch_and_add', 'old'),
    'fetch_sub': ('__sync_fetch_and_add', 'old'),   # implemented as add of -v
    'fetch_inc': ('__sync_fetch_and_add', 'old'),
    'fetch_dec': ('__sync_fetch_and_add', 'old'),
    'fetch_or':  ('__sync_fetch_and_or', 'old'),
    'fetch_and': ('__sync_fetch_and_and', 'old'),
    'cas':       ('__sync_bool_compare_and_swap', 'bool'),
}
_ATOMIC_RE = re.compile(r'^parsec_atomic_(fetch_add|fetch_sub|fetch_inc|fetch_dec|fetch_or|fetch_and|cas)_(int32|int64|int128|ptr)$')


def atomic_kind(fn):
    m = _ATOMIC_RE.match(fn or '')
    return m.group(1) if m else None


def is_rmw(fn):
    return atomic_kind(fn) is not None


def post_value(call, env=None):
    """Poly of the value stored by an RMW call, in terms of the atom for the call's own
    (old) return value.  None for cas."""
    k = atomic_kind(call.n)
    old = aff.norm(call, env)
    if k == 'fetch_inc':
        return old + aff.Poly.const(1)
    if k == 'fetch_dec':
        return old - aff.Poly.const(1)
    if k == 'fetch_add':
        return old + aff.norm(call.ch[1], env)
    if k == 'fetch_sub':
        return old - aff.norm(call.ch[1], env)
    return None


def is_post_value(e, call, env=None):
    """Does expression e denote the post-value of the RMW `call` (fetch_inc/dec/add/sub,
    or `fetch_or(p,v) | v`, `fetch_and(p,v) & v`)?"""
    k = atomic_kind(call.n)
    if k in ('fetch_or', 'fetch_and'):
        op = '|' if k == 'fetch_or' else '&'
        e2 = e.subst(env) if env else e
        if e2.k == 'bin' and e2.op == op:
            a, b = e2.ch
            v = call.ch[1].subst(env) if env else call.ch[1]
            cs = call.subst(env).s if env else call.s
            return (a.s == cs and b.s == v.s) or (b.s == cs and a.s == v.s)
        return False
    pv = post_value(call, env)
    return pv is not None and aff.norm(e, env) == pv


def check_atomic_table(ctx, rule, unit):
    """R07.d: every parsec_atomic_{fetch_*,cas}_* wrapper bottoms out, through returns of
    single calls, in the builtin the table says, with the operand transformation the
    name promises (inc:+1, dec:-1, sub:-v)."""
    funcs = unit.funcs()
    n = 0
    for name, f in sorted(funcs.items()):
        k = atomic_kind(name)
        if k is None:
            continue
        want_builtin, _ = ATOMIC_SEM[k]
        # follow the chain
        cur = f; delta = None; ok = True; why = ''
        params = [p['n'] for p in f.params]
        # expression of the 2nd operand in terms of the outer function's parameters
        operand = None
        depth = 0
        while True:
            depth += 1
            rets = cur.returns()
            if len(rets) != 1 or rets[0].e is None or depth > 4:
                ok = False; why = 'not a single return of a call'; break
            r = rets[0].e
            if r.k == 'cond' and r.ch[1].cv == 1 and r.ch[2].cv == 0:
                r = r.ch[0]
            if r.k != 'call':
                ok = False; why = 'return value is not a call: %s' % r.s; break
            # substitute the callee's view of the operand
            if operand is None:
                operand = list(r.ch)
                pmap = {p: E('ref', n=p) for p in params}
            else:
                m = {p['n']: operand[i] for i, p in enumerate(cur.params) if i < len(operand)}
                operand = [a.subst(m) for a in r.ch]
            if r.n in funcs and atomic_kind(r.n):
                cur = funcs[r.n]
                continue
            if re.sub(r'_(1|2|4|8|16)$', '', r.n or '') != want_builtin:
                ok = False; why = 'bottoms out in %s, table says %s' % (r.n, want_builtin)
            break
        if ok and k in ('fetch_inc', 'fetch_dec', 'fetch_sub', 'fetch_add'):
            got = aff.norm(operand[1])
            want = {'fetch_inc': aff.Poly.const(1), 'fetch_dec': aff.Poly.const(-1),
                    'fetch_sub': -aff.Poly.atom(params[1]) if len(params) > 1 else None,
                    'fetch_add': aff.Poly.atom(params[1]) if len(params) > 1 else None}[k]
            if got != want:
                ok = False; why = 'adds %r, name promises %r' % (got, want)
        if ok and k == 'cas':
            if [a.s for a in operand[:3]] != params[:3]:
                ok = False; why = 'cas operands permuted: %s' % [a.s for a in operand]
        rule.expect(ok, 'atomic:%s' % name, f.where(), 'atomic wrapper %s: %s' % (name, why),
                    note='%s -> %s (%s)' % (name, want_builtin, ATOMIC_SEM[k][1]))
        n += 1
    return n


# ---- lock primitives -----------------------------------------------------------------
def _arg0(ev):
    a = ev.args[0]
    s = a.s
    return s[1:] if s.startswith('&') else '*' + s if not s.startswith('&') else s


def _argn(n):
    def f(ev):
        a = ev.args[n]
        s = a.s
        return s[1:] if s.startswith('&') else '*(' + s + ')'
    return f


BASE_LOCKS = LockTable(
    acquire={
        'parsec_atomic_lock': _argn(0),
        'parsec_atomic_rwlock_rdlock': lambda ev: 'rd:' + _argn(0)(ev),
        'parsec_atomic_rwlock_wrlock': lambda ev: 'wr:' + _argn(0)(ev),
        'parsec_list_lock': lambda ev: 'list:' + _argn(0)(ev),
        'parsec_dtd_last_user_lock': lambda ev: 'lu:' + _argn(0)(ev),
        'pthread_mutex_lock': _argn(0),
    },
    release={
        'parsec_atomic_unlock': _argn(0),
        'parsec_atomic_rwlock_rdunlock': lambda ev: 'rd:' + _argn(0)(ev),
        'parsec_atomic_rwlock_wrunlock': lambda ev: 'wr:' + _argn(0)(ev),
        'parsec_list_unlock': lambda ev: 'list:' + _argn(0)(ev),
        'parsec_dtd_last_user_unlock': lambda ev: 'lu:' + _argn(0)(ev),
        'pthread_mutex_unlock': _argn(0),
    },
    trylock={
        'parsec_atomic_trylock': (_argn(0), 1),
    },
)


def _bucket(ev):
    a = ev.args[0].s
    return 'bucket:' + (a[1:] if a.startswith('&') else a)


# bucket locks of parsec_hash_table (the *_impl names are what the macros expand to)
HT_LOCKS = LockTable(
    acquire={'parsec_hash_table_lock_bucket_handle': _bucket, 'parsec_hash_table_lock_bucket': _bucket},
    release={'parsec_hash_table_unlock_bucket_handle_impl': _bucket, 'parsec_hash_table_unlock_bucket_impl': _bucket})
