"""Generated-code support: rebuild parsec-ptgpp from the *current* ptg-compiler sources into a
scratch directory, run it over the corpus (every JDF the build compiles + /verif/corpus/*.jdf),
and hand the emitted C to the fact extractor.  The emitted C is never compiled to an executable
and never run: generation of sources is a build step, the deciding step is static."""
import json, os, re, shlex, subprocess, hashlib
from concurrent.futures import ProcessPoolExecutor, ThreadPoolExecutor
from . import facts
from .facts import AnalysisBroken
from . import driver

PTG_DIR = 'parsec/interfaces/ptg/ptg-compiler'
PTG_UNITS = ['jdf.c', 'jdf2c.c', 'jdf_unparse.c']


class Program:
    def __init__(self, name, jdf, args, flags, cwd, origin, expect_fail=False):
        self.name = name; self.jdf = jdf; self.args = args; self.flags = flags; self.cwd = cwd
        self.origin = origin          # 'tree' | 'corpus'
        self.expect_fail = expect_fail
        self.c = None; self.h = None; self.rc = None; self.err = ''
        self.variant = False      # an extra back-end run added by the thorough tier, not an invocation of the build
        self.dep = 'hash'
        for i, a in enumerate(args):
            if a in ('--dep-management', '-M') and i + 1 < len(args):
                self.dep = 'index' if args[i + 1].startswith('index') else 'hash'

    def label(self):
        return '%s[%s]' % (self.name, self.dep)


class Gen:
    def __init__(self, ctx):
        self.ctx = ctx
        self.dir = os.path.join(ctx.scratch, 'gen')
        os.makedirs(self.dir, exist_ok=True)
        self.ptgpp = None
        self._raw = None

    # ------------------------------------------------------------------ ptgpp rebuild
    def build_ptgpp(self):
        if self.ptgpp:
            return self.ptgpp
        ctx = self.ctx
        src = os.path.join(driver.REPO, PTG_DIR)
        out = os.path.join(self.dir, 'ptgpp-build')
        os.makedirs(out, exist_ok=True)
        for tool, args in (('flex', ['-o' + os.path.join(out, 'parsec.l.c'), os.path.join(src, 'parsec.l')]),
                           ('bison', ['-d', '-o', os.path.join(out, 'parsec.y.c'), os.path.join(src, 'parsec.y')])):
            p = subprocess.run([tool] + args, cwd=out, stdout=subprocess.PIPE, stderr=subprocess.PIPE, text=True)
            if p.returncode != 0:
                raise AnalysisBroken('%s failed on the ptg-compiler grammar: %s' % (tool, p.stderr[-400:]))
        cwd, flags = ctx.flags_for(os.path.join(src, 'jdf2c.c'))
        gen_inc = os.path.normpath(os.path.join(driver.BUILD, PTG_DIR))
        flags = ['-I' + out] + [f for f in flags if os.path.normpath(f[2:]) != gen_inc or not f.startswith('-I')]
        units = [os.path.join(src, u) for u in PTG_UNITS] + [os.path.join(out, 'parsec.y.c'), os.path.join(out, 'parsec.l.c')]

        def cc(u):
            o = os.path.join(out, os.path.basename(u) + '.o')
            p = subprocess.run(['cc', '-O0', '-w', '-c', u, '-o', o] + flags, cwd=cwd,
                               stdout=subprocess.PIPE, stderr=subprocess.PIPE, text=True)
            return (o, p.returncode, p.stderr)
        with ThreadPoolExecutor(5) as ex:
            objs = list(ex.map(cc, units))
        for o, rc, err in objs:
            if rc != 0:
                raise AnalysisBroken('ptg-compiler does not compile: %s' % err[-600:])
        base = os.path.join(driver.BUILD, 'parsec', 'libparsec-base.a')
        if not os.path.exists(base):
            raise AnalysisBroken('%s missing (needed to link the scratch parsec-ptgpp)' % base)
        exe = os.path.join(out, 'parsec-ptgpp')
        p = subprocess.run(['cc'] + [o for o, _, _ in objs] + ['-o', exe, '-lm', base],
                           stdout=subprocess.PIPE, stderr=subprocess.PIPE, text=True)
        if p.returncode != 0:
            raise AnalysisBroken('scratch parsec-ptgpp does not link: %s' % p.stderr[-600:])
        self.ptgpp = exe
        return exe

    # ------------------------------------------------------------------ corpus
    def _rawdb(self):
        if self._raw is None:
            self.ctx.compdb()
            out = subprocess.check_output(['ninja', '-C', driver.BUILD, '-t', 'compdb'], text=True)
            self._raw = json.loads(out)
        return self._raw

    def tree_programs(self):
        progs = []
        seen = set()
        for e in self._rawdb():
            cmd = e['command']
            if 'parsec-ptgpp' not in cmd or '.jdf' not in cmd:
                continue
            try:
                argv = shlex.split(cmd.split('&&', 1)[1] if '&&' in cmd else cmd)
            except ValueError:
                continue
            if '-c' in argv and '-o' in argv and not argv[0].endswith('parsec-ptgpp'):
                continue
            if not argv or not argv[0].endswith('parsec-ptgpp'):
                continue
            m = re.match(r'cd (\S+) &&', cmd.strip())
            d = m.group(1) if m else e['directory']
            args = []; jdf = cfile = None; name = None
            i = 1
            while i < len(argv):
                a = argv[i]
                if a == '-i': jdf = argv[i + 1]; i += 2; continue
                if a == '-C': cfile = argv[i + 1]; i += 2; continue
                if a == '-H': i += 2; continue
                if a == '-f': name = argv[i + 1]; i += 2; continue
                if a == '-o': name = name or argv[i + 1]; cfile = cfile or argv[i + 1] + '.c'; i += 2; continue
                args.append(a); i += 1
            if not jdf or not cfile:
                continue
            cpath = os.path.normpath(os.path.join(d, cfile))
            if (jdf, tuple(args)) in seen:
                continue
            seen.add((jdf, tuple(args)))
            db = self.ctx.compdb()
            if cpath not in db:
                self.ctx.note('gen: %s has no compile command, skipped' % cpath)
                continue
            cwd, flags = db[cpath]
            rel = os.path.relpath(jdf, driver.REPO)
            progs.append(Program(name or os.path.basename(cfile)[:-2], jdf, args, flags, cwd, 'tree',
                                 expect_fail=os.path.basename(jdf).startswith('too_many_')))
        progs.sort(key=lambda p: (p.jdf, p.args))
        return progs

    def corpus_programs(self, both_backends=False, subdir=None):
        d = os.path.join(driver.VERIF, 'corpus', subdir) if subdir else os.path.join(driver.VERIF, 'corpus')
        progs = []
        tp = self.tree_programs()
        ref = None
        for p in tp:
            if '/tests/dsl/ptg/' in p.jdf and not p.expect_fail:
                ref = p; break
        if ref is None:
            raise AnalysisBroken('no reference PTG test in the build to borrow compile flags from')
        if not os.path.isdir(d):
            return progs
        for f in sorted(os.listdir(d)):
            if not f.endswith('.jdf'):
                continue
            path = os.path.join(d, f)
            head = open(path).read(400)
            m = re.search(r'ptgpp-args:([^\n*]*)', head)
            extra = shlex.split(m.group(1)) if m else []
            backends = [extra]
            if both_backends and '--dep-management' not in extra:
                backends = [extra + ['--dep-management', 'dynamic-hash-table'], extra + ['--dep-management', 'index-array']]
            for a in backends:
                progs.append(Program(f[:-4], path, ['--noline', '-E'] + a, ref.flags, ref.cwd, 'corpus',
                                     expect_fail=('ptgpp' if 'expect-ptgpp-reject' in head else ('expect-reject' in head))))
        return progs

    def programs(self, tier, both_backends=None, subset=None, extra_dir=None):
        both = (tier == 'thorough') if both_backends is None else both_backends
        progs = self.tree_programs()
        if both:
            extra = []
            for p in progs:
                if '--dep-management' not in p.args and not p.expect_fail:
                    q = Program(p.name, p.jdf, ['--dep-management', 'index-array'] + p.args, p.flags, p.cwd, p.origin)
                    q.variant = True
                    extra.append(q)
            progs += extra
        progs += self.corpus_programs(both)
        if extra_dir:
            progs += self.corpus_programs(False, subdir=extra_dir)
        if subset is not None:
            progs = [p for p in progs if subset(p)]
        return progs

    # ------------------------------------------------------------------ generate + analyse
    def scan(self, progs, query, keep_failed=False, tolerate_parse_errors=False):
        """For every program: run the scratch ptgpp, extract the emitted C, run the module-level
        function query(unit, prog) -> picklable; returns [(prog, result)] in corpus order.
        A program that ptgpp rejects has result None (prog.rc/err filled in)."""
        exe = self.build_ptgpp()
        jobs = []
        for i, p in enumerate(progs):
            d = os.path.join(self.dir, 'p%03d' % i)
            os.makedirs(d, exist_ok=True)
            jobs.append((exe, p, d, query, self.ctx.resource_dir, driver.EXTRACT))
        res = []
        with ProcessPoolExecutor(driver.NPROC) as ex:
            for p, r, err in ex.map(_gen_one, jobs):
                if err and tolerate_parse_errors and err.startswith('emitted C does not parse'):
                    p.rc = -3; p.err = err
                    err = None
                if err:
                    raise AnalysisBroken('gen: %s: %s' % (p.label(), err))
                res.append((p, r))
        self.ctx.programs = len(res)
        self.ctx.extra_cov['corpus'] = ['%s %s %s' % (os.path.relpath(p.jdf, driver.REPO) if p.origin == 'tree' else
                                                       'verif/corpus/' + os.path.basename(p.jdf), ' '.join(p.args),
                                                       'rejected(rc=%s)' % p.rc if p.rc else 'ok') for p, _ in res]
        return res


def _gen_one(job):
    exe, p, d, query, resdir, extract = job
    cfile = os.path.join(d, p.name + '.c')
    hfile = os.path.join(d, p.name + '.h')
    cmd = [exe] + p.args + ['-i', p.jdf, '-C', cfile, '-H', hfile, '-f', p.name]
    r = subprocess.run(cmd, cwd=d, stdout=subprocess.PIPE, stderr=subprocess.PIPE, text=True)
    p.rc = r.returncode; p.err = (r.stderr or '')[-1500:]
    if r.returncode != 0 or not os.path.exists(cfile):
        p.rc = p.rc or -1
        return (p, None, None)
    p.c = cfile; p.h = hfile
    out = os.path.join(d, 'facts.json')
    flags = ['-I' + d, '-I' + os.path.dirname(p.jdf)] + p.flags
    xc = [extract, '--out=' + out, '--keep=' + d, '--main-only', cfile, '--'] + flags + ['-w', '-resource-dir', resdir]
    x = subprocess.run(xc, cwd=p.cwd, stdout=subprocess.PIPE, stderr=subprocess.PIPE, text=True)
    if x.returncode != 0 or not os.path.exists(out):
        if p.expect_fail:
            p.rc = -2; p.err += '\n[emitted C rejected by the front end] ' + (x.stderr or '')[-600:]
            return (p, None, None)
        return (p, None, 'emitted C does not parse: ' + (x.stderr or '')[-800:])
    try:
        u = facts.Unit(out)
        u.text = open(cfile, errors='replace').read()
        u.htext = open(hfile, errors='replace').read() if os.path.exists(hfile) else ''
        res = query(u, p)
    finally:
        try:
            os.unlink(out)
        except OSError:
            pass
    return (p, res, None)
