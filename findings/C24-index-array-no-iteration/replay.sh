#!/bin/sh
# Replay for finding C24 / R24.b accept:project:index: with --dep-management index-array, a task class
# whose execution space is not enumerated by internal_init (user-defined make_key + user-defined task
# count, e.g. END_PROPAGATE of tests/apps/haar_tree/project.jdf) gets "dependencies_array[id] = dep;"
# emitted without any declaration of dep: parsec-ptgpp exits 0 and the C does not compile.
# exit 0: ptgpp rejects the input with a diagnostic, or the emitted C compiles; exit 1: accepted but not compilable.
R=${1:-/repo}; B=$R/_build
D=$(mktemp -d /var/tmp/c24b-replay.XXXXXX); trap 'rm -rf $D' EXIT
if ! $B/parsec/interfaces/ptg/ptg-compiler/parsec-ptgpp --noline -E --dep-management index-array -i $R/tests/apps/haar_tree/project.jdf -C $D/project.c -H $D/project.h -f project >$D/out 2>&1; then
  echo "rejected by parsec-ptgpp: $(grep -m1 -i 'error\|fatal' $D/out)"; exit 0
fi
if cc -c -O0 -w -D_GNU_SOURCE -I$D -I$R/tests/apps/haar_tree -I$R -I$R/parsec/include -I$B -I$B/parsec/include -I/usr/lib/x86_64-linux-gnu/openmpi/include $D/project.c -o $D/project.o 2>$D/err; then
  echo "accepted and compiles"; exit 0
fi
echo "ACCEPTED by parsec-ptgpp (exit 0) but the emitted C does not compile: $(grep -m1 'error' $D/err)"
exit 1
