#!/bin/sh
# usage: replay.sh [repo-tree]  -- exit 0: the over-limit program is rejected (by ptgpp or by the C compiler);
#                                  exit 1: it is accepted (the defect)
R=${1:-/repo}; B=$R/_build
D=$(mktemp -d /var/tmp/c24-replay.XXXXXX); trap 'rm -rf $D' EXIT
HERE=$(dirname "$(readlink -f "$0")")
$B/parsec/interfaces/ptg/ptg-compiler/parsec-ptgpp --noline -E -i $HERE/overlimit.jdf -C $D/ol.c -H $D/ol.h -f ol >/dev/null 2>&1 || { echo "rejected by parsec-ptgpp"; exit 0; }
n=$(awk '/^static const parsec_flow_t flow_of_ol_T_for_A = /{p=1} p&&/dep_out/{q=1} q{c+=gsub(/&flow_of/,"")} q&&/}/{print c; exit}' $D/ol.c)
if cc -c -O0 -D_GNU_SOURCE -I$D -I$R -I$R/parsec/include -I$B -I$B/parsec/include -I/usr/lib/x86_64-linux-gnu/openmpi/include $D/ol.c -o $D/ol.o 2>$D/err; then
  echo "ACCEPTED: $n dep_out entries emitted for a table of MAX_DEP_OUT_COUNT=$(grep -h 'define MAX_DEP_OUT_COUNT' $B/parsec/include/parsec/parsec_options.h | awk '{print $3}'); compiler said: $(grep -c 'excess elements' $D/err) x 'excess elements in array initializer' (warning only)"
  exit 1
fi
echo "rejected by the C compiler: $(grep -m1 '#error\|error:' $D/err)"
exit 0
