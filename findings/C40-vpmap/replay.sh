#!/bin/sh
# Replay for the three open C40 findings: valid virtual-process-map specifications crash parsec_init.
#   rr:1:2:2                       -> parsec_vpmap_init_from_parameters sets parsec_nbvp and never builds parsec_vpmap (R40.a)
#   file: ":2:0"                   -> a line without a rank leaves rest_of_line unassigned (R40.b)
#   file: "0:2:0" + "0:1:1"        -> the first line is formatted through a NULL pointer, the second replaces it (R40.c)
# usage: replay.sh [repo-tree]; exit 0: parsec_init survives all three; 1: at least one crashes (the defects)
R=${1:-/repo}; B=$R/_build
D=$(mktemp -d /var/tmp/c40-replay.XXXXXX); trap 'rm -rf $D' EXIT
printf ':2:0\n' > $D/vp1.txt; printf '0:2:0\n0:1:1\n' > $D/vp2.txt
bad=0
for spec in "rr:1:2:2" "file:$D/vp1.txt" "file:$D/vp2.txt"; do
  PARSEC_MCA_runtime_vpmap="$spec" timeout 60 $B/tests/api/init_fini > $D/out 2>&1; rc=$?
  if [ $rc -ne 0 ]; then echo "vpmap '$spec': parsec_init died (exit $rc): $(grep -m1 'Signal:' $D/out)"; bad=1; else echo "vpmap '$spec': ok"; fi
done
exit $bad
