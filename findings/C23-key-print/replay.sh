#!/bin/sh
# usage: replay.sh [repo-tree]   (default /repo; needs <tree>/_build)
# exit 0: every printed key names its instance; 1: some do not (the defect)
R=${1:-/repo}; B=$R/_build
D=$(mktemp -d /var/tmp/c23-replay.XXXXXX); trap 'rm -rf $D' EXIT
HERE=$(dirname "$(readlink -f "$0")")
$B/parsec/interfaces/ptg/ptg-compiler/parsec-ptgpp --noline -E -i $HERE/keyprint.jdf -C $D/keyprint.c -H $D/keyprint.h -f keyprint >/dev/null 2>&1 || exit 3
cc -O1 -w -D_GNU_SOURCE -I$D -I$R -I$R/parsec/include -I$B -I$B/parsec/include -I/usr/lib/x86_64-linux-gnu/openmpi/include \
   $D/keyprint.c -o $D/keyprint -Wl,-rpath,$B/parsec:/usr/lib/x86_64-linux-gnu/openmpi/lib $B/parsec/libparsec.so \
   -ldl /usr/lib/x86_64-linux-gnu/openmpi/lib/libmpi.so /usr/lib/x86_64-linux-gnu/libhwloc.so -lm -lpthread || exit 3
timeout 30 $D/keyprint; rc=$?

exit $rc
