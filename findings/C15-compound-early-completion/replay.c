/* Replay of the C15 finding: a compound taskpool is declared terminated as soon as it is enqueued
 * (parsec_context_add_taskpool installs the local termination detector and declares the compound ready
 * while its pending-action count is still 0, before the compound's startup hook sets it to the number of
 * members).  Consequences: (1) the compound's completion callback runs before any member ran;
 * (2) a compound used as a member of another compound "completes" at once, so the next member of the outer
 * compound starts while the inner members are still running. */
#include "parsec.h"
#include "parsec/execution_stream.h"
#include "parsec/data_dist/matrix/two_dim_rectangle_cyclic.h"
#include "parsec/sys/atomic.h"
#include <string.h>
#include <stdio.h>
#include <unistd.h>

#define TYPE  PARSEC_MATRIX_INTEGER
#define NTP 4
static parsec_matrix_block_cyclic_t dcA;
static int N = 80, block = 10;               /* 8 tiles = 8 tasks per taskpool */
static volatile int32_t seq = 0;
static volatile int32_t started[NTP], finished[NTP];
static volatile int32_t first_start[NTP], last_end[NTP];
static volatile int32_t outer_cb_seq = -1, outer_cb_tasks_done = -1;

static int op(struct parsec_execution_stream_s *es, const void* src, void* dst, void* op_data, ...)
{
    int id = (int)(intptr_t)op_data;
    int32_t s = parsec_atomic_fetch_inc_int32(&seq);
    if( 0 == parsec_atomic_fetch_inc_int32(&started[id]) ) first_start[id] = s;
    usleep(3000);
    int32_t e = parsec_atomic_fetch_inc_int32(&seq);
    parsec_atomic_fetch_inc_int32(&finished[id]);
    last_end[id] = e;     /* approximate: last writer wins, good enough with 3ms tasks */
    (void)es; (void)src; (void)dst;
    return PARSEC_HOOK_RETURN_DONE;
}

static int outer_done(parsec_taskpool_t *tp, void *data)
{
    int total = 0;
    for(int i = 0; i < NTP; i++) total += finished[i];
    outer_cb_tasks_done = total;
    outer_cb_seq = seq;
    (void)tp; (void)data;
    return 0;
}

int main(int argc, char* argv[])
{
    parsec_context_t* parsec;
    parsec_taskpool_t *tp[NTP], *inner, *outer;
    int pargc = 0; char **pargv = NULL; int rc, bad = 0;
#if defined(PARSEC_HAVE_MPI)
    int prov; MPI_Init_thread(&argc, &argv, MPI_THREAD_SERIALIZED, &prov);
#endif
    parsec = parsec_init(4, &pargc, &pargv);
    parsec_matrix_block_cyclic_init( &dcA, TYPE, PARSEC_MATRIX_TILE, 0, block, 1, N, 1, 0, 0, N, 1, 1, 1, 1, 1, 0, 0);
    parsec_data_collection_set_key(&dcA.super.super, "A");
    dcA.mat = parsec_data_allocate( N * parsec_datadist_getsizeoftype(TYPE) );
    for(int i = 0; i < NTP; i++)
        tp[i] = parsec_map_operator_New((parsec_tiled_matrix_t*)&dcA, NULL, op, (void*)(intptr_t)i);
    /* order requested: tp0 ; (tp1 ; tp2) ; tp3 */
    inner = parsec_compose(tp[1], tp[2]);
    outer = parsec_compose(tp[0], inner);
    outer = parsec_compose(outer, tp[3]);
    parsec_taskpool_set_complete_callback(outer, outer_done, NULL);
    rc = parsec_context_add_taskpool(parsec, outer); PARSEC_CHECK_ERROR(rc, "add");
    rc = parsec_context_start(parsec);  PARSEC_CHECK_ERROR(rc, "start");
    rc = parsec_context_wait(parsec);   PARSEC_CHECK_ERROR(rc, "wait");
    int per = N / block, total = 0;
    for(int i = 0; i < NTP; i++) {
        printf("taskpool %d: %d/%d tasks, first start seq %d, last end seq %d\n", i, finished[i], per, first_start[i], last_end[i]);
        total += finished[i];
    }
    for(int i = 0; i + 1 < NTP; i++)
        if( first_start[i+1] < last_end[i] ) {
            printf("ORDER VIOLATION: a task of taskpool %d started (seq %d) before the last task of taskpool %d finished (seq %d)\n", i+1, first_start[i+1], i, last_end[i]);
            bad++;
        }
    printf("compound completion callback ran at seq %d with %d/%d tasks completed\n", outer_cb_seq, outer_cb_tasks_done, total);
    if( outer_cb_tasks_done != total ) { printf("COMPLETION VIOLATION: the compound completed before its last member\n"); bad++; }
    printf("%s\n", bad ? "REPLAY: property C15 violated" : "REPLAY: ok");
    parsec_fini(&parsec);
#ifdef PARSEC_HAVE_MPI
    MPI_Finalize();
#endif
    return bad ? 1 : 0;
}
