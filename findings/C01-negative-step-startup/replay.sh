#!/bin/sh
# usage: replay.sh [repo-tree]   (default /repo; needs <tree>/_build)
# exit 0: every task ran once; 1: wrong counts; 124: hang (the defect)
R=${1:-/repo}; B=$R/_build
D=$(mktemp -d /var/tmp/c01-replay.XXXXXX); trap 'rm -rf $D' EXIT
HERE=$(dirname "$(readlink -f "$0")")
$B/parsec/interfaces/ptg/ptg-compiler/parsec-ptgpp --noline -E -i $HERE/negstep.jdf -C $D/negstep.c -H $D/negstep.h -f negstep >/dev/null 2>&1 || exit 3
cc -O1 -w -D_GNU_SOURCE -I$D -I$R -I$R/parsec/include -I$B -I$B/parsec/include -I/usr/lib/x86_64-linux-gnu/openmpi/include \
   $D/negstep.c -o $D/negstep -Wl,-rpath,$B/parsec:/usr/lib/x86_64-linux-gnu/openmpi/lib $B/parsec/libparsec.so \
   -ldl /usr/lib/x86_64-linux-gnu/openmpi/lib/libmpi.so /usr/lib/x86_64-linux-gnu/libhwloc.so -lm -lpthread || exit 3
timeout 30 $D/negstep; rc=$?
[ $rc = 124 ] && echo "HANG: taskpool counted tasks that the startup function never generated"
exit $rc
