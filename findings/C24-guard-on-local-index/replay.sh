#!/bin/sh
# exit 0: ptgpp rejects the input with a diagnostic, or the emitted C compiles; exit 1: accepted but not compilable.
R=${1:-/repo}; B=$R/_build; P=${PTGPP:-$B/parsec/interfaces/ptg/ptg-compiler/parsec-ptgpp}
D=$(mktemp -d /var/tmp/c24d-replay.XXXXXX); trap 'rm -rf $D' EXIT
HERE=$(dirname "$(readlink -f "$0")")
if ! $P --noline -E -i /verif/corpus/c24/guard_on_local_index.jdf -C $D/gli.c -H $D/gli.h -f gli >$D/out 2>&1; then
  echo "rejected by parsec-ptgpp: $(grep -m1 -i 'error\|fatal' $D/out)"; exit 0
fi
if cc -c -O0 -w -D_GNU_SOURCE -I$D -I$R -I$R/parsec/include -I$B -I$B/parsec/include -I/usr/lib/x86_64-linux-gnu/openmpi/include $D/gli.c -o $D/gli.o 2>$D/err; then
  echo "accepted and compiles"; exit 0
fi
echo "ACCEPTED by parsec-ptgpp (exit 0) but the emitted C does not compile: $(grep -m1 'error' $D/err)"
exit 1
