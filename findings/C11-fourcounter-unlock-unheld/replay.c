/* Replay of the C11 finding (R11.a dispatch:unlock-unheld): the four-counter detector's
 * parsec_termdet_fourcounter_msg_dispatch_taskpool() starts with
 *     parsec_list_unlock(&parsec_termdet_fourcounter_delayed_messages);
 * but its caller parsec_termdet_fourcounter_msg_dispatch() does NOT hold that lock on the path that reaches it.
 * A control message for a ready taskpool therefore releases the delayed-message list lock out of the hands of
 * whichever thread is inside a critical section on that list (a thread in taskpool_ready() walking and unlinking
 * delayed messages, or another msg_dispatch queueing one): the list can be corrupted and termination messages lost.
 *
 * The replay plays the role of "the other thread": it takes the list lock, then lets one control message for a
 * ready taskpool be dispatched, and observes that its own lock is gone. */
#include <stdio.h>
#include <string.h>
#include "parsec.h"
#include "parsec/parsec_internal.h"
#include "parsec/class/list.h"
#include "parsec/mca/termdet/termdet.h"
#include "parsec/mca/termdet/fourcounter/termdet_fourcounter.h"

extern parsec_list_t parsec_termdet_fourcounter_delayed_messages;
static void detected(parsec_taskpool_t *tp) { (void)tp; }

int main(int argc, char *argv[])
{
    int pargc = 0; char **pargv = NULL; (void)argc; (void)argv;
#if defined(PARSEC_HAVE_MPI)
    int prov; MPI_Init_thread(&argc, &argv, MPI_THREAD_SERIALIZED, &prov);
#endif
    parsec_context_t *ctx = parsec_init(1, &pargc, &pargv);
    parsec_taskpool_t *tp = PARSEC_OBJ_NEW(parsec_taskpool_t);
    tp->context = ctx;
    parsec_taskpool_reserve_id(tp);
    parsec_taskpool_register(tp);
    parsec_termdet_open_dyn_module(tp);                       /* four-counter */
    tp->tdm.module->monitor_taskpool(tp, detected);
    tp->tdm.module->taskpool_set_nb_tasks(tp, 1);             /* busy: nothing will terminate during the replay */
    tp->tdm.module->taskpool_ready(tp);

    /* "another thread" enters a critical section on the delayed-message list */
    parsec_list_lock(&parsec_termdet_fourcounter_delayed_messages);

    /* a control message for the (ready) taskpool arrives on the communication thread */
    parsec_termdet_fourcounter_msg_up_t up;
    memset(&up, 0, sizeof(up));
    up.msg_type = PARSEC_TERMDET_FOURCOUNTER_MSG_TYPE_UP;
    up.tp_id = tp->taskpool_id;
    parsec_termdet_fourcounter_msg_dispatch(NULL, 0, &up, sizeof(up), 0, NULL);

    /* is our lock still ours ? */
    int stolen = parsec_atomic_trylock(&parsec_termdet_fourcounter_delayed_messages.atomic_lock);
    printf("delayed-message list lock after dispatching one message for a ready taskpool: %s\n",
           stolen ? "RELEASED by the dispatcher although another holder was inside its critical section" : "still held by its owner");
    printf("%s\n", stolen ? "REPLAY: property C11 violated (mutual exclusion on the delayed-message list is broken)" : "REPLAY: ok");
    fflush(stdout);
    _exit(stolen ? 1 : 0);
}
