/* Replay of the C41 finding (R41.a resize:zero-fill): growing an info object array clobbers the last
 * existing slot and leaves the new slots uninitialised.
 *   parsec_ioa_resize_and_rdlock():  memset(&oa->info_objects[oa->known_infos - 1], 0, ns - oa->known_infos);
 * starts one slot too early and counts bytes instead of pointers. */
#include <stdio.h>
#include <stdlib.h>
#include <string.h>
#include <malloc.h>
#include "parsec/parsec_config.h"
#include "parsec/class/info.h"

int main(void)
{
    parsec_info_t nfo;
    parsec_info_object_array_t oa;
    int bad = 0;
    /* make fresh heap memory non-zero so that un-initialised slots are visible */
    mallopt(M_PERTURB, 0xA5);
    PARSEC_OBJ_CONSTRUCT(&nfo, parsec_info_t);
    parsec_info_id_t a = parsec_info_register(&nfo, "a", NULL, NULL, NULL, NULL, NULL);
    PARSEC_OBJ_CONSTRUCT(&oa, parsec_info_object_array_t);
    parsec_info_object_array_init(&oa, &nfo, NULL);
    void *va = (void*)(uintptr_t)0x12345677u;          /* low byte != 0 */
    parsec_info_set(&oa, a, va);
    /* the registry grows after the object array was sized */
    parsec_info_id_t b = parsec_info_register(&nfo, "b", NULL, NULL, NULL, NULL, NULL);
    parsec_info_id_t c = parsec_info_register(&nfo, "c", NULL, NULL, NULL, NULL, NULL);
    void *gc = parsec_info_get(&oa, c);                 /* triggers the resize; never set, no constructor -> must be NULL */
    void *gb = parsec_info_get(&oa, b);
    void *ga = parsec_info_get(&oa, a);
    printf("ids a=%d b=%d c=%d\n", a, b, c);
    printf("slot a: set %p, read back %p %s\n", va, ga, ga == va ? "ok" : "CORRUPTED");
    printf("slot b: never set, read %p %s\n", gb, gb == NULL ? "ok" : "GARBAGE");
    printf("slot c: never set, read %p %s\n", gc, gc == NULL ? "ok" : "GARBAGE");
    bad = (ga != va) + (gb != NULL) + (gc != NULL);
    printf("%s\n", bad ? "REPLAY: property C41 violated" : "REPLAY: ok");
    return bad ? 1 : 0;
}
