/* Replay of the C41 finding (R41.c register:hole): after an unregister leaves a hole in the id space,
 * parsec_info_register() re-uses the hole but links the new entry AFTER the next entry instead of before it
 * (next_item = NEXT(item) instead of item), which breaks the sorted order of the registry; the following
 * registration then hands out the same identifier again. */
#include <stdio.h>
#include "parsec/parsec_config.h"
#include "parsec/class/info.h"

int main(void)
{
    parsec_info_t nfo;
    PARSEC_OBJ_CONSTRUCT(&nfo, parsec_info_t);
    int a = parsec_info_register(&nfo, "a", NULL, NULL, NULL, NULL, NULL);
    int b = parsec_info_register(&nfo, "b", NULL, NULL, NULL, NULL, NULL);
    int c = parsec_info_register(&nfo, "c", NULL, NULL, NULL, NULL, NULL);
    parsec_info_unregister(&nfo, b, NULL);
    int d = parsec_info_register(&nfo, "d", NULL, NULL, NULL, NULL, NULL);
    int e = parsec_info_register(&nfo, "e", NULL, NULL, NULL, NULL, NULL);
    printf("a=%d b=%d(unregistered) c=%d d=%d e=%d\n", a, b, c, d, e);
    int ld = parsec_info_lookup(&nfo, "d", NULL), le = parsec_info_lookup(&nfo, "e", NULL);
    printf("lookup d=%d e=%d\n", ld, le);
    int bad = (d == e) || (d == a) || (d == c) || (e == a) || (e == c);
    printf("%s\n", bad ? "REPLAY: property C41 violated (two registered names share an identifier)" : "REPLAY: ok");
    return bad;
}
