/* C39 finding: parsec_argv_delete takes the requested number from *argc even when fewer entries exist.
 * build+run: see replay.sh.  Expected (correct): argc == parsec_argv_count(argv) after the deletion. */
#include <stdio.h>
#include <stdlib.h>
#include "parsec/utils/argv.h"
int main(void)
{
    char **argv = NULL; int argc = 0;
    parsec_argv_append(&argc, &argv, "a");
    parsec_argv_append(&argc, &argv, "b");
    parsec_argv_append(&argc, &argv, "c");
    int rc = parsec_argv_delete(&argc, &argv, 2, 5);   /* only one entry exists from position 2 */
    int len = parsec_argv_count(argv);
    printf("rc=%d argc=%d length=%d (%s %s)\n", rc, argc, len, argv[0], argv[1]);
    if (argc != len) { printf("FAIL: *argc disagrees with the vector\n"); return 1; }
    printf("PASS\n");
    return 0;
}
