#!/bin/sh
# replays the C39 finding against the built /repo (or $1 = source tree with _build)
R=${1:-/repo}
D=$(mktemp -d /var/tmp/c39.XXXXXX)
cc -I$R -I$R/parsec/include -I$R/_build -I$R/_build/parsec/include $(dirname $0)/replay.c -o $D/replay -L$R/_build/parsec -lparsec -Wl,-rpath,$R/_build/parsec || exit 2
$D/replay; rc=$?
rm -rf $D
exit $rc
