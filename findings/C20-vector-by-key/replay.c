/* Replay for finding C20 / R20.c vtable:parsec_vector_two_dim_cyclic_init: the vector distribution
 * installs rank_of / vpid_of / data_of but none of the by-key accessors (they stay NULL after the
 * memset of parsec_data_collection_init), and in a build without profiling / GPU support it keeps the
 * two-coordinate data_key of the tiled matrix although its elements have one coordinate.
 * The runtime calls dc->rank_of_key / dc->data_of_key unconditionally (parsec.c, DTD insert_function.c).
 * Exit 0: for every segment m, the key maps back to the segment (same rank, same data). */
#include <stdio.h>
#include <stdlib.h>
#include "parsec.h"
#include "parsec/data_dist/matrix/vector_two_dim_cyclic.h"
#ifdef PARSEC_HAVE_MPI
#include <mpi.h>
#endif
int main(int argc, char **argv)
{
    parsec_context_t *parsec;
    parsec_vector_two_dim_cyclic_t v;
    parsec_data_collection_t *dc;
    int m, bad = 0, nt = 10, mb = 4;
#ifdef PARSEC_HAVE_MPI
    { int provided; MPI_Init_thread(NULL, NULL, MPI_THREAD_SERIALIZED, &provided); }
#endif
    int pargc = 0; char **pargv = NULL;
    parsec = parsec_init(1, &pargc, &pargv);
    if( NULL == parsec ) return 3;
    parsec_vector_two_dim_cyclic_init(&v, PARSEC_MATRIX_DOUBLE, PARSEC_VECTOR_DISTRIB_DIAG, 0, mb, nt * mb, 0, nt * mb, 1, 1);
    v.mat = calloc((size_t)nt * mb, sizeof(double));
    dc = &v.super.super;
    if( NULL == dc->rank_of_key || NULL == dc->vpid_of_key || NULL == dc->data_of_key ) {
        printf("FAIL: the vector collection has no by-key accessors (rank_of_key=%p vpid_of_key=%p data_of_key=%p): "
               "dc->rank_of_key(dc, key) as called by the runtime is a call through NULL\n",
               (void*)dc->rank_of_key, (void*)dc->vpid_of_key, (void*)dc->data_of_key);
        bad = 1;
    }
    for(m = 0; m < nt && !bad; m++) {
        parsec_data_key_t key = dc->data_key(dc, m);
        if( dc->rank_of_key(dc, key) != dc->rank_of(dc, m) || dc->vpid_of_key(dc, key) != dc->vpid_of(dc, m) ||
            dc->data_of_key(dc, key) != dc->data_of(dc, m) ) {
            printf("FAIL: key %llu of segment %d does not map back to it\n", (unsigned long long)key, m);
            bad = 1;
        }
    }
    if( !bad ) printf("OK: %d segments, every key maps back to its segment\n", nt);
    parsec_fini(&parsec);
#ifdef PARSEC_HAVE_MPI
    MPI_Finalize();
#endif
    return bad;
}
