#!/bin/sh
# usage: replay.sh [repo-tree]   exit 0: keys of the vector collection map back; 1: the defect
R=${1:-/repo}; B=$R/_build
D=$(mktemp -d /var/tmp/c20-replay.XXXXXX); trap 'rm -rf $D' EXIT
HERE=$(dirname "$(readlink -f "$0")")
cc -O1 -w -D_GNU_SOURCE -I$R -I$R/parsec/include -I$B -I$B/parsec/include -I/usr/lib/x86_64-linux-gnu/openmpi/include \
   $HERE/replay.c -o $D/replay -Wl,-rpath,$B/parsec:/usr/lib/x86_64-linux-gnu/openmpi/lib $B/parsec/libparsec.so \
   -ldl /usr/lib/x86_64-linux-gnu/openmpi/lib/libmpi.so /usr/lib/x86_64-linux-gnu/libhwloc.so -lm -lpthread || exit 3
timeout 60 $D/replay
