#!/usr/bin/env python3
"""Confirm a seeded change produced by a sub-agent in /tmp/wt-<id>[suffix], archive it under
/verif/seeded/<name>/, run our checks against it (applied to /repo, then reverted), remove the worktree.
usage: confirm_seed.py <prop> [--wt /tmp/wt-X] [--name NAME] [--checks C07,C08] [--keep-wt]"""
import json, os, shutil, subprocess, sys, time
V = '/verif'
prop = sys.argv[1]
def opt(k, d=None):
    return sys.argv[sys.argv.index(k) + 1] if k in sys.argv else d
wt = opt('--wt', '/tmp/wt-%s' % prop)
name = opt('--name', prop)
checks = opt('--checks', prop).split(',')
seed = os.path.join(wt, 'seed')
log = []
def sh(cmd, cwd=None, timeout=3600):
    t = time.time()
    r = subprocess.run(cmd, shell=True, cwd=cwd, stdout=subprocess.PIPE, stderr=subprocess.STDOUT, text=True, timeout=timeout)
    log.append({'cmd': cmd, 'cwd': cwd, 'rc': r.returncode, 'secs': round(time.time() - t, 1), 'tail': r.stdout[-1500:]})
    return r
if '--recreate' in sys.argv and not os.path.exists(wt):
    # rebuild a worktree from the archived seed (used when a confirmation has to be repeated)
    sh('git -C /repo worktree add -q %s HEAD' % wt)
    shutil.copytree(os.path.join(V, 'seeded', name), seed)
    sh('cmake -G Ninja -S . -B _build > /dev/null', cwd=wt)
    sh('git apply seed/patch.diff', cwd=wt)
patch = os.path.join(seed, 'patch.diff')
assert os.path.exists(patch), 'no patch.diff'
meta = {'property': prop, 'name': name, 'worktree': wt}
# 1. with change (as left by the agent): rebuild to be sure, run demo
sh('ninja -C _build > /dev/null', cwd=wt)
r1 = sh('bash seed/run_demo.sh', cwd=wt, timeout=3000)
meta['demo_with_change_rc'] = r1.returncode
# 2. ctest summary with the change (re-run the full suite ourselves)
r2 = sh('ctest --test-dir _build -j8 --timeout 2400 2>&1 | tail -120', cwd=wt, timeout=7200)
passed = None
for l in r2.stdout.splitlines():
    if 'tests passed' in l:
        meta['ctest_with_change'] = l.strip()
failed = [l.split('-')[1].strip().split(' ')[0] for l in r2.stdout.splitlines() if l.strip() and l.strip()[0].isdigit() and ' - ' in l and ('Failed' in l or 'Timeout' in l or 'Not Run' in l or 'SEGFAULT' in l or 'Subprocess' in l)]
base = json.load(open('/root/.vp/BASELINE.json'))
stable = {s.split('::')[0] for s in base['stable_pass']}
meta['baseline_tests_failing_with_change'] = sorted(set(failed) & stable)
# a baseline test that failed once under load is re-run alone (5 times) before it counts
still = []
for t in meta['baseline_tests_failing_with_change']:
    rr = sh("ctest --test-dir _build -R '^%s$' --timeout 3000 --repeat until-fail:2 2>&1 | tail -5" % t.replace('/', '.'), cwd=wt, timeout=7200)
    okl = [l for l in rr.stdout.splitlines() if '100% tests passed' in l]
    if not okl:
        still.append(t)
meta['baseline_tests_failed_once_then_passed_2x_alone'] = sorted(set(meta['baseline_tests_failing_with_change']) - set(still))
meta['baseline_tests_failing_with_change'] = still
# 3. without change
sh('git apply -R seed/patch.diff', cwd=wt)
sh('ninja -C _build > /dev/null', cwd=wt)
r3 = sh('bash seed/run_demo.sh', cwd=wt, timeout=3000)
meta['demo_without_change_rc'] = r3.returncode
sh('git apply seed/patch.diff', cwd=wt)
# 4. archive
dst = os.path.join(V, 'seeded', name)
os.makedirs(dst, exist_ok=True)
for fn in os.listdir(seed):
    p = os.path.join(seed, fn)
    if os.path.isfile(p) and os.path.getsize(p) < 400000 and not os.access(p, os.X_OK) or fn.endswith('.sh'):
        shutil.copy(p, os.path.join(dst, fn))
# 5. our checks against the change
res = {}
import fcntl
_lk = open('/var/tmp/verif-repo.lock', 'w'); fcntl.flock(_lk, fcntl.LOCK_EX)   # /repo is edited in place: one editor at a time
a = sh('git -C /repo apply %s' % os.path.join(dst, 'patch.diff'))
if a.returncode == 0:
    for c in checks:
        r = sh('./check %s --tier quick' % c, cwd=V)
        res[c] = {'rc': r.returncode, 'violations': [l for l in r.stdout.splitlines() if 'rule R' in l][:8]}
sh('git -C /repo checkout -- .')
fcntl.flock(_lk, fcntl.LOCK_UN)
meta['checks_against_change'] = res
meta['confirmed'] = (meta['demo_with_change_rc'] != 0 and meta['demo_without_change_rc'] == 0 and not meta['baseline_tests_failing_with_change'])
meta['commands'] = log
json.dump(meta, open(os.path.join(dst, 'meta.json'), 'w'), indent=1)
if '--keep-wt' not in sys.argv:
    sh('git -C /repo worktree remove --force %s' % wt)
print(json.dumps({k: meta[k] for k in ('name', 'confirmed', 'demo_with_change_rc', 'demo_without_change_rc', 'ctest_with_change', 'baseline_tests_failing_with_change', 'checks_against_change') if k in meta}, indent=1))
