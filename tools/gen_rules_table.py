#!/usr/bin/env python3
"""Regenerates the 'rules as built' table of DESIGN.md (between the RULES-TABLE markers) from evidence/*.json."""
import json, glob, os, re
V = os.path.dirname(os.path.dirname(os.path.abspath(__file__)))
rows = []
for f in sorted(glob.glob(os.path.join(V, 'evidence', 'C*.json'))):
    e = json.load(open(f))
    pid = e['property_id']
    cov = e['coverage']
    for r in cov.get('rules', []):
        rows.append('| %s | %s | %s | %d | %d |' % (pid, r['rule'], r['description'].replace('|', '/'), r['instances'], r['floor']))
        pid = ''
tab = ['| property | rule | what it requires | instances (%s tier) | floor |' % 'quick', '|---|---|---|---|---|'] + rows
d = open(os.path.join(V, 'DESIGN.md')).read()
a = '<!-- RULES-TABLE-BEGIN -->'; b = '<!-- RULES-TABLE-END -->'
if a in d and b in d:
    d = d[:d.index(a) + len(a)] + '\n' + '\n'.join(tab) + '\n' + d[d.index(b):]
    open(os.path.join(V, 'DESIGN.md'), 'w').write(d)
    print('table updated: %d rules' % len(rows))
else:
    print('markers not found')
