#!/usr/bin/env python3
"""Rename-robustness self-test (not a registered check).

For every property: take the functions the check reports as analysed (evidence/<id>.json), rename
every parameter and local variable of those functions in /repo (identifier -> identifier + suffix;
behaviour is unchanged), verify the renamed files still parse (clang -fsyntax-only with the unit's own
flags), run the check and expect exit 0.  Restores /repo afterwards.  A failure is a rule that depends
on the spelling of a local name.

usage: tools/rename_test.py [Cxx ...] [--suffix _rn] [--per-function]
"""
import json, os, re, subprocess, sys, fcntl
V = os.path.dirname(os.path.dirname(os.path.abspath(__file__)))
sys.path.insert(0, V)
from sa.driver import Ctx
REPO = '/repo'
args = [a for a in sys.argv[1:] if not a.startswith('--')]
suffix = '_rn'
if '--suffix' in sys.argv:
    suffix = sys.argv[sys.argv.index('--suffix') + 1]; args = [a for a in args if a != suffix]
per_function = '--per-function' in sys.argv
KEYWORDS = set('auto break case char const continue default do double else enum extern float for goto if inline int long register restrict return short signed sizeof static struct switch typedef union unsigned void volatile while'.split())


def locals_of(f):
    names = set(p['n'] for p in f.params if p.get('n'))
    for nid, n in enumerate(f.nodes):
        if n.get('dk') in ('var', 'parm') and n.get('n'):
            names.add(n['n'])
        if n.get('k') == 'decl':
            for v in n.get('vars', []):
                if v.get('n'):
                    names.add(v['n'])
    return {x for x in names if x not in KEYWORDS and re.fullmatch(r'[A-Za-z_]\w*', x)}


def rename_span(lines, start, end, names):
    if not names:
        return
    rx = re.compile(r'(?<![\w>.])(%s)(?!\w)' % '|'.join(sorted(map(re.escape, names), key=len, reverse=True)))
    rx_after_arrow = re.compile(r'(->|\.)\s*$')
    for i in range(start - 1, min(end, len(lines))):
        s = lines[i]
        out = []; pos = 0
        for m in rx.finditer(s):
            pre = s[:m.start()]
            if rx_after_arrow.search(pre) and not pre.rstrip().endswith('...'):
                continue
            # inside a string literal? (odd number of unescaped quotes before)
            if len(re.findall(r'(?<!\\)"', pre)) % 2 == 1:
                continue
            out.append(s[pos:m.start()]); out.append(m.group(1) + suffix); pos = m.end()
        out.append(s[pos:])
        lines[i] = ''.join(out)


def syntax_ok(ctx, unit_src):
    cwd, flags = ctx.flags_for(unit_src)
    p = subprocess.run(['clang', '-fsyntax-only', '-w', '-ferror-limit=0'] + flags + [unit_src], cwd=cwd, stdout=subprocess.PIPE, stderr=subprocess.PIPE, text=True)
    return p.returncode == 0, p.stderr[-1500:]


def main():
    man = json.load(open(os.path.join(V, 'MANIFEST.json')))
    props = [c['property_id'] for c in man['checks']]
    lk = open('/var/tmp/verif-repo.lock', 'w'); fcntl.flock(lk, fcntl.LOCK_EX)
    fails = 0; total = 0
    for prop in props:
        if args and prop not in args:
            continue
        subprocess.run([os.path.join(V, 'check'), prop, '--tier', 'quick'], cwd=V, stdout=subprocess.DEVNULL, stderr=subprocess.DEVNULL)   # evidence of the unchanged tree
        ev = json.load(open(os.path.join(V, 'evidence', prop + '.json')))
        fns = set(ev['coverage'].get('functions_analysed') or [])
        units = [x for x in (ev['coverage'].get('units_analysed') or []) if x.startswith(REPO + '/') and '/_build/' not in x and x.endswith('.c')]
        if not fns or not units:
            print('skip %s (no source-level functions recorded)' % prop); continue
        ctx = Ctx(prop, 'quick')
        spans = {}      # file -> {(line, endl): (fname, names)}
        unit_of_file = {}
        for usrc in units:
            try:
                u = ctx.extract(usrc)
            except Exception as e:
                continue
            for fname, f in u.funcs().items():
                if fname in fns and f.file.startswith(REPO + '/') and '/_build/' not in f.file and f.endl:
                    spans.setdefault(f.file, {})[(f.line, f.endl)] = (fname, locals_of(f))
                    unit_of_file.setdefault(f.file, usrc)
        jobs = []
        if per_function:
            for file, sp in spans.items():
                for k, v in sp.items():
                    jobs.append({file: {k: v}})
        else:
            jobs.append(spans)
        for job in jobs:
            total += 1
            saved = {}
            label = ','.join(v[0] for sp in job.values() for v in sp.values())
            try:
                excluded = set()
                for attempt in range(8):
                    nfun = 0; nnames = 0
                    for file, sp in job.items():
                        src = saved.get(file) or open(file).read(); saved[file] = src
                        lines = src.split('\n')
                        for (l, e), (fname, names) in sp.items():
                            rename_span(lines, l, e, names - excluded); nfun += 1; nnames += len(names - excluded)
                        open(file, 'w').write('\n'.join(lines))
                    bad = None
                    for file in job:
                        ok, err = syntax_ok(ctx, unit_of_file[file])
                        if not ok:
                            bad = (file, err)
                    if not bad:
                        break
                    und = set(x[:-len(suffix)] if x.endswith(suffix) else x for x in re.findall(r"undeclared identifier '(\w+)'", bad[1]))
                    und |= set(re.findall(r"no member named '(\w+)%s'" % re.escape(suffix), bad[1]))
                    if not und - excluded:
                        break
                    excluded |= und     # names a macro of the file refers to by spelling: renaming them is not a valid edit
                if bad:
                    print('SKIP %s: renamed %s does not parse:\n%s' % (prop, bad[0], bad[1][-600:]))
                    continue
                if excluded:
                    print('     %s: names kept because a macro refers to them by spelling: %s' % (prop, sorted(excluded)))
                r = subprocess.run([os.path.join(V, 'check'), prop, '--tier', 'quick'], cwd=V, stdout=subprocess.PIPE, stderr=subprocess.STDOUT, text=True)
                ok = r.returncode == 0
                print('%s %s rename of %d names in %d functions (%d files) exit=%d %s' % ('ok  ' if ok else 'FAIL', prop, nnames, nfun, len(job), r.returncode,
                                                                                       '' if ok else '[%s]\n%s' % (label[:300], r.stdout[-2500:])))
                if not ok:
                    fails += 1
            finally:
                for file, src in saved.items():
                    open(file, 'w').write(src)
        ctx.cleanup()
        subprocess.run([os.path.join(V, 'check'), prop, '--tier', 'quick'], cwd=V, stdout=subprocess.DEVNULL, stderr=subprocess.DEVNULL)   # evidence back to the unchanged tree
    print('rename-test: %d runs, %d failures' % (total, fails))
    subprocess.run(['git', '-C', REPO, 'status', '--short', '--untracked-files=no'])
    sys.exit(1 if fails else 0)


main()
