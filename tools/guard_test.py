#!/usr/bin/env python3
"""Defensive-check robustness self-test (not a registered check).

For every property: into each analysed function that has a pointer parameter, insert at the top of the body
    if( NULL == <first pointer parameter> ) return <error value>;
(one function at a time with --per-function, else all functions of the property at once), verify the files
parse, run the check and expect exit 0.  An added argument validation changes no behaviour the properties talk
about (the argument is never NULL in the runtime); a rule that reports the new early return demands more than
the property.  Restores /repo afterwards.
usage: tools/guard_test.py [Cxx ...] [--per-function]
"""
import json, os, re, subprocess, sys, fcntl
V = os.path.dirname(os.path.dirname(os.path.abspath(__file__)))
sys.path.insert(0, V)
from sa.driver import Ctx
REPO = '/repo'
args = [a for a in sys.argv[1:] if not a.startswith('--')]
per_function = '--per-function' in sys.argv
DEBUG_STMT = '--stmt-debug' in sys.argv     # insert a debug trace instead of an argument validation


def guard_for(f):
    if DEBUG_STMT:
        return 'parsec_debug_verbose(20, parsec_debug_output, "enter");'
    ptr = [p for p in f.params if p.get('n') and p.get('ty', '').rstrip().endswith('*')]
    if not ptr:
        return None
    rt = (f.ret or '').strip()
    if rt == 'void':
        rv = ''
    elif rt.endswith('*'):
        rv = ' NULL'
    elif rt in ('int', 'int32_t', 'int64_t', 'long', 'ssize_t'):
        rv = ' -1'
    else:
        return None
    return 'if( NULL == %s ) return%s;' % (ptr[0]['n'], rv)


def body_open(f):
    best = None
    for n in f.nodes:
        if n.get('k') == 'compound' and 'l' in n and n.get('f') is not None and f.unit.files[n['f']] == f.file and 'mo' not in n:
            if best is None or (n['l'], n['c']) < best:
                best = (n['l'], n['c'])
    return best


def syntax_ok(ctx, unit_src):
    cwd, flags = ctx.flags_for(unit_src)
    p = subprocess.run(['clang', '-fsyntax-only', '-w', '-ferror-limit=0'] + flags + [unit_src], cwd=cwd, stdout=subprocess.PIPE, stderr=subprocess.PIPE, text=True)
    return p.returncode == 0, p.stderr[-1500:]


def main():
    man = json.load(open(os.path.join(V, 'MANIFEST.json')))
    props = [c['property_id'] for c in man['checks']]
    lk = open('/var/tmp/verif-repo.lock', 'w'); fcntl.flock(lk, fcntl.LOCK_EX)
    fails = 0; total = 0
    for prop in props:
        if args and prop not in args:
            continue
        subprocess.run([os.path.join(V, 'check'), prop, '--tier', 'quick'], cwd=V, stdout=subprocess.DEVNULL, stderr=subprocess.DEVNULL)
        ev = json.load(open(os.path.join(V, 'evidence', prop + '.json')))
        fns = set(ev['coverage'].get('functions_analysed') or [])
        units = [x for x in (ev['coverage'].get('units_analysed') or []) if x.startswith(REPO + '/') and '/_build/' not in x and x.endswith('.c')]
        ctx = Ctx(prop, 'quick')
        sites = {}      # file -> [(line, col, fname, text)]
        unit_of_file = {}
        for usrc in units:
            try:
                u = ctx.extract(usrc)
            except Exception:
                continue
            for fname, f in u.funcs().items():
                if fname in fns and f.file.startswith(REPO + '/') and '/_build/' not in f.file:
                    g = guard_for(f); bo = body_open(f)
                    if g and bo and not any(x[2] == fname for x in sites.get(f.file, [])):
                        sites.setdefault(f.file, []).append((bo[0], bo[1], fname, g))
                        unit_of_file.setdefault(f.file, usrc)
        jobs = []
        if per_function:
            for file, sl in sites.items():
                for s_ in sl:
                    jobs.append({file: [s_]})
        elif sites:
            jobs.append(sites)
        for job in jobs:
            total += 1
            saved = {}
            label = ','.join(x[2] for sl in job.values() for x in sl)
            try:
                for file, sl in job.items():
                    src = open(file).read(); saved[file] = src
                    lines = src.split('\n')
                    for (l, c, fname, g) in sorted(sl, reverse=True):
                        s_ = lines[l - 1]
                        if s_[c - 1:c] != '{':
                            continue
                        lines[l - 1] = s_[:c] + ' ' + g + s_[c:]
                    open(file, 'w').write('\n'.join(lines))
                bad = None
                for file in job:
                    ok, err = syntax_ok(ctx, unit_of_file[file])
                    if not ok:
                        bad = (file, err)
                if bad:
                    print('SKIP %s [%s]: does not parse: %s' % (prop, label[:100], bad[1][-300:])); continue
                r = subprocess.run([os.path.join(V, 'check'), prop, '--tier', 'quick'], cwd=V, stdout=subprocess.PIPE, stderr=subprocess.STDOUT, text=True)
                ok = r.returncode == 0
                viol = [l_ for l_ in r.stdout.splitlines() if ': rule ' in l_ or 'ANALYSIS-BROKEN' in l_]
                print('%s %s guard in %d functions exit=%d %s' % ('ok  ' if ok else 'FAIL', prop, sum(len(x) for x in job.values()), r.returncode, '' if ok else '[%s]\n   %s' % (label[:200], '\n   '.join(v[:260] for v in viol[:12]))))
                if not ok:
                    fails += 1
            finally:
                for file, src in saved.items():
                    open(file, 'w').write(src)
        ctx.cleanup()
        subprocess.run([os.path.join(V, 'check'), prop, '--tier', 'quick'], cwd=V, stdout=subprocess.DEVNULL, stderr=subprocess.DEVNULL)
    print('guard-test: %d runs, %d failures' % (total, fails))
    subprocess.run(['git', '-C', REPO, 'status', '--short', '--untracked-files=no'])
    sys.exit(1 if fails else 0)


main()
