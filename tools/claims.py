"""Per-property claim table: source of MANIFEST.json (tools/gen_manifest.py)."""
NOTE = ('Trusted: clang 14 front end / CFG builder; the lock, atomic and sink tables of sa/tables.py; the single build '
        'configuration of /repo/_build. Decides the named structural clauses (necessary conditions), not the behaviour as a whole.')

CLAIMS = {
 'C07': dict(cat='other', ref='DESIGN.md §2 C07',
   text='All-paths static rules on parsec_update_deps_with_{counter,mask}: readiness verdict computed from the result of exactly one atomic RMW per path (post-value), goal provenance, and the atomic wrapper table re-derived from atomic.h/atomic-gcc.h. A statement about every CFG path, hence every interleaving through these functions; not a proof of the protocol.',
   tech='path-sensitive value-flow over clang CFG + affine normal form (custom LibTooling extractor)'),
 'C10': dict(cat='other', ref='DESIGN.md §2 C10',
   text='All-paths static rules on the local termination detector: termination_detected reachable only through the success edge of CAS(BUSY->TERMINATING); monitor word written only by initialisation and the three legal CAS transitions; each attempt guarded by a zero test of the post-value of the pending-action update made on the same path; zero-crossing coupling of nb_tasks and nb_pending_actions identical in set_/addto_nb_tasks; callback -> TERMINATED -> release order. Necessary conditions for exactness under every interleaving, not the interleaving proof.',
   tech='dominator / path-sensitive value-flow rules over clang CFG; CAS transition table; sibling agreement'),
 'C25': dict(cat='other', ref='DESIGN.md §2 C25',
   text='GUARDED_BY lockset analysis for usagecnt/usagelmt/retained (bucket lock held on all paths, fresh-allocation exception), free-after-remove and reclaim-guard (limit == post-value of count AND not retained) dominance rules, lock pairing on all exits, retain/release counting per path in datarepo.c.',
   tech='lockset typestate + dominator rules + per-path counting over clang CFG'),
 'C29': dict(cat='other', ref='DESIGN.md §2 C29',
   text='Ordering and guard clauses on the three future kinds: CAS-guarded single completion with wmb/rmb order (base), completion on the post-value == 0 of a single fetch_dec (countable), test-and-set of TRIGGERED inside one future_lock critical section and fulfilment only for the thread that found it unset, nested list under the lock with pairing on all exits (data-copy).',
   tech='dominating-guard / must-precede rules + lockset typestate over clang CFG'),
 'C15': dict(cat='other', ref='DESIGN.md §2 C15',
   text='Structural rules on compound.c: startup enqueues only member 0; the completion callback enqueues exactly member (old counter)+1 and only while the returned runtime-action count is positive; callback installed on every member by a full-range loop; compose keeps order and NULL-terminates; nobody else enqueues members.',
   tech='path-sensitive value-flow + loop-shape and who-may-call rules over clang AST/CFG'),
 'C06': dict(cat='other', ref='DESIGN.md §2 C06',
   text='Loop-exit-edge dominance for taskpool_wait/context_wait returns, frozen who-may-write table for active_taskpools (whole-program scan in the thorough tier), callback-before-decrement / increment-before-startup ordering, post-value test in context_wait, single caller of on_complete.',
   tech='edge-cut reachability on the CFG + whole-program field-effect scan + ordering rules'),
}

NOT_APPLICABLE = {
 'C05': 'whole-system value equality across process counts / message paths: quantifies over runtime rank sets, datatype sizes and the short limit; no necessary structural clause beyond those decided under C13',
 'C18': 'element values after a datatype conversion; datatypes are opaque MPI handles created at run time',
 'C19': 'arithmetic identity between index/blocklength arrays and a geometric region for all (m,n,ld,uplo,diag): deciding it is evaluation (execution), not static analysis',
 'C21': 'value / visit-count property of a JDF program over all shapes and displacements; execution space is data dependent',
 'C22': 'value / visit-count property of specific JDF programs and operators over all shapes',
 'C39': 'string split/join/parse results over all inputs: values, not code shape',
 'C40': 'parse results and bindings over all vpmap specifications and machines: values, not code shape',
 'C42': 'PARSEC_PROF_TRACE is off in the analysed build (writer not compiled); round-trip equality is a value property',
 'C43': 'device_gpu.c / transfer_gpu.c are not in this build\'s compilation database (no accelerator back-end); a static tool sees only what is parsed',
}
PENDING_REASON = 'check not built yet (work in progress); see DESIGN.md for the planned clauses'
