"""Per-property claim table: source of MANIFEST.json (tools/gen_manifest.py)."""
NOTE = ('Trusted: clang 14 front end / CFG builder; the lock, atomic and sink tables of sa/tables.py; the single build '
        'configuration of /repo/_build. Decides the named structural clauses (necessary conditions), not the behaviour as a whole.')

CLAIMS = {
 'C07': dict(cat='other', ref='DESIGN.md §2 C07',
   text='All-paths static rules on parsec_update_deps_with_{counter,mask}: readiness verdict computed from the result of exactly one atomic RMW per path (post-value), goal provenance, and the atomic wrapper table re-derived from atomic.h/atomic-gcc.h. A statement about every CFG path, hence every interleaving through these functions; not a proof of the protocol.',
   tech='path-sensitive value-flow over clang CFG + affine normal form (custom LibTooling extractor)'),
 'C10': dict(cat='other', ref='DESIGN.md §2 C10',
   text='All-paths static rules on the local termination detector: termination_detected reachable only through the success edge of CAS(BUSY->TERMINATING); monitor word written only by initialisation and the three legal CAS transitions; each attempt guarded by a zero test of the post-value of the pending-action update made on the same path; zero-crossing coupling of nb_tasks and nb_pending_actions identical in set_/addto_nb_tasks; callback -> TERMINATED -> release order. Necessary conditions for exactness under every interleaving, not the interleaving proof.',
   tech='dominator / path-sensitive value-flow rules over clang CFG; CAS transition table; sibling agreement'),
 'C25': dict(cat='other', ref='DESIGN.md §2 C25',
   text='GUARDED_BY lockset analysis for usagecnt/usagelmt/retained (bucket lock held on all paths, fresh-allocation exception), free-after-remove and reclaim-guard (limit == post-value of count AND not retained) dominance rules, lock pairing on all exits, retain/release counting per path in datarepo.c.',
   tech='lockset typestate + dominator rules + per-path counting over clang CFG'),
}

NOT_APPLICABLE = {
 'C05': 'whole-system value equality across process counts / message paths: quantifies over runtime rank sets, datatype sizes and the short limit; no necessary structural clause beyond those decided under C13',
 'C18': 'element values after a datatype conversion; datatypes are opaque MPI handles created at run time',
 'C19': 'arithmetic identity between index/blocklength arrays and a geometric region for all (m,n,ld,uplo,diag): deciding it is evaluation (execution), not static analysis',
 'C21': 'value / visit-count property of a JDF program over all shapes and displacements; execution space is data dependent',
 'C22': 'value / visit-count property of specific JDF programs and operators over all shapes',
 'C39': 'string split/join/parse results over all inputs: values, not code shape',
 'C40': 'parse results and bindings over all vpmap specifications and machines: values, not code shape',
 'C42': 'PARSEC_PROF_TRACE is off in the analysed build (writer not compiled); round-trip equality is a value property',
 'C43': 'device_gpu.c / transfer_gpu.c are not in this build\'s compilation database (no accelerator back-end); a static tool sees only what is parsed',
}
PENDING_REASON = 'check not built yet (work in progress); see DESIGN.md for the planned clauses'
