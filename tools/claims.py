"""Per-property claim table: source of MANIFEST.json (tools/gen_manifest.py)."""
NOTE = ('Trusted: clang 14 front end / CFG builder; the lock, atomic and sink tables of sa/tables.py; the single build '
        'configuration of /repo/_build. Decides the named structural clauses (necessary conditions), not the behaviour as a whole.')

CLAIMS = {
 'C07': dict(cat='other', ref='DESIGN.md §2 C07',
   text='All-paths static rules on parsec_update_deps_with_{counter,mask}: readiness verdict computed from the result of exactly one atomic RMW per path (post-value), goal provenance, and the atomic wrapper table re-derived from atomic.h/atomic-gcc.h. A statement about every CFG path, hence every interleaving through these functions; not a proof of the protocol.',
   tech='path-sensitive value-flow over clang CFG + affine normal form (custom LibTooling extractor)'),
 'C10': dict(cat='other', ref='DESIGN.md §2 C10',
   text='All-paths static rules on the local termination detector: termination_detected reachable only through the success edge of CAS(BUSY->TERMINATING); monitor word written only by initialisation and the three legal CAS transitions; each attempt guarded by a zero test of the post-value of the pending-action update made on the same path; zero-crossing coupling of nb_tasks and nb_pending_actions identical in set_/addto_nb_tasks; callback -> TERMINATED -> release order. Necessary conditions for exactness under every interleaving, not the interleaving proof.',
   tech='dominator / path-sensitive value-flow rules over clang CFG; CAS transition table; sibling agreement'),
 'C25': dict(cat='other', ref='DESIGN.md §2 C25',
   text='GUARDED_BY lockset analysis for usagecnt/usagelmt/retained (bucket lock held on all paths, fresh-allocation exception), free-after-remove and reclaim-guard (limit == post-value of count AND not retained) dominance rules, lock pairing on all exits, retain/release counting per path in datarepo.c.',
   tech='lockset typestate + dominator rules + per-path counting over clang CFG'),
 'C29': dict(cat='other', ref='DESIGN.md §2 C29',
   text='Ordering and guard clauses on the three future kinds: CAS-guarded single completion with wmb/rmb order (base), completion on the post-value == 0 of a single fetch_dec (countable), test-and-set of TRIGGERED inside one future_lock critical section and fulfilment only for the thread that found it unset, nested list under the lock with pairing on all exits (data-copy).',
   tech='dominating-guard / must-precede rules + lockset typestate over clang CFG'),
 'C15': dict(cat='other', ref='DESIGN.md §2 C15',
   text='Structural rules on compound.c: startup enqueues only member 0; the completion callback enqueues exactly member (old counter)+1 and only while the returned runtime-action count is positive; callback installed on every member by a full-range loop; compose keeps order and NULL-terminates; nobody else enqueues members.',
   tech='path-sensitive value-flow + loop-shape and who-may-call rules over clang AST/CFG'),
 'C06': dict(cat='other', ref='DESIGN.md §2 C06',
   text='Loop-exit-edge dominance for taskpool_wait/context_wait returns, frozen who-may-write table for active_taskpools (whole-program scan in the thorough tier), callback-before-decrement / increment-before-startup ordering, post-value test in context_wait, single caller of on_complete.',
   tech='edge-cut reachability on the CFG + whole-program field-effect scan + ordering rules'),
 'C08': dict(cat='other', ref='DESIGN.md §2 C08',
   text='For all 11 scheduler modules: complete module tables; linear-resource typestate showing the ring parameter of every sched_*_schedule reaches exactly one container sink on every path (wrapper summaries derived from the unit); every sched_*_select returns only popped values, drops no earlier non-NULL pop and sets *distance; hbbuffer overflow always reaches the parent; __parsec_schedule_vp schedules each ring slot exactly once. All-paths statements about the code, not about concurrent container internals.',
   tech='linear-resource (ownership) typestate over enumerated CFG paths + edge-cut reachability + initialiser tables'),
 'C03': dict(cat='other', ref='DESIGN.md §2 C03',
   text='GUARDED_BY lockset analysis for the shared last_user/last_writer records of a tile in all DTD units; snapshot-and-update in one critical section in parsec_insert_dtd_task (including the re-lock path); writer record updated exactly for write accesses; lock pairing on all exits.',
   tech='lockset typestate + same-critical-section reachability rule over clang CFG'),
 'C04': dict(cat='other', ref='DESIGN.md §2 C04',
   text='data_lookup_of_dtd_task returns AGAIN for every OUTPUT-flagged flow whose copy still has readers and examines all flows; the reader counter is touched only through the atomic helpers (who-may-access scan with a positive exception table) whose return value is the post-value; AGAIN from prepare_input re-schedules exactly once.',
   tech='dominating-guard rules + field-effect scan + path obligations'),
 'C16': dict(cat='other', ref='DESIGN.md §2 C16',
   text='Path obligations in __parsec_task_progress classified by the switch labels taken: AGAIN re-schedules the same task once at distance+1 and never completes; hook-AGAIN marks STATUS_HOOK first; DONE completes once; ASYNC does neither.',
   tech='path enumeration with switch-label refinement over clang CFG'),
 'C17': dict(cat='other', ref='DESIGN.md §2 C17',
   text='Weak, clause level: the flush task becomes last_writer and last_user of the tile in the same critical section as the snapshot, is linked after the unlock, the flush pair orders send before receive and flush_all visits every tile. Says nothing about the value that reaches the owner.',
   tech='lockset typestate + ordering rules over clang CFG'),
}

NOT_APPLICABLE = {
 'C05': 'whole-system value equality across process counts / message paths: quantifies over runtime rank sets, datatype sizes and the short limit; no necessary structural clause beyond those decided under C13',
 'C18': 'element values after a datatype conversion; datatypes are opaque MPI handles created at run time',
 'C19': 'arithmetic identity between index/blocklength arrays and a geometric region for all (m,n,ld,uplo,diag): deciding it is evaluation (execution), not static analysis',
 'C21': 'value / visit-count property of a JDF program over all shapes and displacements; execution space is data dependent',
 'C22': 'value / visit-count property of specific JDF programs and operators over all shapes',
 'C39': 'string split/join/parse results over all inputs: values, not code shape',
 'C40': 'parse results and bindings over all vpmap specifications and machines: values, not code shape',
 'C42': 'PARSEC_PROF_TRACE is off in the analysed build (writer not compiled); round-trip equality is a value property',
 'C43': 'device_gpu.c / transfer_gpu.c are not in this build\'s compilation database (no accelerator back-end); a static tool sees only what is parsed',
}
PENDING_REASON = 'check not built yet (work in progress); see DESIGN.md for the planned clauses'
