#!/usr/bin/env python3
"""Self-test of the checkers (not a registered check): applies each mutant of mutants/*.json to /repo
(literal text replacement), runs the named checks, and restores the file.
A 'bad' mutant must make the check exit 1 and name the expected rule; a 'benign' one must leave it at exit 0.
usage: tools/selftest.py [Cxx ...] [--tier quick|thorough] [--syntax]"""
import json, os, subprocess, sys, glob
V = os.path.dirname(os.path.dirname(os.path.abspath(__file__)))
REPO = '/repo'
args = [a for a in sys.argv[1:] if not a.startswith('--')]
tier = 'quick'
if '--tier' in sys.argv:
    tier = sys.argv[sys.argv.index('--tier') + 1]
    args = [a for a in args if a != tier]
files = sorted(glob.glob(os.path.join(V, 'mutants', '*.json')))
fails = 0; total = 0
import fcntl
_lk = open('/var/tmp/verif-repo.lock', 'w'); fcntl.flock(_lk, fcntl.LOCK_EX)   # /repo is edited in place: one editor at a time
for mf in files:
    prop = os.path.basename(mf)[:-5]
    if args and prop not in args:
        continue
    for m in json.load(open(mf)):
        total += 1
        path = os.path.join(REPO, m['file'])
        src = open(path).read()
        edits = m.get('edits') or [[m['old'], m['new']]]
        bad_anchor = [o for o, _ in edits if src.count(o) != 1]
        if bad_anchor:
            print('SELFTEST-BROKEN %s %s: anchor text occurs %d times in %s' % (prop, m['name'], src.count(bad_anchor[0]), m['file']))
            fails += 1
            continue
        try:
            new_src = src
            for o, n_ in edits:
                new_src = new_src.replace(o, n_)
            open(path, 'w').write(new_src)
            if '--syntax' in sys.argv:
                pass
            for p in m.get('props', [prop]):
                r = subprocess.run([os.path.join(V, 'check'), p, '--tier', m.get('tier', tier)], cwd=V, stdout=subprocess.PIPE, stderr=subprocess.STDOUT, text=True)
                out = r.stdout
                if m['kind'] == 'bad':
                    ok = r.returncode == 1 and (m.get('rule') is None or ('rule %s' % m['rule']) in out)
                else:
                    ok = r.returncode == 0
                print('%s %-4s %-34s %-6s exit=%d %s' % ('ok  ' if ok else 'FAIL', p, m['name'], m['kind'], r.returncode, '' if ok else '\n' + out[-1500:]))
                if not ok:
                    fails += 1
        finally:
            open(path, 'w').write(src)
print('selftest: %d mutants, %d failures' % (total, fails))
subprocess.run(['git', '-C', REPO, 'status', '--short', '--untracked-files=no'])
sys.exit(1 if fails else 0)
