#!/usr/bin/env python3
"""Prints the prompt for a seeding sub-agent: property text + its scratch worktree only."""
import json, sys
pid, wt = sys.argv[1], sys.argv[2]
p = [json.loads(l) for l in open('/verif/properties.jsonl') if json.loads(l)['id'] == pid][0]
print(f"""You are working on the PaRSEC task runtime (ICLDisco/parsec, C) in your own scratch git worktree at {wt}.
Work ONLY inside {wt}. Never read, write or run anything in /repo or /verif (they are off limits), and do not commit anything.

PROPERTY ({pid}): {p['title']}
{p['statement']}
Quantified over: {p['quantifier']['text']}

YOUR TASK: produce a realistic source change (a plausible bug a developer could introduce: a refactoring slip, a wrong order, a dropped check, an off-by-one, a moved unlock, a missed case) to the PaRSEC sources in {wt} that BREAKS this property, such that
  (1) the tree still compiles,
  (2) the existing test suite still passes (see below), and
  (3) you have a demonstration - a small C program or test linked against the built libparsec (or a shell script driving the built tools) - that FAILS (wrong result, assertion, crash, hang detected by timeout, duplicated/lost item ...) with your change applied and PASSES without it.
The change must need something specific to manifest - a particular thread interleaving, a fault or unusual return at a particular point, a multi-step sequence of operations, an unusual input/configuration, or two cooperating sites that each look fine alone - NOT something that ordinary use or the existing tests would expose at once. Keep the change small (a few lines, 1-3 files) and keep it in non-test source files (parsec/...), not in tests or build files.

BUILD AND TEST (about 1-2 minutes each on this machine; other jobs share the cores):
  cd {wt} && cmake -G Ninja -S . -B _build > /dev/null && ninja -C _build
  ctest --test-dir {wt}/_build -j8 --timeout 2400
At baseline exactly 75 tests pass; all tests whose name contains ':mp' or 'mpi', 'runtime/scheduling*' and 'collections/matrix/band' FAIL at baseline in this sandbox (no multi-process MPI launch) - ignore those; the same 75 must still pass with your change (dsl/dtd/task_generation is a timing test that takes 10-20 minutes when the machine is loaded - that is why the timeout above is generous; run the full suite once, at the end). There is no network. Re-run ninja after editing sources. The built library is {wt}/_build/parsec/libparsec.so; headers: -I{wt} -I{wt}/parsec/include -I{wt}/_build -I{wt}/_build/parsec/include, MPI headers under /usr/lib/x86_64-linux-gnu/openmpi/include (link with mpicc if needed). For demos needing internal headers, compiling your demo with the same flags as an existing test in {wt}/tests (see `ninja -C _build -t commands <target>`) is the easiest route; you may also add the demo as a file under {wt}/seed/ and compile it by hand. A demo may amplify a race (many iterations, many threads, sched_yield/usleep in the DEMO, not in the library) and may use a timeout to detect hangs. Make it as deterministic as you reasonably can and say how often it fails.

DELIVERABLES, all under {wt}/seed/ :
  patch.diff   - `git -C {wt} diff -- parsec tools` of the source change ONLY (no seed/ files, no _build)
  demo.c / demo.sh / ... - the demonstration, with a one-command way to build and run it (seed/run_demo.sh that exits 0 on pass and non-zero on fail)
  README.md    - which code path you broke and why it breaks the property, what is needed for it to manifest, the exact commands you ran, the demo's output with and without the change, and the ctest summary line with the change applied.
Before finishing, verify for real: (a) demo passes on the unmodified tree, (b) apply the change, rebuild, demo fails, (c) full ctest with the change: the 75 baseline tests pass. Leave the worktree with the change APPLIED and built. Report back a short summary (what you changed, where, how it manifests, pass/fail evidence). If after a serious attempt you cannot make a breaking change that keeps the tests green, say so and explain what you tried.""")
