#!/bin/sh
# usage: tools/with_seed.sh <seeded-name> <check> [<check> ...]
# applies /verif/seeded/<name>/patch.diff to /repo (under the /repo edit lock), runs the checks, reverts.
S=$1; shift
exec 9>/var/tmp/verif-repo.lock; flock 9
git -C /repo apply /verif/seeded/$S/patch.diff || exit 3
for c in "$@"; do /verif/check $c --tier ${TIER:-quick} 2>&1 | tail -${TAILN:-6}; done
git -C /repo apply -R /verif/seeded/$S/patch.diff
git -C /repo status --short | grep -v _build
