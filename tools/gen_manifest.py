#!/usr/bin/env python3
import json, os, sys
sys.path.insert(0, os.path.dirname(os.path.abspath(__file__)))
import claims
V = os.path.dirname(os.path.dirname(os.path.abspath(__file__)))
props = [json.loads(l)['id'] for l in open(os.path.join(V, 'properties.jsonl'))]
checks = []
na = []
for p in props:
    c = claims.CLAIMS.get(p)
    if c and os.path.exists(os.path.join(V, 'rules', p + '.py')):
        checks.append({
            'property_id': p,
            'quick_cmd': './check %s --tier quick' % p,
            'thorough_cmd': './check %s --tier thorough' % p,
            'evidence_file': 'evidence/%s.json' % p,
            'replay_cmd_template': './check %s --replay {path}' % p,
            'engine': 'sa',
            'level_claimed': {'category': c['cat'], 'text': c['text'], 'design_ref': c['ref']},
            'level_note': c.get('note', claims.NOTE),
            'technique': c['tech'],
        })
    else:
        na.append({'property_id': p, 'reason': claims.NOT_APPLICABLE.get(p, claims.PENDING_REASON)})
m = {
 'version': 1,
 'setup_cmd': './setup.sh',
 'hooks': {'guard': 'PARSEC_VERIF_SA', 'enable': 'no hooks: the checks analyse /repo sources as they are, with the flags of /repo/_build',
           'baseline_off_cmd': 'ctest --test-dir /repo/_build -j8 --timeout 900', 'source_commits': [], 'add_only': True},
 'engines': [{'name': 'sa', 'path': 'sa/', 'serves_properties': [c['property_id'] for c in checks],
              'kind_free_text': 'custom static analysis: clang-14 LibTooling fact extractor (AST + CFG per function, real build flags) and a Python rule engine (dominators, path enumeration with branch refinement, lockset typestate, field-effect index, affine normal form, initialiser tables, mirror equivalence); rules per property in rules/Cxx.py'}],
 'checks': checks,
 'not_applicable': na,
 'notes': 'Exit codes: 0 all rule instances hold; 1 VIOLATION; 2 ANALYSIS-BROKEN (an anchor vanished or an instance floor is not met). Known findings: known_findings.json.',
}
json.dump(m, open(os.path.join(V, 'MANIFEST.json'), 'w'), indent=1)
print('claimed', len(checks), 'not_applicable', len(na))
