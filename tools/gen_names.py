#!/usr/bin/env python3
"""Writes sa/names.json: for every function defined in /repo's C sources of the compile database, the names and
types of its parameters and locals in declaration order, as spelled on the tree the rules were written against.
facts.Func uses it to alpha-convert a function whose locals were merely renamed back to these spellings, so that
a rule naming a local ("copy->version") binds to the declaration, not to its spelling.  Regenerate only when rules
are (re)written against a new spelling:  python3 tools/gen_names.py"""
import json, os, sys
V = os.path.dirname(os.path.dirname(os.path.abspath(__file__)))
sys.path.insert(0, V)
os.environ['VERIF_NO_ALPHA'] = '1'
from sa.driver import Ctx
from sa import facts
import fcntl
_lk = open('/var/tmp/verif-repo.lock', 'w'); fcntl.flock(_lk, fcntl.LOCK_EX)   # /repo must be the unchanged tree
assert not [l for l in __import__('subprocess').check_output(['git', '-C', '/repo', 'status', '--short', '--untracked-files=no'], text=True).splitlines() if l.strip()], '/repo has local changes'
ctx = Ctx('names', 'quick')
units = [u for u in ctx.all_units() if u.startswith('/repo/') and '/_build/' not in u and '/tests/' not in u and '/tools/' not in u]
res = ctx.extract_many(units, main_only=False)
table = {}
for src, out, err in res:
    if out is None:
        print('skip', src, (err or '')[:100]); continue
    u = facts.Unit(out)
    for fd in u.d['functions']:
        if 'cfg' not in fd or 'f' not in fd:
            continue
        file = u.files[fd['f']]
        if not file.startswith('/repo/') or '/_build/' in file:
            continue
        key = '%s:%s' % (os.path.relpath(file, '/repo'), fd['name'])
        if key in table:
            continue
        table[key] = facts.decl_list(fd)
json.dump(table, open(os.path.join(V, 'sa', 'names.json'), 'w'), indent=0, sort_keys=True)
print('functions:', len(table))
ctx.cleanup()
