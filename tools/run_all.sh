#!/bin/sh
# runs every claimed check in the given tier (default quick) and prints id, exit status, seconds
T=${1:-quick}
for id in $(jq -r '.checks[].property_id' /verif/MANIFEST.json 2>/dev/null || jq -r '.checks | keys[]' /verif/MANIFEST.json); do
  s=$(date +%s); out=$(/verif/check $id --tier $T 2>&1); rc=$?; e=$(date +%s)
  echo "$id rc=$rc $((e-s))s $(echo "$out" | tail -1)"
done
